//go:build verif

package conngater_test

// C10 correspondence harness, end to end (injected with `go test -overlay`;
// not part of /repo).  Two real swarms: G carries the real
// BasicConnectionGater (behind a delegating recorder) and transports wrapped
// to count Dial invocations; R has no gater.  R is blocked on G by peer, by
// address in each byte form, by subnet in each representation; both directions;
// before and after a restart of the gater on its datastore.
// Wire format: /verif/coq/c10/Spec.v (end-to-end case).

import (
	"context"
	"crypto/ed25519"
	"encoding/binary"
	"fmt"
	"net"
	"strings"
	"sync"
	"testing"
	"time"

	"github.com/ipfs/go-datastore"
	dssync "github.com/ipfs/go-datastore/sync"
	"github.com/libp2p/go-libp2p/core/connmgr"
	"github.com/libp2p/go-libp2p/core/control"
	"github.com/libp2p/go-libp2p/core/crypto"
	"github.com/libp2p/go-libp2p/core/network"
	"github.com/libp2p/go-libp2p/core/peer"
	"github.com/libp2p/go-libp2p/core/peerstore"
	"github.com/libp2p/go-libp2p/core/sec"
	"github.com/libp2p/go-libp2p/core/transport"
	"github.com/libp2p/go-libp2p/internal/verifh"
	"github.com/libp2p/go-libp2p/p2p/host/eventbus"
	"github.com/libp2p/go-libp2p/p2p/host/peerstore/pstoremem"
	"github.com/libp2p/go-libp2p/p2p/muxer/yamux"
	"github.com/libp2p/go-libp2p/p2p/net/conngater"
	"github.com/libp2p/go-libp2p/p2p/net/swarm"
	tptu "github.com/libp2p/go-libp2p/p2p/net/upgrader"
	"github.com/libp2p/go-libp2p/p2p/security/insecure"
	libp2pquic "github.com/libp2p/go-libp2p/p2p/transport/quic"
	"github.com/libp2p/go-libp2p/p2p/transport/quicreuse"
	"github.com/libp2p/go-libp2p/p2p/transport/tcp"
	"github.com/libp2p/go-libp2p/p2p/transport/websocket"
	libp2pwebtransport "github.com/libp2p/go-libp2p/p2p/transport/webtransport"
	ma "github.com/multiformats/go-multiaddr"
	madns "github.com/multiformats/go-multiaddr-dns"
	manet "github.com/multiformats/go-multiaddr/net"
	"github.com/quic-go/quic-go"
)

// a persistent datastore serialises what it is given; MapDatastore keeps the
// caller's slice, which the harness overwrites after every rule call
type e2eCopyDS struct{ datastore.Datastore }

func (d e2eCopyDS) Put(ctx context.Context, k datastore.Key, v []byte) error {
	return d.Datastore.Put(ctx, k, append([]byte{}, v...))
}

func e2eNewDS() datastore.Datastore {
	return e2eCopyDS{dssync.MutexWrap(datastore.NewMapDatastore())}
}

// ---- recorder ------------------------------------------------------------------

type e2eRec struct {
	mu     sync.Mutex
	evs    [][4]int64
	addrs  []ma.Multiaddr // outbound: the addresses listed for R, by index
	remote peer.ID
	seenRemote []ma.Multiaddr // remote addresses InterceptAccept saw
	unlisted int
}

func (r *e2eRec) add(e [4]int64) {
	r.mu.Lock()
	r.evs = append(r.evs, e)
	r.mu.Unlock()
}

func (r *e2eRec) idx(a ma.Multiaddr) int64 {
	for i, x := range r.addrs {
		if x.Equal(a) {
			return int64(i)
		}
	}
	return -1
}

func (r *e2eRec) pidx(p peer.ID) int64 {
	if p == r.remote {
		return 1
	}
	return 9
}

func b2i(b bool) int64 {
	if b {
		return 1
	}
	return 0
}

// delegating gater: every callback goes to the current real gater
type e2eGater struct {
	mu    sync.Mutex
	inner connmgr.ConnectionGater
	rec   *e2eRec
}

func (g *e2eGater) cur() connmgr.ConnectionGater {
	g.mu.Lock()
	defer g.mu.Unlock()
	return g.inner
}

func (g *e2eGater) InterceptPeerDial(p peer.ID) bool {
	allow := g.cur().InterceptPeerDial(p)
	g.rec.add([4]int64{1, g.rec.pidx(p), b2i(allow), 0})
	return allow
}

func (g *e2eGater) InterceptAddrDial(p peer.ID, a ma.Multiaddr) bool {
	allow := g.cur().InterceptAddrDial(p, a)
	if i := g.rec.idx(a); i >= 0 {
		g.rec.add([4]int64{2, i, b2i(allow), 0})
	} else {
		g.rec.mu.Lock()
		g.rec.unlisted++
		g.rec.mu.Unlock()
	}
	return allow
}

func (g *e2eGater) InterceptAccept(c network.ConnMultiaddrs) bool {
	allow := g.cur().InterceptAccept(c)
	g.rec.mu.Lock()
	g.rec.seenRemote = append(g.rec.seenRemote, c.RemoteMultiaddr())
	g.rec.mu.Unlock()
	g.rec.add([4]int64{4, b2i(allow), 0, 0})
	return allow
}

func (g *e2eGater) InterceptSecured(d network.Direction, p peer.ID, c network.ConnMultiaddrs) bool {
	allow := g.cur().InterceptSecured(d, p, c)
	g.rec.add([4]int64{6, b2i(d == network.DirInbound), g.rec.pidx(p), b2i(allow)})
	return allow
}

func (g *e2eGater) InterceptUpgraded(c network.Conn) (bool, control.DisconnectReason) {
	allow, r := g.cur().InterceptUpgraded(c)
	g.rec.add([4]int64{7, b2i(allow), 0, 0})
	return allow, r
}

// counting transport: records every Dial invocation
type e2eTpt struct {
	transport.Transport
	rec *e2eRec
}

func (t *e2eTpt) Dial(ctx context.Context, raddr ma.Multiaddr, p peer.ID) (transport.CapableConn, error) {
	if i := t.rec.idx(raddr); i >= 0 {
		t.rec.add([4]int64{3, i, 0, 0})
	} else {
		t.rec.add([4]int64{3, 99, 0, 0})
	}
	return t.Transport.Dial(ctx, raddr, p)
}

func (t *e2eTpt) Close() error {
	if c, ok := t.Transport.(interface{ Close() error }); ok {
		return c.Close()
	}
	return nil
}

// ---- swarms ----------------------------------------------------------------------

type e2eNotifiee struct {
	mu        sync.Mutex
	connected map[peer.ID]int
}

func (n *e2eNotifiee) Listen(network.Network, ma.Multiaddr)      {}
func (n *e2eNotifiee) ListenClose(network.Network, ma.Multiaddr) {}
func (n *e2eNotifiee) Connected(_ network.Network, c network.Conn) {
	n.mu.Lock()
	n.connected[c.RemotePeer()]++
	n.mu.Unlock()
}
func (n *e2eNotifiee) Disconnected(network.Network, network.Conn) {}

func (n *e2eNotifiee) count(p peer.ID) int64 {
	n.mu.Lock()
	defer n.mu.Unlock()
	return int64(n.connected[p])
}

const (
	tptTCP = iota
	tptQUIC
	tptWS
	tptWT
)

func e2eKey(seed byte) crypto.PrivKey {
	s := make([]byte, ed25519.SeedSize)
	for i := range s {
		s[i] = seed + byte(i)*3
	}
	k, err := crypto.UnmarshalEd25519PrivateKey(ed25519.NewKeyFromSeed(s))
	if err != nil {
		panic(err)
	}
	return k
}

func e2eListenAddr(tpt int, v6 bool) ma.Multiaddr {
	ip := "/ip4/127.0.0.1"
	if v6 {
		ip = "/ip6/::1"
	}
	switch tpt {
	case tptTCP:
		return ma.StringCast(ip + "/tcp/0")
	case tptQUIC:
		return ma.StringCast(ip + "/udp/0/quic-v1")
	case tptWS:
		return ma.StringCast(ip + "/tcp/0/ws")
	default:
		return ma.StringCast(ip + "/udp/0/quic-v1/webtransport")
	}
}

// gater == nil: plain swarm; otherwise the gater is given to the swarm, the
// upgrader and the QUIC-family transports, and the transports are wrapped
func e2eSwarm(t *testing.T, priv crypto.PrivKey, tpt int, v6 bool, gater connmgr.ConnectionGater, rec *e2eRec) (*swarm.Swarm, *e2eNotifiee) {
	id, err := peer.IDFromPrivateKey(priv)
	if err != nil {
		t.Fatal(err)
	}
	ps, err := pstoremem.NewPeerstore()
	if err != nil {
		t.Fatal(err)
	}
	ps.AddPrivKey(id, priv)
	ps.AddPubKey(id, priv.GetPublic())
	var opts []swarm.Option
	if gater != nil {
		opts = append(opts, swarm.WithConnectionGater(gater))
	}
	s, err := swarm.NewSwarm(id, ps, eventbus.NewBus(), opts...)
	if err != nil {
		t.Fatal(err)
	}
	st := insecure.NewWithIdentity(insecure.ID, id, priv)
	upg, err := tptu.New([]sec.SecureTransport{st}, []tptu.StreamMuxer{{ID: yamux.ID, Muxer: yamux.DefaultTransport}}, nil, nil, gater)
	if err != nil {
		t.Fatal(err)
	}
	var tr transport.Transport
	switch tpt {
	case tptTCP:
		tr, err = tcp.NewTCPTransport(upg, nil, nil)
	case tptWS:
		tr, err = websocket.New(upg, nil, nil)
	case tptQUIC, tptWT:
		var reuse *quicreuse.ConnManager
		reuse, err = quicreuse.NewConnManager(quic.StatelessResetKey{}, quic.TokenGeneratorKey{})
		if err != nil {
			t.Fatal(err)
		}
		if tpt == tptQUIC {
			tr, err = libp2pquic.NewTransport(priv, reuse, nil, gater, nil)
		} else {
			tr, err = libp2pwebtransport.New(priv, nil, reuse, gater, nil)
		}
	}
	if err != nil {
		t.Fatal(err)
	}
	if rec != nil {
		tr = &e2eTpt{Transport: tr, rec: rec}
	}
	if err := s.AddTransport(tr); err != nil {
		t.Fatal(err)
	}
	if err := s.Listen(e2eListenAddr(tpt, v6)); err != nil {
		t.Fatal(err)
	}
	n := &e2eNotifiee{connected: map[peer.ID]int{}}
	s.Notify(n)
	return s, n
}

// ---- rules --------------------------------------------------------------------------

type e2eCall struct {
	ev   int // 0 call, 4 reopen
	opk  int
	kind int // 0 peer, 1 addr, 2 subnet
	p    int // 1 = R, 2 = somebody else
	ip   net.IP
	n    *net.IPNet
}

func encIP(ip net.IP) []int64 {
	if len(ip) == 4 {
		return []int64{4, 0, 0, 0, int64(binary.BigEndian.Uint32(ip))}
	}
	return []int64{16, int64(binary.BigEndian.Uint32(ip[0:4])), int64(binary.BigEndian.Uint32(ip[4:8])),
		int64(binary.BigEndian.Uint32(ip[8:12])), int64(binary.BigEndian.Uint32(ip[12:16]))}
}

func (c e2eCall) enc() []int64 {
	if c.ev == 4 {
		return []int64{4, 0, 0, 0, 0, 0, 0, 0, 0, 0}
	}
	r := []int64{0, int64(c.opk)}
	switch c.kind {
	case 0:
		return append(r, 0, int64(c.p), 0, 0, 0, 0, 0, 0)
	case 1:
		return append(append(append(r, 1), encIP(c.ip)...), 0, 0)
	}
	ones, _ := c.n.Mask.Size()
	m16 := int64(0)
	if len(c.n.Mask) == 16 {
		m16 = 1
	}
	return append(append(append(r, 2), encIP(c.n.IP)...), m16, int64(ones))
}

func mapped(v4 net.IP) net.IP {
	ip := make(net.IP, 16)
	ip[10], ip[11] = 0xff, 0xff
	copy(ip[12:], v4.To4())
	return ip
}

func cidr(s string) *net.IPNet {
	_, n, err := net.ParseCIDR(s)
	if err != nil {
		panic(err)
	}
	return n
}

type e2eScenario struct {
	name  string
	calls func(v6 bool) []e2eCall
}

func blockAddrForms(v6 bool) []net.IP {
	if v6 {
		return []net.IP{net.ParseIP("::1")}
	}
	v4 := net.IP{127, 0, 0, 1}
	return []net.IP{v4, mapped(v4)}
}

func matchingNets(v6 bool) []*net.IPNet {
	if v6 {
		return []*net.IPNet{cidr("::1/128"), cidr("::/0"), cidr("::/127"), cidr("::/64")}
	}
	v4 := net.IP{127, 0, 0, 0}
	return []*net.IPNet{
		cidr("127.0.0.0/8"), cidr("127.0.0.1/32"), cidr("0.0.0.0/0"), cidr("127.0.0.0/31"),
		{IP: mapped(v4), Mask: net.CIDRMask(96+8, 128)},
		{IP: v4, Mask: net.CIDRMask(96+8, 128)},
		{IP: mapped(v4), Mask: net.CIDRMask(8, 32)},
		cidr("::ffff:127.0.0.1/128"),
	}
}

func otherNets(v6 bool) []*net.IPNet {
	if v6 {
		// an IPv4 catch-all does not contain an IPv6 remote; neighbours of ::1
		return []*net.IPNet{cidr("0.0.0.0/0"), cidr("::2/127"), cidr("::/128"), cidr("2001:db8::/32")}
	}
	// an IPv6 catch-all does not contain an IPv4 remote (nor its mapped form)
	return []*net.IPNet{cidr("::/0"), cidr("127.0.0.2/31"), cidr("126.0.0.0/8"), cidr("128.0.0.0/1"), cidr("127.0.0.0/32")}
}

func e2eScenarios(r *verifh.Rand, v6 bool) []e2eCall {
	forms := blockAddrForms(v6)
	match := matchingNets(v6)
	other := otherNets(v6)
	var calls []e2eCall
	switch r.Intn(12) {
	case 0: // control: nothing blocked
	case 1:
		calls = []e2eCall{{kind: 0, p: 1}}
	case 2:
		calls = []e2eCall{{kind: 1, ip: forms[r.Intn(len(forms))]}}
	case 3, 4:
		calls = []e2eCall{{kind: 2, n: match[r.Intn(len(match))]}}
	case 5: // rules that do not match the remote
		calls = []e2eCall{{kind: 0, p: 2}, {kind: 2, n: other[r.Intn(len(other))]}, {kind: 1, ip: net.IP{127, 0, 0, 2}}}
	case 6: // blocked, then unblocked in another form
		ip := forms[r.Intn(len(forms))]
		ip2 := forms[r.Intn(len(forms))]
		calls = []e2eCall{{kind: 1, ip: ip}, {kind: 1, opk: 1, ip: ip2}}
	case 7:
		calls = []e2eCall{{kind: 0, p: 1}, {kind: 0, opk: 1, p: 1}}
	case 8: // subnet blocked, then unblocked
		n := match[r.Intn(len(match))]
		calls = []e2eCall{{kind: 2, n: n}, {kind: 2, opk: 1, n: n}}
	case 9: // blocked by peer and by address
		calls = []e2eCall{{kind: 0, p: 1}, {kind: 1, ip: forms[r.Intn(len(forms))]}}
	case 10: // an unblocked exact address inside a still blocked subnet
		calls = []e2eCall{{kind: 2, n: match[0]}, {kind: 1, ip: forms[0]}, {kind: 1, opk: 1, ip: forms[0]}}
	default:
		calls = []e2eCall{{kind: 2, n: other[r.Intn(len(other))]}, {kind: 1, ip: forms[r.Intn(len(forms))]}}
	}
	// a restart of the gater on its datastore somewhere
	if len(calls) > 0 && r.Chance(1, 2) {
		k := 1 + r.Intn(len(calls))
		calls = append(calls[:k:k], append([]e2eCall{{ev: 4}}, calls[k:]...)...)
	}
	return calls
}

// ---- one run ----------------------------------------------------------------------------

// dial-context options of G's dial (opt): 0 plain, 1 WithForceDirectDial,
// 2 WithSimultaneousConnect(client), 3 WithAllowLimitedConn, 4 WithNoDial (NewStream)
func e2eDialCtx(ctx context.Context, opt int) context.Context {
	switch opt {
	case 1:
		return network.WithForceDirectDial(ctx, "c10")
	case 2:
		return network.WithSimultaneousConnect(ctx, true, "c10")
	case 3:
		return network.WithAllowLimitedConn(ctx, "c10")
	case 4:
		return network.WithNoDial(ctx, "c10")
	}
	return ctx
}

func e2eApplyCalls(t *testing.T, ds datastore.Datastore, g *e2eGater, real *conngater.BasicConnectionGater, calls []e2eCall, rp, other peer.ID) {
	for _, c := range calls {
		if c.ev == 4 {
			ng, err := conngater.NewBasicConnectionGater(ds)
			if err != nil {
				t.Fatal(err)
			}
			real = ng
			g.mu.Lock()
			g.inner = ng
			g.mu.Unlock()
			continue
		}
		var err error
		switch {
		case c.kind == 0:
			p := rp
			if c.p != 1 {
				p = other
			}
			if c.opk == 0 {
				err = real.BlockPeer(p)
			} else {
				err = real.UnblockPeer(p)
			}
		case c.kind == 1:
			// the caller's slice is overwritten once the call has returned
			ip := append(net.IP{}, c.ip...)
			if c.opk == 0 {
				err = real.BlockAddr(ip)
			} else {
				err = real.UnblockAddr(ip)
			}
			for i := range ip {
				ip[i] = 0xAB
			}
		default:
			n := &net.IPNet{IP: append(net.IP{}, c.n.IP...), Mask: append(net.IPMask{}, c.n.Mask...)}
			if c.opk == 0 {
				err = real.BlockSubnet(n)
			} else {
				err = real.UnblockSubnet(n)
			}
			for i := range n.IP {
				n.IP[i] = 0xAB
			}
			for i := range n.Mask {
				n.Mask[i] = 0xFF
			}
		}
		if err != nil {
			t.Fatalf("c10 e2e: rule call failed: %v", err)
		}
	}
}

func e2eRun(t *testing.T, out *verifh.Out, tpt int, dir int, opt int, v6 bool, withMapped bool, calls []e2eCall, keySeed byte) {
	rec := &e2eRec{}
	ds := e2eNewDS()
	real, err := conngater.NewBasicConnectionGater(ds)
	if err != nil {
		t.Fatal(err)
	}
	g := &e2eGater{inner: real, rec: rec}
	G, gn := e2eSwarm(t, e2eKey(keySeed), tpt, v6, g, rec)
	defer G.Close()
	R, _ := e2eSwarm(t, e2eKey(keySeed+101), tpt, v6, nil, nil)
	defer R.Close()
	rec.remote = R.LocalPeer()
	other, _ := peer.IDFromPrivateKey(e2eKey(keySeed + 53))

	holePunch := opt == 5
	hpDone := make(chan struct{})
	hpCtx, hpCancel := context.WithCancel(context.Background())
	defer hpCancel()
	if holePunch {
		// a server-role QUIC hole punch of G towards R's address is in flight
		// while the rules are written; R then connects inbound from that address
		rec.addrs = R.ListenAddresses()
		G.Peerstore().AddAddrs(R.LocalPeer(), rec.addrs, peerstore.PermanentAddrTTL)
		go func() {
			defer close(hpDone)
			c, err := G.DialPeer(network.WithSimultaneousConnect(hpCtx, false, "c10"), R.LocalPeer())
			if err == nil && c != nil {
				out.Cover("e2e.holepunch.dial-got-the-inbound-conn")
			}
		}()
		for i := 0; i < 200; i++ {
			rec.mu.Lock()
			started := false
			for _, e := range rec.evs {
				started = started || e[0] == 3
			}
			rec.mu.Unlock()
			if started {
				break
			}
			time.Sleep(10 * time.Millisecond)
		}
		time.Sleep(60 * time.Millisecond)
	} else {
		close(hpDone)
	}
	e2eApplyCalls(t, ds, g, real, calls, R.LocalPeer(), other)
	if holePunch {
		rec.mu.Lock()
		rec.evs = nil
		rec.mu.Unlock()
	}

	line := []int64{1, int64(dir), int64(tpt + 16*opt)}
	ctx, cancel := context.WithTimeout(context.Background(), 12*time.Second)
	defer cancel()
	var addrsEnc []int64
	reachable := int64(1)
	loop := net.IP{127, 0, 0, 1}
	if v6 {
		loop = net.ParseIP("::1")
	}
	if dir == 0 {
		raddrs := R.ListenAddresses()
		if len(raddrs) != 1 {
			t.Fatalf("c10 e2e: R listens on %v", raddrs)
		}
		rec.addrs = []ma.Multiaddr{raddrs[0]}
		addrsEnc = append(addrsEnc, 1)
		addrsEnc = append(addrsEnc, encIP(loop)...)
		if withMapped && !v6 && tpt == tptTCP {
			// the IPv4-mapped IPv6 text of the same address
			_, rest := ma.SplitFirst(raddrs[0])
			m := ma.Join(ma.StringCast("/ip6/::ffff:127.0.0.1"), rest)
			rec.addrs = append(rec.addrs, m)
			addrsEnc = append(addrsEnc, 1)
			addrsEnc = append(addrsEnc, encIP(mapped(loop))...)
			reachable = 0
		}
		G.Peerstore().AddAddrs(R.LocalPeer(), rec.addrs, peerstore.PermanentAddrTTL)
		if opt == 4 {
			if st, err := G.NewStream(e2eDialCtx(ctx, opt), R.LocalPeer()); err == nil {
				st.Reset()
			}
		} else {
			_, _ = G.DialPeer(e2eDialCtx(ctx, opt), R.LocalPeer())
		}
	} else {
		addrsEnc = append(addrsEnc, 1)
		addrsEnc = append(addrsEnc, encIP(loop)...)
		R.Peerstore().AddAddrs(G.LocalPeer(), G.ListenAddresses(), peerstore.PermanentAddrTTL)
		_, _ = R.DialPeer(ctx, G.LocalPeer())
	}
	// let G finish whatever it is doing with the connection; keep the maximum
	var gconns int64
	var idxs []int64
	for i := 0; i < 12; i++ {
		cs := G.ConnsToPeer(R.LocalPeer())
		if int64(len(cs)) > gconns {
			gconns = int64(len(cs))
			idxs = idxs[:0]
			for _, c := range cs {
				if dir == 0 {
					idxs = append(idxs, rec.idx(c.RemoteMultiaddr()))
				} else {
					idxs = append(idxs, 0)
				}
			}
		}
		time.Sleep(10 * time.Millisecond)
	}
	gnotifs := gn.count(R.LocalPeer())
	hpCancel()
	<-hpDone

	rec.mu.Lock()
	evs := append([][4]int64{}, rec.evs...)
	seen := append([]ma.Multiaddr{}, rec.seenRemote...)
	unlisted := rec.unlisted
	rec.mu.Unlock()
	if dir == 1 {
		// the source address of R as G saw it must be the loopback address the
		// case tells the model
		for _, a := range seen {
			first, _ := ma.SplitFirst(a)
			if first == nil || !net.IP(first.RawValue()).Equal(loop) {
				t.Errorf("c10 e2e: inbound remote address %s, expected %s", a, loop)
			}
		}
	}
	if unlisted > 0 {
		out.CoverN("e2e.addrdial.unlisted-address", int64(unlisted))
	}

	line = append(line, reachable, int64(len(calls)))
	for _, c := range calls {
		line = append(line, c.enc()...)
	}
	line = append(line, 1)
	if dir == 0 {
		line = append(line, int64(len(rec.addrs)))
	} else {
		line = append(line, 1)
	}
	line = append(line, addrsEnc...)
	line = append(line, int64(len(evs)))
	refused, dialed := false, false
	for _, e := range evs {
		line = append(line, e[0], e[1], e[2], e[3])
		switch e[0] {
		case 1, 2:
			refused = refused || e[2] == 0
		case 4:
			refused = refused || e[1] == 0
		case 6:
			refused = refused || e[3] == 0
		case 3:
			dialed = true
		}
	}
	line = append(line, gconns, gnotifs, int64(len(idxs)))
	line = append(line, idxs...)
	name := fmt.Sprintf("e2e.tpt%d.dir%d", tpt, dir)
	out.Cover(name)
	out.Cover(fmt.Sprintf("e2e.dir%d.ctxopt%d", dir, opt))
	if refused {
		out.Cover(fmt.Sprintf("e2e.dir%d.ctxopt%d.refused-by-gater", dir, opt))
	}
	if refused {
		out.Cover(name + ".refused-by-gater")
	}
	if dialed {
		out.Cover(name + ".transport-dial")
	}
	if gconns > 0 {
		out.Cover(name + ".admitted")
	}
	if v6 {
		out.Cover("e2e.ip6")
	} else {
		out.Cover("e2e.ip4")
	}
	out.Case(line)
}

func TestVerifC10E2E(t *testing.T) {
	out, err := verifh.Open()
	if err != nil {
		t.Fatal(err)
	}
	defer out.Close()
	thorough := verifh.Tier() == "thorough"
	// every address form through the real accept-time / dial-time gating sites
	e2eAcceptForms(t, out)
	e2eCircuitForms(t, out)
	r := verifh.NewRand(verifh.Seed() + 77)
	type job struct {
		tpt, dir, opt int
		v6, mapped    bool
		calls         []e2eCall
		seed          byte
	}
	var jobs []job
	// systematic: every dial-context option against a remote blocked by address
	// and by subnet (and by peer), outbound; a QUIC hole punch in flight while the
	// remote is blocked by peer / address / subnet (and not at all), inbound
	sys := [][]e2eCall{
		{{kind: 1, ip: net.IP{127, 0, 0, 1}}},
		{{kind: 2, n: cidr("127.0.0.0/8")}},
		{{kind: 0, p: 1}},
	}
	sysT := []int{tptTCP}
	if thorough {
		sysT = []int{tptTCP, tptQUIC, tptWS, tptWT}
		sys = append(sys, []e2eCall{{kind: 1, ip: mapped(net.IP{127, 0, 0, 1})}, {ev: 4}}, []e2eCall{})
	}
	k := 0
	for _, tp := range sysT {
		for opt := 0; opt <= 4; opt++ {
			for _, c := range sys {
				k++
				jobs = append(jobs, job{tpt: tp, dir: 0, opt: opt, calls: c, seed: byte(100 + k)})
			}
		}
	}
	hp := [][]e2eCall{{}, {{kind: 0, p: 1}}, {{kind: 1, ip: net.IP{127, 0, 0, 1}}}, {{kind: 2, n: cidr("127.0.0.0/8")}}}
	if thorough {
		hp = append(hp, []e2eCall{{kind: 1, ip: mapped(net.IP{127, 0, 0, 1})}, {ev: 4}}, []e2eCall{{kind: 2, n: cidr("127.0.0.1/32")}},
			[]e2eCall{{kind: 0, p: 1}, {kind: 0, opk: 1, p: 1}}, []e2eCall{{kind: 0, p: 2}, {kind: 2, n: cidr("::/0")}})
	}
	for _, c := range hp {
		k++
		jobs = append(jobs, job{tpt: tptQUIC, dir: 1, opt: 5, calls: c, seed: byte(100 + k)})
	}
	n := 48
	tpts := []int{tptTCP, tptTCP, tptTCP, tptQUIC}
	if thorough {
		n = 600
		tpts = []int{tptTCP, tptQUIC, tptWS, tptWT}
	}
	for i := 0; i < n; i++ {
		v6 := r.Chance(1, 3)
		dir := (i / len(tpts)) % 2
		opt := 0
		if dir == 0 {
			opt = r.Intn(5)
		}
		jobs = append(jobs, job{tpt: tpts[i%len(tpts)], dir: dir, opt: opt, v6: v6, mapped: r.Chance(1, 2),
			calls: e2eScenarios(r, v6), seed: byte(i)})
	}
	sem := make(chan struct{}, 6)
	var wg sync.WaitGroup
	for _, j := range jobs {
		wg.Add(1)
		sem <- struct{}{}
		go func(j job) {
			defer wg.Done()
			defer func() { <-sem }()
			e2eRun(t, out, j.tpt, j.dir, j.opt, j.v6, j.mapped, j.calls, j.seed)
		}(j)
	}
	wg.Wait()
}

// TestVerifC10E2EReplay re-runs one recorded end-to-end case (VERIF_REPLAY_CASE)
// on the implementation and writes the case with what is observed now.
func TestVerifC10E2EReplay(t *testing.T) {
	out, err := verifh.Open()
	if err != nil {
		t.Fatal(err)
	}
	defer out.Close()
	in := verifh.ReplayCase()
	if len(in) < 8 || in[0] != 1 {
		t.Skip("not an end-to-end case")
	}
	dir, tpt, opt := int(in[1]), int(in[2])%16, int(in[2])/16
	nc := int(in[4])
	pos := 5
	decIP := func(f []int64) net.IP {
		if f[0] == 4 {
			ip := make(net.IP, 4)
			binary.BigEndian.PutUint32(ip, uint32(f[4]))
			return ip
		}
		ip := make(net.IP, 16)
		for i := 0; i < 4; i++ {
			binary.BigEndian.PutUint32(ip[4*i:], uint32(f[1+i]))
		}
		return ip
	}
	var calls []e2eCall
	for i := 0; i < nc; i++ {
		f := in[pos : pos+10]
		pos += 10
		if f[0] == 4 {
			calls = append(calls, e2eCall{ev: 4})
			continue
		}
		c := e2eCall{opk: int(f[1]), kind: int(f[2])}
		switch f[2] {
		case 0:
			c.p = int(f[3])
		case 1:
			c.ip = decIP(f[3:8])
		default:
			bits := 32
			if f[8] != 0 {
				bits = 128
			}
			c.n = &net.IPNet{IP: decIP(f[3:8]), Mask: net.CIDRMask(int(f[9]), bits)}
		}
		calls = append(calls, c)
	}
	na := int(in[pos+1])
	first := in[pos+2 : pos+8]
	v6 := first[1] == 16 && !(first[2] == 0 && first[3] == 0 && first[4] == 0xffff)
	e2eRun(t, out, tpt, dir, opt, v6, na > 1, calls, 200)
}

// ---- address forms through the real accept-time and dial-time gating sites --------------

// fake manet listener / conn: what a TCP listener hands to gatedMaListener.Accept
type e2eFakeConn struct {
	net.Conn
	local, remote ma.Multiaddr
	mu            sync.Mutex
	closed        bool
}

func (c *e2eFakeConn) LocalMultiaddr() ma.Multiaddr  { return c.local }
func (c *e2eFakeConn) RemoteMultiaddr() ma.Multiaddr { return c.remote }
func (c *e2eFakeConn) LocalAddr() net.Addr           { return &net.TCPAddr{IP: net.IP{127, 0, 0, 1}, Port: 1} }
func (c *e2eFakeConn) RemoteAddr() net.Addr          { return &net.TCPAddr{IP: net.IP{127, 0, 0, 1}, Port: 2} }
func (c *e2eFakeConn) Close() error {
	c.mu.Lock()
	c.closed = true
	c.mu.Unlock()
	return nil
}

type e2eFakeListener struct {
	conns []manet.Conn
}

func (l *e2eFakeListener) Accept() (manet.Conn, error) {
	if len(l.conns) == 0 {
		return nil, fmt.Errorf("c10: no more connections")
	}
	c := l.conns[0]
	l.conns = l.conns[1:]
	return c, nil
}
func (l *e2eFakeListener) Close() error            { return nil }
func (l *e2eFakeListener) Multiaddr() ma.Multiaddr { return ma.StringCast("/ip4/127.0.0.1/tcp/1") }
func (l *e2eFakeListener) Addr() net.Addr          { return &net.TCPAddr{IP: net.IP{127, 0, 0, 1}, Port: 1} }

type e2eForm struct {
	addr string // multiaddr text, %R = relay peer id
	ip   net.IP // the IP the address carries (nil: none)
}

type e2eFormRule struct {
	name  string
	calls []e2eCall
}

func e2eFormRules(ip net.IP) []e2eFormRule {
	rules := []e2eFormRule{{name: "none"}}
	if ip == nil {
		return append(rules, e2eFormRule{"unrelated", []e2eCall{{kind: 2, n: cidr("10.0.0.0/8")}, {kind: 2, n: cidr("fe80::/10")}}})
	}
	var wide *net.IPNet
	forms := []net.IP{ip}
	if v4 := ip.To4(); v4 != nil {
		wide = &net.IPNet{IP: v4.Mask(net.CIDRMask(8, 32)), Mask: net.CIDRMask(8, 32)}
		forms = []net.IP{append(net.IP{}, v4...), mapped(v4)}
	} else {
		wide = &net.IPNet{IP: ip.Mask(net.CIDRMask(10, 128)), Mask: net.CIDRMask(10, 128)}
	}
	for _, f := range forms {
		rules = append(rules, e2eFormRule{"addr", []e2eCall{{kind: 1, ip: f}}})
	}
	rules = append(rules,
		e2eFormRule{"subnet", []e2eCall{{kind: 2, n: wide}}},
		e2eFormRule{"subnet+restart", []e2eCall{{kind: 2, n: wide}, {ev: 4}}},
		e2eFormRule{"addr-then-unblocked", []e2eCall{{kind: 1, ip: forms[0]}, {kind: 1, opk: 1, ip: forms[len(forms)-1]}}},
		e2eFormRule{"unrelated", []e2eCall{{kind: 2, n: cidr("192.0.2.0/24")}, {kind: 1, ip: net.ParseIP("2001:db8::99")}, {kind: 0, p: 2}}})
	return rules
}

func e2eFormLine(dir, tpt int, calls []e2eCall, ips []net.IP, evs [][4]int64) []int64 {
	line := []int64{1, int64(dir), int64(tpt), 0, int64(len(calls))}
	for _, c := range calls {
		line = append(line, c.enc()...)
	}
	line = append(line, 1, int64(len(ips)))
	for _, ip := range ips {
		if ip == nil {
			line = append(line, 0, 0, 0, 0, 0, 0)
		} else {
			line = append(append(line, 1), encIP(ip)...)
		}
	}
	line = append(line, int64(len(evs)))
	for _, e := range evs {
		line = append(line, e[0], e[1], e[2], e[3])
	}
	return append(line, 0, 0, 0)
}

// inbound: every remote-address form through the real gatedMaListener.Accept
func e2eAcceptForms(t *testing.T, out *verifh.Out) {
	relay, _ := peer.IDFromPrivateKey(e2eKey(77))
	forms := []e2eForm{
		{"/ip4/10.9.8.7/tcp/5555", net.IP{10, 9, 8, 7}},
		{"/ip4/10.9.8.7/tcp/5555/ws", net.IP{10, 9, 8, 7}},
		{"/ip6/::ffff:10.9.8.7/tcp/5555", mapped(net.IP{10, 9, 8, 7})},
		{"/ip6/2001:db8::7/tcp/5555", net.ParseIP("2001:db8::7")},
		{"/ip6/fe80::1234/tcp/5555", net.ParseIP("fe80::1234")},
		{"/ip6zone/eth0/ip6/fe80::1234/tcp/5555", net.ParseIP("fe80::1234")},
		{"/ip6zone/wlan0/ip6/fe80::1234/tcp/5555/ws", net.ParseIP("fe80::1234")},
		{"/ip4/10.9.8.7/tcp/1/p2p/%R/p2p-circuit", net.IP{10, 9, 8, 7}},
		{"/p2p/%R/p2p-circuit", nil},
	}
	priv := e2eKey(78)
	id, _ := peer.IDFromPrivateKey(priv)
	other, _ := peer.IDFromPrivateKey(e2eKey(79))
	for _, f := range forms {
		remote, err := ma.NewMultiaddr(strings.ReplaceAll(f.addr, "%R", relay.String()))
		if err != nil {
			t.Fatalf("c10: %s: %v", f.addr, err)
		}
		for _, ru := range e2eFormRules(f.ip) {
			rec := &e2eRec{remote: other}
			ds := e2eNewDS()
			real, err := conngater.NewBasicConnectionGater(ds)
			if err != nil {
				t.Fatal(err)
			}
			g := &e2eGater{inner: real, rec: rec}
			e2eApplyCalls(t, ds, g, real, ru.calls, other, relay)
			st := insecure.NewWithIdentity(insecure.ID, id, priv)
			upg, err := tptu.New([]sec.SecureTransport{st}, []tptu.StreamMuxer{{ID: yamux.ID, Muxer: yamux.DefaultTransport}}, nil, nil, g)
			if err != nil {
				t.Fatal(err)
			}
			conn := &e2eFakeConn{local: ma.StringCast("/ip4/127.0.0.1/tcp/1"), remote: remote}
			gl := upg.GateMaListener(&e2eFakeListener{conns: []manet.Conn{conn}})
			c, scope, err := gl.Accept()
			evs := append([][4]int64{}, rec.evs...)
			if err == nil && c != nil {
				// handed on to the security handshake
				evs = append(evs, [4]int64{5, 0, 0, 0})
				if scope != nil {
					scope.Done()
				}
				out.Cover("forms.accept.passed-on")
			} else {
				out.Cover("forms.accept.closed-at-accept")
			}
			out.Cover("forms.accept.cases")
			out.Case(e2eFormLine(1, 5, ru.calls, []net.IP{f.ip}, evs))
		}
	}
}

// a relay transport that records nothing itself (the counting wrapper does) and never connects
type e2eFakeCircuit struct{}

func (e2eFakeCircuit) Dial(context.Context, ma.Multiaddr, peer.ID) (transport.CapableConn, error) {
	return nil, fmt.Errorf("c10: fake circuit transport does not connect")
}
func (e2eFakeCircuit) CanDial(a ma.Multiaddr) bool {
	_, err := a.ValueForProtocol(ma.P_CIRCUIT)
	return err == nil
}
func (e2eFakeCircuit) Listen(ma.Multiaddr) (transport.Listener, error) {
	return nil, fmt.Errorf("c10: fake circuit transport does not listen")
}
func (e2eFakeCircuit) Protocols() []int { return []int{ma.P_CIRCUIT} }
func (e2eFakeCircuit) Proxy() bool      { return true }

// outbound: circuit (and plain) address forms through the real swarm dial path
// (dialPeer -> addrsForDial -> filterKnownUndialables -> dial worker -> transport)
func e2eCircuitForms(t *testing.T, out *verifh.Out) {
	relay, _ := peer.IDFromPrivateKey(e2eKey(87))
	other, _ := peer.IDFromPrivateKey(e2eKey(89))
	target, _ := peer.IDFromPrivateKey(e2eKey(90))
	forms := []e2eForm{
		{"/ip4/10.9.8.7/tcp/1/p2p/%R/p2p-circuit", net.IP{10, 9, 8, 7}},
		{"/ip4/10.9.8.7/udp/1/quic-v1/p2p/%R/p2p-circuit", net.IP{10, 9, 8, 7}},
		{"/ip6/::ffff:10.9.8.7/tcp/1/p2p/%R/p2p-circuit", mapped(net.IP{10, 9, 8, 7})},
		{"/ip6/2001:db8::7/tcp/1/p2p/%R/p2p-circuit", net.ParseIP("2001:db8::7")},
	}
	for fi, f := range forms {
		a, err := ma.NewMultiaddr(strings.ReplaceAll(f.addr, "%R", relay.String()))
		if err != nil {
			t.Fatalf("c10: %s: %v", f.addr, err)
		}
		for ri, ru := range e2eFormRules(f.ip) {
			for _, opt := range []int{0, 3} {
				rec := &e2eRec{remote: target, addrs: []ma.Multiaddr{a}}
				ds := e2eNewDS()
				real, err := conngater.NewBasicConnectionGater(ds)
				if err != nil {
					t.Fatal(err)
				}
				g := &e2eGater{inner: real, rec: rec}
				e2eApplyCalls(t, ds, g, real, ru.calls, target, other)
				priv := e2eKey(byte(120 + fi*16 + ri))
				id, _ := peer.IDFromPrivateKey(priv)
				ps, err := pstoremem.NewPeerstore()
				if err != nil {
					t.Fatal(err)
				}
				ps.AddPrivKey(id, priv)
				ps.AddPubKey(id, priv.GetPublic())
				s, err := swarm.NewSwarm(id, ps, eventbus.NewBus(), swarm.WithConnectionGater(g), swarm.WithDialRanker(swarm.NoDelayDialRanker))
				if err != nil {
					t.Fatal(err)
				}
				if err := s.AddTransport(&e2eTpt{Transport: e2eFakeCircuit{}, rec: rec}); err != nil {
					t.Fatal(err)
				}
				s.Peerstore().AddAddrs(target, rec.addrs, peerstore.PermanentAddrTTL)
				ctx, cancel := context.WithTimeout(context.Background(), 3*time.Second)
				_, _ = s.DialPeer(e2eDialCtx(ctx, opt), target)
				cancel()
				rec.mu.Lock()
				evs := append([][4]int64{}, rec.evs...)
				rec.mu.Unlock()
				dialed := false
				for _, e := range evs {
					dialed = dialed || e[0] == 3
				}
				if dialed {
					out.Cover("forms.circuit.transport-dial")
				} else {
					out.Cover("forms.circuit.no-transport-dial")
				}
				out.Cover("forms.circuit.cases")
				out.Case(e2eFormLine(0, 4+16*opt, ru.calls, []net.IP{f.ip}, evs))
				s.Close()
			}
		}
	}
}

// ---- addresses known by name: the real swarm dial path with a scripted resolver ----------
//
// G knows R by IP and by /dns4 | /dns6 | /dns WebSocket addresses.  The swarm's
// multiaddr resolver (the real madns.Resolver behind swarm.ResolverFromMaDNS) is given a
// scripted lookup that fails or answers per name.  The transport is the real WebSocket
// transport (its CanDial / Protocols / Resolve are what the swarm's resolver chain uses)
// with a recording Dial: handed an IP address it opens the connection to that IP; handed a
// name it looks the name up itself in a second table (websocket.maDial does that through
// net.ResolveTCPAddr, i.e. the operating system's resolver) and opens the connection to
// what it finds.  Nothing is actually connected.  Wire format: resolver case in Spec.v.

type resRec struct {
	mu  sync.Mutex
	evs [][]int64
}

func (r *resRec) add(code int64, ip net.IP, allow bool) {
	e := []int64{code, 0, 0, 0, 0, 0, 0, b2i(allow)}
	if ip != nil {
		e[1] = 1
		copy(e[2:7], encIP(ip))
	}
	r.mu.Lock()
	r.evs = append(r.evs, e)
	r.mu.Unlock()
}

type resGater struct {
	inner connmgr.ConnectionGater
	rec   *resRec
}

func (g *resGater) InterceptPeerDial(p peer.ID) bool {
	allow := g.inner.InterceptPeerDial(p)
	g.rec.add(1, nil, allow)
	return allow
}
func (g *resGater) InterceptAddrDial(p peer.ID, a ma.Multiaddr) bool {
	allow := g.inner.InterceptAddrDial(p, a)
	if ip, err := manet.ToIP(a); err == nil {
		g.rec.add(2, ip, allow)
	} else {
		g.rec.add(2, nil, allow)
	}
	return allow
}
func (g *resGater) InterceptAccept(c network.ConnMultiaddrs) bool { return g.inner.InterceptAccept(c) }
func (g *resGater) InterceptSecured(d network.Direction, p peer.ID, c network.ConnMultiaddrs) bool {
	return g.inner.InterceptSecured(d, p, c)
}
func (g *resGater) InterceptUpgraded(c network.Conn) (bool, control.DisconnectReason) {
	return g.inner.InterceptUpgraded(c)
}

var errResRefused = fmt.Errorf("c10: connection refused (recording transport)")

type resTpt struct {
	*websocket.WebsocketTransport
	rec    *resRec
	lookup map[string]net.IP // the transport's own name lookup
}

func (t *resTpt) Dial(_ context.Context, raddr ma.Multiaddr, _ peer.ID) (transport.CapableConn, error) {
	if ip, err := manet.ToIP(raddr); err == nil {
		t.rec.add(3, ip, true)
		t.rec.add(8, ip, true) // DialTCP to that address
		return nil, errResRefused
	}
	t.rec.add(3, nil, true)
	first, _ := ma.SplitFirst(raddr)
	if first != nil {
		switch first.Protocol().Code {
		case ma.P_DNS, ma.P_DNS4, ma.P_DNS6:
			if ip, ok := t.lookup[first.Value()]; ok {
				t.rec.add(8, ip, true)
			}
		}
	}
	return nil, errResRefused
}

type resDNS struct {
	fail map[string]bool
	ans  map[string][]net.IP
}

func (d *resDNS) LookupIPAddr(_ context.Context, name string) ([]net.IPAddr, error) {
	if d.fail[name] {
		return nil, fmt.Errorf("c10: SERVFAIL %s", name)
	}
	var out []net.IPAddr
	for _, ip := range d.ans[name] {
		out = append(out, net.IPAddr{IP: append(net.IP{}, ip...)})
	}
	return out, nil
}
func (d *resDNS) LookupTXT(_ context.Context, name string) ([]string, error) {
	return nil, fmt.Errorf("c10: no TXT records for %s", name)
}

// one address G knows R by
type resAddr struct {
	name bool
	ip   net.IP   // !name: the address
	dnsk int      // name: 0 /dns, 4 /dns4, 6 /dns6
	tls  bool     // /tls/ws instead of /ws
	fail bool     // name: the swarm's lookup fails
	ans  []net.IP // name: what the swarm's lookup answers (already restricted to the family of dnsk)
	tip  net.IP   // name: what the transport's own lookup answers (nil: nothing)
}

func (a resAddr) enc() []int64 {
	if !a.name {
		return append(append([]int64{0}, encIP(a.ip)...), b2i(a.tls))
	}
	r := []int64{1, b2i(!a.fail), 0}
	if !a.fail {
		r[2] = int64(len(a.ans))
		for _, ip := range a.ans {
			r = append(r, encIP(ip)...)
		}
	}
	r = append(r, int64(a.dnsk), b2i(a.tls))
	if a.tip == nil {
		return append(r, 0, 0, 0, 0, 0, 0)
	}
	return append(append(r, 1), encIP(a.tip)...)
}

func resIPComp(ip net.IP) string {
	if len(ip) == 4 {
		return "/ip4/" + ip.String()
	}
	if v4 := ip.To4(); v4 != nil {
		return "/ip6/::ffff:" + v4.String()
	}
	return "/ip6/" + ip.String()
}

func resRun(t *testing.T, out *verifh.Out, form int, calls []e2eCall, addrs []resAddr, keySeed byte) {
	rec := &resRec{}
	ds := e2eNewDS()
	real, err := conngater.NewBasicConnectionGater(ds)
	if err != nil {
		t.Fatal(err)
	}
	// the rule calls go to the real gater (reopened on its datastore where the history says
	// so); the swarm is given the gater that is current after the last call
	dg := &e2eGater{inner: real, rec: &e2eRec{}}
	target, _ := peer.IDFromPrivateKey(e2eKey(keySeed + 101))
	other, _ := peer.IDFromPrivateKey(e2eKey(keySeed + 53))
	e2eApplyCalls(t, ds, dg, real, calls, target, other)
	g := &resGater{inner: dg.cur(), rec: rec}

	dns := &resDNS{fail: map[string]bool{}, ans: map[string][]net.IP{}}
	lookup := map[string]net.IP{}
	var maddrs []ma.Multiaddr
	for i, a := range addrs {
		tail := fmt.Sprintf("/tcp/%d/ws", 4000+i)
		if a.tls {
			tail = fmt.Sprintf("/tcp/%d/tls/ws", 4000+i)
		}
		var s string
		if !a.name {
			s = resIPComp(a.ip) + tail
		} else {
			name := fmt.Sprintf("n%d.c10.example", i)
			dns.fail[name] = a.fail
			dns.ans[name] = a.ans
			if a.tip != nil {
				lookup[name] = a.tip
			}
			s = map[int]string{0: "/dns/", 4: "/dns4/", 6: "/dns6/"}[a.dnsk] + name + tail
		}
		m, err := ma.NewMultiaddr(s)
		if err != nil {
			t.Fatalf("c10 resolver case: %s: %v", s, err)
		}
		maddrs = append(maddrs, m)
	}

	priv := e2eKey(keySeed)
	id, _ := peer.IDFromPrivateKey(priv)
	ps, err := pstoremem.NewPeerstore()
	if err != nil {
		t.Fatal(err)
	}
	ps.AddPrivKey(id, priv)
	ps.AddPubKey(id, priv.GetPublic())
	rslv, err := madns.NewResolver(madns.WithDefaultResolver(dns))
	if err != nil {
		t.Fatal(err)
	}
	s, err := swarm.NewSwarm(id, ps, eventbus.NewBus(), swarm.WithConnectionGater(g),
		swarm.WithDialRanker(swarm.NoDelayDialRanker),
		swarm.WithMultiaddrResolver(swarm.ResolverFromMaDNS{Resolver: rslv}))
	if err != nil {
		t.Fatal(err)
	}
	defer s.Close()
	st := insecure.NewWithIdentity(insecure.ID, id, priv)
	upg, err := tptu.New([]sec.SecureTransport{st}, []tptu.StreamMuxer{{ID: yamux.ID, Muxer: yamux.DefaultTransport}}, nil, nil, g)
	if err != nil {
		t.Fatal(err)
	}
	ws, err := websocket.New(upg, nil, nil)
	if err != nil {
		t.Fatal(err)
	}
	if err := s.AddTransport(&resTpt{WebsocketTransport: ws, rec: rec, lookup: lookup}); err != nil {
		t.Fatal(err)
	}
	s.Peerstore().AddAddrs(target, maddrs, peerstore.PermanentAddrTTL)
	ctx, cancel := context.WithTimeout(context.Background(), 20*time.Second)
	_, _ = s.DialPeer(ctx, target)
	cancel()

	rec.mu.Lock()
	evs := append([][]int64{}, rec.evs...)
	rec.mu.Unlock()
	line := []int64{2, int64(form), int64(len(calls))}
	for _, c := range calls {
		line = append(line, c.enc()...)
	}
	line = append(line, 1, int64(len(addrs)))
	for _, a := range addrs {
		line = append(line, a.enc()...)
	}
	line = append(line, int64(len(evs)))
	named, conn := false, false
	for _, e := range evs {
		line = append(line, e...)
		switch e[0] {
		case 2:
			if e[7] == 0 {
				out.Cover("resolver.addr-refused-by-gater")
			}
		case 3:
			if e[1] == 0 {
				named = true
			}
		case 8:
			conn = true
		}
	}
	out.Cover("resolver.cases")
	if named {
		out.Cover("resolver.name-handed-to-transport")
	}
	if conn {
		out.Cover("resolver.transport-connection-attempt")
	} else {
		out.Cover("resolver.no-transport-connection-attempt")
	}
	for _, a := range addrs {
		switch {
		case !a.name:
			out.Cover("resolver.addr.ip")
		case a.fail:
			out.Cover(fmt.Sprintf("resolver.addr.dns%d.lookup-fails", a.dnsk))
		default:
			out.Cover(fmt.Sprintf("resolver.addr.dns%d.answers%d", a.dnsk, len(a.ans)))
		}
	}
	out.Case(line)
}

var resPool4 = []net.IP{{127, 0, 0, 1}, {127, 0, 0, 2}, {10, 1, 2, 3}, {10, 1, 2, 77}, {192, 0, 2, 9}, {198, 51, 100, 1}}
var resPool6 = []net.IP{net.ParseIP("::1"), net.ParseIP("2001:db8::1"), net.ParseIP("2001:db8::2"), net.ParseIP("2001:db8:1::5")}

func resPick(r *verifh.Rand, dnsk int) net.IP {
	switch {
	case dnsk == 4 || (dnsk == 0 && r.Chance(2, 3)):
		return append(net.IP{}, resPool4[r.Intn(len(resPool4))]...)
	default:
		return append(net.IP{}, resPool6[r.Intn(len(resPool6))]...)
	}
}

// rules aimed at one address: by address (either byte form), by a subnet around it, lifted
// again, restarted, or rules that do not match it
func resRulesFor(r *verifh.Rand, ip net.IP) []e2eCall {
	var wide *net.IPNet
	forms := []net.IP{ip}
	if v4 := ip.To4(); v4 != nil {
		bits := []int{8, 24, 32, 0}[r.Intn(4)]
		wide = &net.IPNet{IP: v4.Mask(net.CIDRMask(bits, 32)), Mask: net.CIDRMask(bits, 32)}
		forms = []net.IP{append(net.IP{}, v4...), mapped(v4)}
	} else {
		bits := []int{32, 64, 128, 0}[r.Intn(4)]
		wide = &net.IPNet{IP: ip.Mask(net.CIDRMask(bits, 128)), Mask: net.CIDRMask(bits, 128)}
	}
	f := forms[r.Intn(len(forms))]
	var calls []e2eCall
	switch r.Intn(8) {
	case 0, 1, 2:
		calls = []e2eCall{{kind: 1, ip: f}}
	case 3, 4:
		calls = []e2eCall{{kind: 2, n: wide}}
	case 5:
		calls = []e2eCall{{kind: 1, ip: f}, {kind: 1, opk: 1, ip: forms[r.Intn(len(forms))]}}
	case 6:
		calls = []e2eCall{{kind: 2, n: wide}, {kind: 0, p: 2}}
	default:
		calls = []e2eCall{{kind: 2, n: cidr("203.0.113.0/24")}, {kind: 1, ip: net.ParseIP("2001:db8:ffff::1")}}
	}
	if r.Chance(1, 8) {
		calls = append(calls, e2eCall{kind: 0, p: 1})
	}
	if len(calls) > 0 && r.Chance(1, 3) {
		k := 1 + r.Intn(len(calls))
		calls = append(calls[:k:k], append([]e2eCall{{ev: 4}}, calls[k:]...)...)
	}
	return calls
}

func resRandAddr(r *verifh.Rand) resAddr {
	if r.Chance(1, 4) {
		return resAddr{ip: resPick(r, 0), tls: r.Chance(1, 3)}
	}
	a := resAddr{name: true, dnsk: []int{4, 4, 6, 0}[r.Intn(4)], tls: r.Chance(1, 3)}
	a.tip = resPick(r, a.dnsk)
	if r.Chance(2, 5) {
		a.fail = true
		return a
	}
	n := r.Intn(4)
	for i := 0; i < n; i++ {
		a.ans = append(a.ans, resPick(r, a.dnsk))
	}
	if n > 0 && r.Chance(2, 3) {
		// the transport's own lookup usually agrees with the swarm's
		a.tip = append(net.IP{}, a.ans[0]...)
	}
	return a
}

func TestVerifC10Res(t *testing.T) {
	out, err := verifh.Open()
	if err != nil {
		t.Fatal(err)
	}
	defer out.Close()
	r := verifh.NewRand(verifh.Seed() + 1414)
	n := 160
	if verifh.Tier() == "thorough" {
		n = 2400
	}
	seed := byte(0)
	// directed: exactly one address; the rules are aimed at the IP behind it
	for _, dnsk := range []int{4, 6, 0} {
		for _, tls := range []bool{false, true} {
			for _, fail := range []bool{false, true} {
				for k := 0; k < 3; k++ {
					ip := resPick(r, dnsk)
					a := resAddr{name: true, dnsk: dnsk, tls: tls, fail: fail, tip: ip}
					if !fail {
						a.ans = []net.IP{ip}
						if k == 2 {
							a.ans = append(a.ans, resPick(r, dnsk))
						}
					}
					seed++
					resRun(t, out, 1, resRulesFor(r, ip), []resAddr{a}, seed)
				}
			}
		}
	}
	// random: several addresses, rules aimed at one of the IPs involved
	for i := 0; i < n; i++ {
		na := 1 + r.Intn(4)
		var addrs []resAddr
		var ips []net.IP
		for j := 0; j < na; j++ {
			a := resRandAddr(r)
			addrs = append(addrs, a)
			if !a.name {
				ips = append(ips, a.ip)
			} else {
				ips = append(ips, a.ans...)
				if a.tip != nil {
					ips = append(ips, a.tip)
				}
			}
		}
		calls := resRulesFor(r, ips[r.Intn(len(ips))])
		if r.Chance(1, 3) {
			calls = append(calls, resRulesFor(r, ips[r.Intn(len(ips))])...)
		}
		seed++
		resRun(t, out, 2, calls, addrs, seed)
	}
}

// TestVerifC10ResReplay re-runs one recorded resolver case (VERIF_REPLAY_CASE)
func TestVerifC10ResReplay(t *testing.T) {
	out, err := verifh.Open()
	if err != nil {
		t.Fatal(err)
	}
	defer out.Close()
	in := verifh.ReplayCase()
	if len(in) < 6 || in[0] != 2 {
		t.Skip("not a resolver case")
	}
	decIP := func(f []int64) net.IP {
		if f[0] == 4 {
			ip := make(net.IP, 4)
			binary.BigEndian.PutUint32(ip, uint32(f[4]))
			return ip
		}
		ip := make(net.IP, 16)
		for i := 0; i < 4; i++ {
			binary.BigEndian.PutUint32(ip[4*i:], uint32(f[1+i]))
		}
		return ip
	}
	form, nc := int(in[1]), int(in[2])
	pos := 3
	var calls []e2eCall
	for i := 0; i < nc; i++ {
		f := in[pos : pos+10]
		pos += 10
		if f[0] == 4 {
			calls = append(calls, e2eCall{ev: 4})
			continue
		}
		c := e2eCall{opk: int(f[1]), kind: int(f[2])}
		switch f[2] {
		case 0:
			c.p = int(f[3])
		case 1:
			c.ip = decIP(f[3:8])
		default:
			bits := 32
			if f[8] != 0 {
				bits = 128
			}
			c.n = &net.IPNet{IP: decIP(f[3:8]), Mask: net.CIDRMask(int(f[9]), bits)}
		}
		calls = append(calls, c)
	}
	pos++ // peer
	nk := int(in[pos])
	pos++
	var addrs []resAddr
	for i := 0; i < nk; i++ {
		if in[pos] == 0 {
			addrs = append(addrs, resAddr{ip: decIP(in[pos+1 : pos+6]), tls: in[pos+6] != 0})
			pos += 7
			continue
		}
		a := resAddr{name: true, fail: in[pos+1] == 0}
		n := int(in[pos+2])
		pos += 3
		for j := 0; j < n; j++ {
			a.ans = append(a.ans, decIP(in[pos:pos+5]))
			pos += 5
		}
		a.dnsk, a.tls = int(in[pos]), in[pos+1] != 0
		if in[pos+2] != 0 {
			a.tip = decIP(in[pos+3 : pos+8])
		}
		pos += 8
		addrs = append(addrs, a)
	}
	resRun(t, out, form, calls, addrs, 200)
}

//go:build verif

package conngater

// C10 correspondence harness, gater level (injected with `go test -overlay`;
// not part of /repo).  Drives the real BasicConnectionGater over a datastore
// that fails / stops the process at a chosen write, reopens new gaters on the
// same underlying datastore, and records after every call the rule lists and
// the answers of the Intercept* callbacks for multiaddrs of every form.
// Wire format: /verif/coq/c10/Spec.v.

import (
	"context"
	"encoding/binary"
	"errors"
	"fmt"
	"net"
	"sort"
	"testing"

	"github.com/ipfs/go-datastore"
	dsq "github.com/ipfs/go-datastore/query"
	dssync "github.com/ipfs/go-datastore/sync"
	"github.com/libp2p/go-libp2p/core/network"
	"github.com/libp2p/go-libp2p/core/peer"
	"github.com/libp2p/go-libp2p/internal/verifh"
	ma "github.com/multiformats/go-multiaddr"
	manet "github.com/multiformats/go-multiaddr/net"
	mh "github.com/multiformats/go-multihash"
)

// ---- fault-injecting datastore ---------------------------------------------

type c10Stop struct{} // panic value: "the process stops here"

var errC10Write = errors.New("c10: injected datastore write failure")

type c10DS struct {
	inner       datastore.Datastore
	writes      int
	failAt      int // the write with this number returns an error and writes nothing
	stopAfterAt int // the write with this number is performed, then the process stops
	stopBeforeAt int // the process stops when this write is attempted
}

func (d *c10DS) disarm() { d.failAt, d.stopAfterAt, d.stopBeforeAt = -1, -1, -1 }

func (d *c10DS) write(f func() error) error {
	d.writes++
	switch d.writes {
	case d.failAt:
		return errC10Write
	case d.stopBeforeAt:
		panic(c10Stop{})
	case d.stopAfterAt:
		if err := f(); err != nil {
			return err
		}
		panic(c10Stop{})
	}
	return f()
}

func (d *c10DS) Put(ctx context.Context, k datastore.Key, v []byte) error {
	// a persistent datastore serialises the value; MapDatastore would keep the
	// caller's slice, which the harness overwrites after the call (see do)
	v = append([]byte{}, v...)
	return d.write(func() error { return d.inner.Put(ctx, k, v) })
}
func (d *c10DS) Delete(ctx context.Context, k datastore.Key) error {
	return d.write(func() error { return d.inner.Delete(ctx, k) })
}
func (d *c10DS) Get(ctx context.Context, k datastore.Key) ([]byte, error) { return d.inner.Get(ctx, k) }
func (d *c10DS) Has(ctx context.Context, k datastore.Key) (bool, error)   { return d.inner.Has(ctx, k) }
func (d *c10DS) GetSize(ctx context.Context, k datastore.Key) (int, error) {
	return d.inner.GetSize(ctx, k)
}
func (d *c10DS) Query(ctx context.Context, q dsq.Query) (dsq.Results, error) {
	return d.inner.Query(ctx, q)
}
func (d *c10DS) Sync(ctx context.Context, k datastore.Key) error { return d.inner.Sync(ctx, k) }
func (d *c10DS) Close() error                                     { return nil }

// ---- universe ---------------------------------------------------------------

func c10Peer(i int) peer.ID {
	// identity-multihash peer IDs as produced for ed25519 keys (36-byte protobuf)
	b := make([]byte, 36)
	b[0], b[1], b[2], b[3] = 0x08, 0x01, 0x12, 0x20
	for j := 4; j < 36; j++ {
		b[j] = byte(i*37 + j*11)
	}
	h, _ := mh.Sum(b, mh.IDENTITY, -1)
	return peer.ID(h)
}

const c10NPeers = 4

type c10CMA struct{ l, r ma.Multiaddr }

func (c *c10CMA) LocalMultiaddr() ma.Multiaddr  { return c.l }
func (c *c10CMA) RemoteMultiaddr() ma.Multiaddr { return c.r }

func c10EncIP(ip net.IP) []int64 {
	switch len(ip) {
	case 4:
		return []int64{4, 0, 0, 0, int64(binary.BigEndian.Uint32(ip))}
	case 16:
		return []int64{16, int64(binary.BigEndian.Uint32(ip[0:4])), int64(binary.BigEndian.Uint32(ip[4:8])),
			int64(binary.BigEndian.Uint32(ip[8:12])), int64(binary.BigEndian.Uint32(ip[12:16]))}
	}
	return []int64{0, 0, 0, 0, 0}
}

func c10DecIP(t []int64) net.IP {
	if t[0] == 4 {
		ip := make(net.IP, 4)
		binary.BigEndian.PutUint32(ip, uint32(t[4]))
		return ip
	}
	ip := make(net.IP, 16)
	for i := 0; i < 4; i++ {
		binary.BigEndian.PutUint32(ip[4*i:], uint32(t[1+i]))
	}
	return ip
}

func c10EncNet(n *net.IPNet) []int64 {
	ones, bits := n.Mask.Size()
	m16 := int64(0)
	if len(n.Mask) == 16 {
		m16 = 1
	}
	if bits == 0 {
		ones = -1
	}
	return append(c10EncIP(n.IP), m16, int64(ones))
}

// multiaddr templates: %s is replaced by the textual IP.  fam: 4 needs an
// /ip4 address, 6 an /ip6 one (also used for the IPv4-mapped form), 0 has no
// IP component at all.
type c10Tmpl struct {
	fam int
	f   string
}

var c10Relay = c10Peer(99)

var c10Tmpls = []c10Tmpl{
	{4, "/ip4/%s/tcp/4001"},
	{4, "/ip4/%s/udp/4001/quic-v1"},
	{4, "/ip4/%s/tcp/8080/ws"},
	{4, "/ip4/%s/tcp/443/tls/ws"},
	{4, "/ip4/%s/udp/4001/quic-v1/webtransport"},
	{4, "/ip4/%s/udp/4001/webrtc-direct"},
	{4, "/ip4/%s/tcp/4001/p2p/" + c10Relay.String() + "/p2p-circuit"},
	{6, "/ip6/%s/tcp/4001"},
	{6, "/ip6/%s/udp/4001/quic-v1"},
	{6, "/ip6/%s/tcp/8080/ws"},
	{6, "/ip6/%s/udp/4001/quic-v1/webtransport"},
	{6, "/ip6/%s/udp/4001/webrtc-direct"},
	{6, "/ip6zone/eth0/ip6/%s/tcp/4001"},
	{6, "/ip6/%s/tcp/4001/p2p/" + c10Relay.String() + "/p2p-circuit"},
	{0, "/dns4/example.com/tcp/443/tls/ws"},
	{0, "/dns6/example.com/udp/4001/quic-v1"},
	{0, "/dns/example.com/tcp/4001"},
	{0, "/dnsaddr/bootstrap.example.com"},
	{0, "/unix/tmp/c10.sock"},
	{0, "/p2p/" + c10Relay.String() + "/p2p-circuit"},
}

// the textual form a multiaddr needs for an IP value in a given byte form
func c10Text(ip net.IP) (fam int, s string) {
	if len(ip) == 4 {
		return 4, ip.String()
	}
	if v4 := ip.To4(); v4 != nil {
		return 6, "::ffff:" + v4.String()
	}
	return 6, ip.String()
}

type c10Probe struct {
	kind int // 1 peer dial, 2 addr dial, 3 accept, 4 secured inbound, 5 secured outbound
	p    int
	ip   net.IP // nil: no IP component
	tpt  int
	addr ma.Multiaddr
}

func (p c10Probe) enc() []int64 {
	switch p.kind {
	case 1, 4, 5:
		return []int64{int64(p.kind), int64(p.p), 0, 0, 0, 0, 0, 0}
	}
	if p.ip == nil {
		return []int64{int64(p.kind), 0, 0, 0, 0, 0, 0, int64(p.tpt)}
	}
	r := []int64{int64(p.kind), 1}
	r = append(r, c10EncIP(p.ip)...)
	return append(r, int64(p.tpt))
}

func c10MkAddrProbe(out *verifh.Out, t *testing.T, kind int, ip net.IP, tpt int) c10Probe {
	tm := c10Tmpls[tpt]
	var a ma.Multiaddr
	var err error
	if tm.fam == 0 {
		a, err = ma.NewMultiaddr(tm.f)
		ip = nil
	} else {
		_, txt := c10Text(ip)
		a, err = ma.NewMultiaddr(fmt.Sprintf(tm.f, txt))
	}
	if err != nil {
		t.Fatalf("c10: template %d with %v: %v", tpt, ip, err)
	}
	// the harness tells the model which IP the multiaddr carries by
	// construction; cross-check with what manet.ToIP extracts
	got, gerr := manet.ToIP(a)
	if ip == nil {
		if gerr == nil {
			t.Errorf("c10: ToIP(%s) = %v, expected no IP", a, got)
		}
	} else if gerr != nil || len(got) != len(ip) || !got.Equal(ip) {
		t.Errorf("c10: ToIP(%s) = %v (%d bytes) %v, expected %v (%d bytes)", a, got, len(got), gerr, ip, len(ip))
	}
	return c10Probe{kind: kind, ip: ip, tpt: tpt, addr: a}
}

// pick a template index usable for the given IP form
func c10PickTmpl(r *verifh.Rand, ip net.IP) int {
	fam, _ := c10Text(ip)
	for {
		i := r.Intn(len(c10Tmpls))
		if c10Tmpls[i].fam == fam {
			return i
		}
	}
}

func c10V4(a, b, c, d byte) net.IP { return net.IP{a, b, c, d} }

func c10Mapped(v4 net.IP) net.IP {
	ip := make(net.IP, 16)
	ip[10], ip[11] = 0xff, 0xff
	copy(ip[12:], v4.To4())
	return ip
}

func c10RandForm(r *verifh.Rand, ip net.IP) net.IP {
	if v4 := ip.To4(); v4 != nil {
		if r.Bool() {
			return append(net.IP{}, v4...)
		}
		return c10Mapped(v4)
	}
	return ip
}

var c10PoolV4 = []net.IP{
	c10V4(1, 2, 3, 4), c10V4(1, 2, 3, 5), c10V4(1, 2, 3, 0), c10V4(1, 2, 3, 255), c10V4(1, 2, 4, 0), c10V4(1, 2, 2, 255),
	c10V4(10, 0, 0, 1), c10V4(127, 0, 0, 1), c10V4(0, 0, 0, 0), c10V4(255, 255, 255, 255), c10V4(192, 168, 1, 77),
	c10V4(128, 0, 0, 0), c10V4(127, 255, 255, 255),
}

var c10PoolV6 = []net.IP{
	net.ParseIP("::1"), net.ParseIP("::"), net.ParseIP("2001:db8::1"), net.ParseIP("2001:db8::"),
	net.ParseIP("2001:db8:0:0:ffff:ffff:ffff:ffff"), net.ParseIP("2001:db8:0:1::"), net.ParseIP("2001:db7:ffff:ffff:ffff:ffff:ffff:ffff"),
	net.ParseIP("fe80::1"), net.ParseIP("ffff:ffff:ffff:ffff:ffff:ffff:ffff:ffff"),
	// look like IPv4-mapped addresses but are not (bytes 0..9 not all zero / bytes 10,11 not ff ff)
	net.ParseIP("::1:ffff:102:304"), net.ParseIP("::fffe:102:304"), net.ParseIP("0:0:0:0:0:0:102:304"),
	net.ParseIP("8000::"), net.ParseIP("7fff:ffff:ffff:ffff:ffff:ffff:ffff:ffff"),
}

func c10RandIP(r *verifh.Rand) net.IP {
	switch r.Intn(10) {
	case 0, 1, 2, 3:
		return c10RandForm(r, c10PoolV4[r.Intn(len(c10PoolV4))])
	case 4, 5, 6:
		return c10PoolV6[r.Intn(len(c10PoolV6))]
	case 7:
		return c10RandForm(r, c10V4(byte(r.Intn(256)), byte(r.Intn(256)), byte(r.Intn(256)), byte(r.Intn(256))))
	default:
		ip := make(net.IP, 16)
		for i := range ip {
			ip[i] = byte(r.Intn(256))
		}
		if r.Chance(1, 2) { // keep it near the documentation prefix so subnets of the pool can match
			copy(ip, net.ParseIP("2001:db8::")[:6+r.Intn(6)])
		}
		return ip
	}
}

// a subnet over the given base address: canonical (host bits cleared, as
// ParseCIDR returns it) unless keepHost; the four representations Go allows
// for an IPv4 network are all produced
func c10MkNet(r *verifh.Rand, base net.IP, ones int, keepHost bool) *net.IPNet {
	if v4 := base.To4(); v4 != nil {
		m4 := net.CIDRMask(ones, 32)
		ip4 := append(net.IP{}, v4...)
		if !keepHost {
			ip4 = ip4.Mask(m4)
		}
		switch r.Intn(4) {
		case 0:
			return &net.IPNet{IP: ip4, Mask: m4}
		case 1:
			return &net.IPNet{IP: c10Mapped(ip4), Mask: net.CIDRMask(96+ones, 128)}
		case 2:
			return &net.IPNet{IP: ip4, Mask: net.CIDRMask(96+ones, 128)}
		default:
			return &net.IPNet{IP: c10Mapped(ip4), Mask: m4}
		}
	}
	m := net.CIDRMask(ones, 128)
	ip := append(net.IP{}, base...)
	if !keepHost {
		ip = ip.Mask(m)
	}
	return &net.IPNet{IP: ip, Mask: m}
}

var c10LensV4 = []int{0, 1, 8, 24, 31, 32, 16, 25}
var c10LensV6 = []int{0, 1, 32, 64, 127, 128, 96, 80, 48, 104}

func c10RandNet(r *verifh.Rand, keepHost bool) *net.IPNet {
	base := c10RandIP(r)
	if base.To4() != nil {
		ones := c10LensV4[r.Intn(len(c10LensV4))]
		if r.Chance(1, 5) {
			ones = r.Intn(33)
		}
		return c10MkNet(r, base, ones, keepHost)
	}
	ones := c10LensV6[r.Intn(len(c10LensV6))]
	if r.Chance(1, 5) {
		ones = r.Intn(129)
	}
	return c10MkNet(r, base, ones, keepHost)
}

// first / last address of a subnet and the addresses just outside it
func c10Edges(n *net.IPNet) []net.IP {
	ip := n.IP
	mask := n.Mask
	if v4 := ip.To4(); v4 != nil {
		ip = v4
		if len(mask) == 16 {
			mask = mask[12:]
		}
	}
	if len(ip) != len(mask) {
		return nil
	}
	first := make(net.IP, len(ip))
	last := make(net.IP, len(ip))
	for i := range ip {
		first[i] = ip[i] & mask[i]
		last[i] = ip[i] | ^mask[i]
	}
	dec := func(x net.IP) net.IP {
		y := append(net.IP{}, x...)
		for i := len(y) - 1; i >= 0; i-- {
			y[i]--
			if y[i] != 0xff {
				break
			}
		}
		return y
	}
	inc := func(x net.IP) net.IP {
		y := append(net.IP{}, x...)
		for i := len(y) - 1; i >= 0; i-- {
			y[i]++
			if y[i] != 0 {
				break
			}
		}
		return y
	}
	return []net.IP{first, last, dec(first), inc(last)}
}

// ---- one case ----------------------------------------------------------------

type c10Rule struct {
	kind int // 0 peer, 1 addr, 2 subnet
	p    int
	ip   net.IP
	n    *net.IPNet
}

func (ru c10Rule) enc() []int64 {
	switch ru.kind {
	case 0:
		return []int64{0, int64(ru.p), 0, 0, 0, 0, 0, 0}
	case 1:
		return append(append([]int64{1}, c10EncIP(ru.ip)...), 0, 0)
	}
	return append([]int64{2}, c10EncNet(ru.n)...)
}

type c10Call struct {
	ev  int // 0 normal, 1 write fails, 2 stop after write, 3 stop before write, 4 reopen
	opk int // 0 block, 1 unblock
	r   c10Rule
}

type c10Sys struct {
	ds  *c10DS
	cg  *BasicConnectionGater
	t   *testing.T
	out *verifh.Out
}

func c10NewSys(t *testing.T, out *verifh.Out) *c10Sys {
	ds := &c10DS{inner: dssync.MutexWrap(datastore.NewMapDatastore())}
	ds.disarm()
	s := &c10Sys{ds: ds, t: t, out: out}
	s.reopen()
	return s
}

func (s *c10Sys) reopen() {
	cg, err := NewBasicConnectionGater(s.ds)
	if err != nil {
		s.t.Fatalf("c10: reopening the gater failed: %v", err)
	}
	s.cg = cg
}

// do performs one call; result 0 nil, 1 error, 2 the process stopped
func (s *c10Sys) do(c c10Call) (res int64) {
	if c.ev == 4 {
		s.reopen()
		return 0
	}
	s.ds.disarm()
	next := s.ds.writes + 1
	switch c.ev {
	case 1:
		s.ds.failAt = next
	case 2:
		s.ds.stopAfterAt = next
	case 3:
		s.ds.stopBeforeAt = next
	}
	func() {
		defer func() {
			if x := recover(); x != nil {
				if _, ok := x.(c10Stop); !ok {
					panic(x)
				}
				res = 2
			}
		}()
		// the caller's objects: every call gets its own net.IP / *net.IPNet whose
		// bytes are overwritten as soon as the call has returned (or the process
		// stopped) — what a caller does that fills one IPNet variable in a loop.
		// The rules must be what was passed at call time.
		var ip net.IP
		var n *net.IPNet
		if c.r.kind == 1 {
			ip = append(net.IP{}, c.r.ip...)
		}
		if c.r.kind == 2 {
			n = &net.IPNet{IP: append(net.IP{}, c.r.n.IP...), Mask: append(net.IPMask{}, c.r.n.Mask...)}
		}
		defer func() {
			for i := range ip {
				ip[i] = 0xAB
			}
			if n != nil {
				for i := range n.IP {
					n.IP[i] = 0xAB
				}
				for i := range n.Mask {
					n.Mask[i] = 0xFF
				}
			}
		}()
		var err error
		switch {
		case c.r.kind == 0 && c.opk == 0:
			err = s.cg.BlockPeer(c10Peer(c.r.p))
		case c.r.kind == 0:
			err = s.cg.UnblockPeer(c10Peer(c.r.p))
		case c.r.kind == 1 && c.opk == 0:
			err = s.cg.BlockAddr(ip)
		case c.r.kind == 1:
			err = s.cg.UnblockAddr(ip)
		case c.opk == 0:
			err = s.cg.BlockSubnet(n)
		default:
			err = s.cg.UnblockSubnet(n)
		}
		if err != nil {
			res = 1
		}
	}()
	s.ds.disarm()
	if res == 2 {
		// the process is gone: the old gater object is abandoned, a new one
		// is opened on the same underlying datastore
		s.reopen()
	}
	return res
}

func c10SortRows(rows [][]int64) {
	sort.Slice(rows, func(i, j int) bool {
		for k := range rows[i] {
			if rows[i][k] != rows[j][k] {
				return rows[i][k] < rows[j][k]
			}
		}
		return false
	})
}

// observe records the view of the running gater followed by the view of a
// gater opened right now on the same datastore (the running one is kept): what
// a restart at this moment would enforce.  The property's persistence sentence
// makes the two agree after every call, whether it returned nil or an error.
func (s *c10Sys) observe(probes []c10Probe) []int64 {
	line := s.view(s.cg, probes, "")
	re, err := NewBasicConnectionGater(s.ds)
	if err != nil {
		s.t.Fatalf("c10: opening a second gater on the datastore failed: %v", err)
	}
	rline := s.view(re, probes, "reopened.")
	if len(line) == len(rline) {
		same := true
		for i := range line {
			same = same && line[i] == rline[i]
		}
		if same {
			s.out.Cover("gater.reopened-view.same-as-running")
		} else {
			s.out.Cover("gater.reopened-view.differs-from-running")
		}
	}
	return append(line, rline...)
}

func (s *c10Sys) view(cg *BasicConnectionGater, probes []c10Probe, tag string) []int64 {
	var line []int64
	for _, p := range probes {
		var allow bool
		switch p.kind {
		case 1:
			allow = cg.InterceptPeerDial(c10Peer(p.p))
		case 2:
			allow = cg.InterceptAddrDial(c10Peer(0), p.addr)
		case 3:
			allow = cg.InterceptAccept(&c10CMA{l: ma.StringCast("/ip4/127.0.0.1/tcp/1"), r: p.addr})
		case 4:
			allow = cg.InterceptSecured(network.DirInbound, c10Peer(p.p), &c10CMA{})
		case 5:
			allow = cg.InterceptSecured(network.DirOutbound, c10Peer(p.p), &c10CMA{})
		}
		if allow {
			line = append(line, 1)
			s.out.Cover(fmt.Sprintf("%sprobe.kind%d.allowed", tag, p.kind))
		} else {
			line = append(line, 0)
			s.out.Cover(fmt.Sprintf("%sprobe.kind%d.refused", tag, p.kind))
		}
	}
	// ListBlockedPeers
	var ps []int64
	for _, id := range cg.ListBlockedPeers() {
		idx := int64(-1)
		for i := 0; i < c10NPeers; i++ {
			if c10Peer(i) == id {
				idx = int64(i)
			}
		}
		ps = append(ps, idx)
	}
	sort.Slice(ps, func(i, j int) bool { return ps[i] < ps[j] })
	line = append(line, int64(len(ps)))
	line = append(line, ps...)
	// ListBlockedAddrs
	var rows [][]int64
	for _, ip := range cg.ListBlockedAddrs() {
		rows = append(rows, c10EncIP(ip))
	}
	c10SortRows(rows)
	line = append(line, int64(len(rows)))
	for _, r := range rows {
		line = append(line, r...)
	}
	// ListBlockedSubnets
	rows = nil
	for _, n := range cg.ListBlockedSubnets() {
		rows = append(rows, c10EncNet(n))
	}
	c10SortRows(rows)
	line = append(line, int64(len(rows)))
	for _, r := range rows {
		line = append(line, r...)
	}
	return line
}

func c10RunCase(t *testing.T, out *verifh.Out, probes []c10Probe, calls []c10Call) {
	s := c10NewSys(t, out)
	line := []int64{0, int64(len(probes))}
	for _, p := range probes {
		line = append(line, p.enc()...)
	}
	line = append(line, int64(len(calls)))
	for _, c := range calls {
		res := s.do(c)
		if c.ev == 4 {
			line = append(line, 4, 0, 0, 0, 0, 0, 0, 0, 0, 0)
		} else {
			line = append(line, int64(c.ev), int64(c.opk))
			line = append(line, c.r.enc()...)
		}
		line = append(line, res)
		line = append(line, s.observe(probes)...)
		out.Cover(fmt.Sprintf("gater.call.ev%d.res%d", c.ev, res))
		if c.ev == 1 {
			out.Cover(fmt.Sprintf("gater.write-fails.kind%d.opk%d", c.r.kind, c.opk))
		}
	}
	out.Cover("gater.cases")
	out.Case(line)
}

// universe of one case: a few rules the history keeps touching (so that
// block/unblock/re-block in different textual forms meet), and probes aimed
// at them
type c10Universe struct {
	keepHost bool
	ips    []net.IP
	nets   []*net.IPNet
	probes []c10Probe
}

func c10MkUniverse(t *testing.T, out *verifh.Out, r *verifh.Rand, keepHost bool) *c10Universe {
	u := &c10Universe{keepHost: keepHost}
	nip := 2 + r.Intn(3)
	for i := 0; i < nip; i++ {
		u.ips = append(u.ips, c10RandIP(r))
	}
	nnet := 2 + r.Intn(3)
	for i := 0; i < nnet; i++ {
		var n *net.IPNet
		if i == 0 && r.Chance(2, 3) {
			// a subnet around one of the blocked addresses
			base := u.ips[r.Intn(len(u.ips))]
			if base.To4() != nil {
				n = c10MkNet(r, base, c10LensV4[r.Intn(len(c10LensV4))], keepHost)
			} else {
				n = c10MkNet(r, base, c10LensV6[r.Intn(len(c10LensV6))], keepHost)
			}
		} else {
			n = c10RandNet(r, keepHost)
		}
		u.nets = append(u.nets, n)
	}
	for p := 0; p < c10NPeers; p++ {
		u.probes = append(u.probes, c10Probe{kind: 1, p: p}, c10Probe{kind: 4, p: p})
	}
	u.probes = append(u.probes, c10Probe{kind: 5, p: r.Intn(c10NPeers)})
	var cand []net.IP
	cand = append(cand, u.ips...)
	for _, n := range u.nets {
		cand = append(cand, c10Edges(n)...)
	}
	for i := 0; i < 3; i++ {
		cand = append(cand, c10RandIP(r))
	}
	for _, ip := range cand {
		// every candidate in each textual form it has
		forms := []net.IP{ip}
		if v4 := ip.To4(); v4 != nil {
			forms = []net.IP{append(net.IP{}, v4...), c10Mapped(v4)}
		}
		for _, f := range forms {
			kind := 2 + r.Intn(2)
			u.probes = append(u.probes, c10MkAddrProbe(out, t, kind, f, c10PickTmpl(r, f)))
			out.Cover(fmt.Sprintf("probe.form.%s", c10FormName(f)))
		}
	}
	// one address through every template of its family, both callbacks
	sweep := u.ips[0]
	if v4 := sweep.To4(); v4 != nil && r.Bool() {
		sweep = c10Mapped(v4)
	}
	fam, _ := c10Text(sweep)
	for i, tm := range c10Tmpls {
		if tm.fam == fam {
			u.probes = append(u.probes, c10MkAddrProbe(out, t, 2+i%2, sweep, i))
		}
	}
	// addresses without an IP component
	for i, tm := range c10Tmpls {
		if tm.fam == 0 && r.Chance(1, 2) {
			u.probes = append(u.probes, c10MkAddrProbe(out, t, 2+r.Intn(2), nil, i))
			out.Cover("probe.form.no-ip")
		}
	}
	return u
}

func c10FormName(ip net.IP) string {
	if len(ip) == 4 {
		return "ip4"
	}
	if ip.To4() != nil {
		return "ip4-mapped-ip6"
	}
	return "ip6"
}

func (u *c10Universe) randRule(r *verifh.Rand) c10Rule {
	switch r.Intn(10) {
	case 0, 1, 2:
		return c10Rule{kind: 0, p: r.Intn(c10NPeers)}
	case 3, 4, 5:
		ip := u.ips[r.Intn(len(u.ips))]
		return c10Rule{kind: 1, ip: c10RandForm(r, ip)}
	default:
		n := u.nets[r.Intn(len(u.nets))]
		// the same subnet in another of its representations
		if v4 := n.IP.To4(); v4 != nil && r.Chance(1, 2) {
			ones, _ := n.Mask.Size()
			if len(n.Mask) == 16 {
				ones -= 96
			}
			if ones >= 0 {
				n = c10MkNet(r, v4, ones, true) // keep whatever host bits n has
			}
		}
		if u.keepHost {
			// the same subnet written with other host bits: as given, as
			// ListBlockedSubnets reports it after a restart (host bits
			// cleared), or with fresh host bits
			ip, mask := n.IP, n.Mask
			switch r.Intn(3) {
			case 0:
				if m := ip.Mask(mask); m != nil {
					n = &net.IPNet{IP: m, Mask: mask}
				}
			case 1:
				ip2 := append(net.IP{}, ip...)
				for i := range ip2 {
					j := i
					if len(ip2) == 16 && len(mask) == 4 {
						j = i - 12
					}
					if len(ip2) == 4 && len(mask) == 16 {
						j = i + 12
					}
					if j >= 0 && j < len(mask) {
						ip2[i] = (ip[i] & mask[j]) | (byte(r.Intn(256)) &^ mask[j])
					}
				}
				n = &net.IPNet{IP: ip2, Mask: mask}
			}
		}
		return c10Rule{kind: 2, n: n}
	}
}

func (u *c10Universe) randHistory(r *verifh.Rand, n int) []c10Call {
	var calls []c10Call
	for i := 0; i < n; i++ {
		c := c10Call{opk: 0, r: u.randRule(r)}
		if r.Chance(2, 5) {
			c.opk = 1
		}
		calls = append(calls, c)
	}
	return calls
}

func c10Corpus(t *testing.T, out *verifh.Out) {
	host := &net.IPNet{IP: c10V4(10, 1, 2, 3), Mask: net.CIDRMask(24, 32)}
	canon := &net.IPNet{IP: c10V4(10, 1, 2, 0), Mask: net.CIDRMask(24, 32)}
	hostM := &net.IPNet{IP: c10Mapped(c10V4(10, 1, 2, 77)), Mask: net.CIDRMask(120, 128)}
	host6 := &net.IPNet{IP: net.ParseIP("2001:db8::1:2:3"), Mask: net.CIDRMask(64, 128)}
	canon6 := &net.IPNet{IP: net.ParseIP("2001:db8::"), Mask: net.CIDRMask(64, 128)}
	var probes []c10Probe
	for p := 0; p < c10NPeers; p++ {
		probes = append(probes, c10Probe{kind: 1, p: p})
	}
	ips := append(c10Edges(canon), c10V4(10, 1, 2, 9), c10V4(10, 1, 2, 3))
	ips = append(ips, c10Edges(canon6)...)
	ips = append(ips, net.ParseIP("2001:db8::1:2:3"))
	for i, ip := range ips {
		forms := []net.IP{ip}
		if v4 := ip.To4(); v4 != nil {
			forms = []net.IP{append(net.IP{}, v4...), c10Mapped(v4)}
		}
		for _, f := range forms {
			fam, _ := c10Text(f)
			tpt := 0
			if fam == 6 {
				tpt = 7
			}
			probes = append(probes, c10MkAddrProbe(out, t, 2+i%2, f, tpt))
		}
	}
	blk := func(n *net.IPNet) c10Call { return c10Call{opk: 0, r: c10Rule{kind: 2, n: n}} }
	unb := func(n *net.IPNet) c10Call { return c10Call{opk: 1, r: c10Rule{kind: 2, n: n}} }
	re := c10Call{ev: 4}
	crash := func(c c10Call) c10Call { c.ev = 2; return c }
	for _, h := range [][]c10Call{
		{blk(host), unb(canon)},
		{blk(host), re, unb(canon)},
		{blk(host), re, unb(canon), re},
		{blk(host), unb(hostM)},
		{blk(hostM), re, unb(host), re},
		{blk(canon), unb(host)},
		{crash(blk(host)), unb(canon), re},
		{blk(host), crash(unb(canon))},
		{blk(host), blk(canon), blk(hostM), unb(canon), re},
		{blk(host6), unb(canon6)},
		{blk(host6), re, unb(canon6), re},
		{blk(canon6), re, unb(host6)},
	} {
		out.Cover("gater.cases.corpus-fixed-subnet-key")
		c10RunCase(t, out, probes, h)
	}
}

func TestVerifC10(t *testing.T) {
	out, err := verifh.Open()
	if err != nil {
		t.Fatal(err)
	}
	defer out.Close()
	thorough := verifh.Tier() == "thorough"
	r := verifh.NewRand(verifh.Seed())

	nbase := 60
	nrand := 600
	if thorough {
		nbase, nrand = 600, 8000
	}
	// (0) corpus: the history of the repaired defect (subnet rules used to be
	// keyed by the non-canonical text of ipnet.String()): block 10.1.2.3/24,
	// unblock 10.1.2.0/24 — plain, with a restart in between (the form
	// ListBlockedSubnets reports after a restart), with process stops, and in
	// the mapped / 16-byte-mask representations.  Must pass now.
	c10Corpus(t, out)

	// (1) systematic fault injection: a base history of normal calls, and for
	// every position k and every fault kind the same history with the fault
	// at call k (the remaining calls run on the reopened gater)
	for b := 0; b < nbase; b++ {
		u := c10MkUniverse(t, out, r, false)
		h := u.randHistory(r, 4+r.Intn(6))
		c10RunCase(t, out, u.probes, h)
		for k := range h {
			for _, ev := range []int{1, 2, 3} {
				h2 := append([]c10Call{}, h...)
				h2[k].ev = ev
				if r.Chance(1, 3) {
					// a clean restart at the very end as well
					h2 = append(h2, c10Call{ev: 4})
				}
				c10RunCase(t, out, u.probes, h2)
			}
		}
	}
	// (2) random histories mixing all event kinds
	for i := 0; i < nrand; i++ {
		u := c10MkUniverse(t, out, r, false)
		h := u.randHistory(r, 6+r.Intn(20))
		for k := range h {
			switch x := r.Intn(20); {
			case x < 2:
				h[k].ev = 1
			case x < 5:
				h[k].ev = 2
			case x < 6:
				h[k].ev = 3
			case x < 8:
				h[k] = c10Call{ev: 4}
			}
		}
		c10RunCase(t, out, u.probes, h)
	}
	// (3) subnets given with host bits set (IPNet{IP: peerIP, Mask: CIDRMask(24, 32)}): their
	// String() is not the canonical CIDR text; the same subnet must be the same rule
	for i := 0; i < nrand/4; i++ {
		u := c10MkUniverse(t, out, r, true)
		h := u.randHistory(r, 4+r.Intn(10))
		for k := range h {
			switch x := r.Intn(20); {
			case x < 2:
				h[k].ev = 2
			case x < 5:
				h[k] = c10Call{ev: 4}
			}
		}
		out.Cover("gater.cases.noncanonical-subnets")
		c10RunCase(t, out, u.probes, h)
	}
}

func TestVerifNothing(t *testing.T) {}

// TestVerifC10Replay re-executes the calls of one recorded gater-level case
// (VERIF_REPLAY_CASE) on the implementation and writes the case with the
// observations it gets now.
func TestVerifC10Replay(t *testing.T) {
	out, err := verifh.Open()
	if err != nil {
		t.Fatal(err)
	}
	defer out.Close()
	in := verifh.ReplayCase()
	if len(in) < 3 || in[0] != 0 {
		t.Skip("not a gater-level case")
	}
	np := int(in[1])
	pos := 2
	var probes []c10Probe
	for i := 0; i < np; i++ {
		f := in[pos : pos+8]
		pos += 8
		switch f[0] {
		case 1, 4, 5:
			probes = append(probes, c10Probe{kind: int(f[0]), p: int(f[1])})
		default:
			var ip net.IP
			if f[1] != 0 {
				ip = c10DecIP(f[2:7])
			}
			probes = append(probes, c10MkAddrProbe(out, t, int(f[0]), ip, int(f[7])))
		}
	}
	nev := int(in[pos])
	pos++
	var calls []c10Call
	for i := 0; i < nev; i++ {
		f := in[pos : pos+11]
		c := c10Call{ev: int(f[0]), opk: int(f[1])}
		switch f[2] {
		case 0:
			c.r = c10Rule{kind: 0, p: int(f[3])}
		case 1:
			c.r = c10Rule{kind: 1, ip: c10DecIP(f[3:8])}
		default:
			bits := 32
			if f[8] != 0 {
				bits = 128
			}
			c.r = c10Rule{kind: 2, n: &net.IPNet{IP: c10DecIP(f[3:8]), Mask: net.CIDRMask(int(f[9]), bits)}}
		}
		calls = append(calls, c)
		pos += 11
		for v := 0; v < 2; v++ { // skip the two views (running, reopened)
			pos += np
			for _, w := range []int{1, 5, 7} { // the three lists
				cnt := int(in[pos])
				pos += 1 + cnt*w
			}
		}
	}
	c10RunCase(t, out, probes, calls)
}

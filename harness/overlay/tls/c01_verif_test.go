//go:build verif

// C01 correspondence harness, TLS part (injected with `go test -overlay`; not
// part of /repo).  (a) the VerifyPeerCertificate callback of ConfigForPeer and
// PubKeyFromCertChain on certificate chains built with every mutation of the
// libp2p extension; (b) real tls.Transport pairs whose certificates were
// replaced by such chains, over an in-memory network with a record-aware man
// in the middle.  One case per line in the wire format of /verif/coq/c01/Spec.v.
package libp2ptls

import (
	"bytes"
	"context"
	"crypto/ecdsa"
	"crypto/elliptic"
	"crypto/rand"
	"crypto/tls"
	"crypto/x509"
	"crypto/x509/pkix"
	"encoding/asn1"
	"encoding/binary"
	"errors"
	"io"
	"net"
	"strings"
	"sync"
	"testing"
	"time"

	ic "github.com/libp2p/go-libp2p/core/crypto"
	"github.com/libp2p/go-libp2p/core/peer"
	"github.com/libp2p/go-libp2p/core/sec"
	w01 "github.com/libp2p/go-libp2p/internal/verifc01"
	"github.com/libp2p/go-libp2p/internal/verifh"
)

// identity keys [key type][name-1] (1 A, 2 B, 3 E) and certificate key pairs 1..5
var t01Keys [4][3]ic.PrivKey
var t01IDs [4][3]peer.ID
var t01CertKeys [6]*ecdsa.PrivateKey

func t01GenKeys(t *testing.T, types []int) {
	kt := []int{ic.Ed25519, ic.ECDSA, ic.Secp256k1, ic.RSA}
	for _, ti := range types {
		for n := 0; n < 3; n++ {
			if t01Keys[ti][n] != nil {
				continue
			}
			bits := 0
			if kt[ti] == ic.RSA {
				bits = 2048
			}
			sk, _, err := ic.GenerateKeyPair(kt[ti], bits)
			if err != nil {
				t.Fatal(err)
			}
			t01Keys[ti][n] = sk
			t01IDs[ti][n], _ = peer.IDFromPrivateKey(sk)
		}
	}
	for i := 1; i < len(t01CertKeys); i++ {
		if t01CertKeys[i] == nil {
			t01CertKeys[i], _ = ecdsa.GenerateKey(elliptic.P256(), rand.Reader)
		}
	}
}

func t01Name(kt int, id peer.ID) int64 {
	if id == "" {
		return 0
	}
	for n := 0; n < 3; n++ {
		if t01IDs[kt][n] == id {
			return int64(n + 1)
		}
	}
	return 9
}

// symbolic certificates (Spec.v: CHAIN)
type t01Ext struct{ kind, crit, vk, pub, ssigner, sprefix, sover int }
type t01Cert struct {
	key, signer, intact, timeok int
	exts                        []t01Ext
}

func t01ChainInts(ch []t01Cert) []int64 {
	r := []int64{int64(len(ch))}
	for _, c := range ch {
		r = append(r, int64(c.key), int64(c.signer), int64(c.intact), int64(c.timeok), int64(len(c.exts)))
		for _, e := range c.exts {
			r = append(r, int64(e.kind), int64(e.crit), int64(e.vk), int64(e.pub), int64(e.ssigner), int64(e.sprefix), int64(e.sover))
		}
	}
	return r
}

func t01ExtValue(kt int, e t01Ext) []byte {
	if e.vk == 0 {
		return []byte{0xff, 0x01, 0x02, 0x03}
	}
	var pub, sig []byte
	switch e.pub {
	case 1, 2, 3:
		pub, _ = ic.MarshalPublicKey(t01Keys[kt][e.pub-1].GetPublic())
	case 4:
		pub = []byte{0xff, 0xff, 0xff, 0xff, 0x0f, 0x01, 0x02, 0x03}
	}
	switch e.ssigner {
	case 1, 2, 3:
		pkix, _ := x509.MarshalPKIXPublicKey(t01CertKeys[e.sover].Public())
		msg := pkix
		if e.sprefix != 0 {
			msg = append([]byte(certificatePrefix), pkix...)
		}
		sig, _ = t01Keys[kt][e.ssigner-1].Sign(msg)
	case 4:
		sig = make([]byte, 64)
		rand.Read(sig)
	}
	v, _ := asn1.Marshal(signedKey{PubKey: pub, Signature: sig})
	return v
}

// DER of the certificate described by c (identity keys of type kt)
func t01BuildCert(kt int, c t01Cert) ([]byte, error) {
	tmpl, err := certTemplate()
	if err != nil {
		return nil, err
	}
	if c.timeok == 0 {
		tmpl.NotBefore = time.Now().Add(-48 * time.Hour)
		tmpl.NotAfter = time.Now().Add(-24 * time.Hour)
	}
	for _, e := range c.exts {
		if e.kind == 1 {
			tmpl.ExtraExtensions = append(tmpl.ExtraExtensions, pkix.Extension{Id: extensionID, Critical: e.crit != 0, Value: t01ExtValue(kt, e)})
		} else {
			tmpl.ExtraExtensions = append(tmpl.ExtraExtensions, pkix.Extension{
				Id: asn1.ObjectIdentifier{1, 3, 6, 1, 4, 1, 53594, 9, e.kind}, Critical: e.crit != 0, Value: []byte{0x05, 0x00}})
		}
	}
	der, err := x509.CreateCertificate(rand.Reader, tmpl, tmpl, t01CertKeys[c.key].Public(), t01CertKeys[c.signer])
	if err != nil {
		return nil, err
	}
	if c.intact == 0 {
		// change one digit of the subject's serial number string (it occurs as issuer and as
		// subject; the second occurrence is the subject): the signed bytes are no longer the ones signed
		sn := []byte(tmpl.Subject.SerialNumber)
		i := bytes.LastIndex(der, sn)
		if i < 0 {
			return nil, errors.New("subject serial number not found in DER")
		}
		p := i + len(sn) - 1
		if der[p] == '9' {
			der[p] = '0'
		} else {
			der[p]++
		}
	}
	return der, nil
}

const (
	tcPeerID = 1 + iota
	tcSig
	tcKey
	tcASN1
	tcCertVerify
	tcNoExt
	tcChainLen
	tcParse
)

func t01Classify(err error) int64 {
	if err == nil {
		return 0
	}
	var mm sec.ErrPeerIDMismatch
	if errors.As(err, &mm) {
		return tcPeerID
	}
	s := err.Error()
	switch {
	case strings.Contains(s, "signature invalid"), strings.Contains(s, "signature verification failed"):
		return tcSig
	case strings.Contains(s, "unmarshalling public key failed"):
		return tcKey
	case strings.Contains(s, "unmarshalling signed certificate failed"):
		return tcASN1
	case strings.Contains(s, "certificate verification failed"):
		return tcCertVerify
	case strings.Contains(s, "expected certificate to contain the key extension"):
		return tcNoExt
	case strings.Contains(s, "expected one certificates in the chain"):
		return tcChainLen
	case strings.HasPrefix(s, "x509:"), strings.HasPrefix(s, "asn1:"):
		return tcParse
	}
	return 99
}

// ---- certificate chains: every mutation of the libp2p extension ---------------------------------
type t01Pres struct {
	name  string
	chain []t01Cert
	holds int // the endpoint has the private key of the leaf certificate's key
}

func t01Good(id, key int) t01Ext { return t01Ext{1, 0, 1, id, id, 1, key} }

// what an endpoint holding identity key `own` (and certificate keys 1, 3) can present;
// v is another identity, whose honest certificate (certificate key 2) it has seen
func t01Presentations(own, v int) []t01Pres {
	cert := func(exts ...t01Ext) t01Cert { return t01Cert{key: 1, signer: 1, intact: 1, timeok: 1, exts: exts} }
	g := t01Good(own, 1)
	other := func(crit int) t01Ext { return t01Ext{kind: 7, crit: crit} }
	victims := t01Cert{key: 2, signer: 2, intact: 1, timeok: 1, exts: []t01Ext{t01Good(v, 2)}}
	r := []t01Pres{
		{"honest", []t01Cert{cert(g)}, 1},
		{"pubkey=victim", []t01Cert{cert(t01Ext{1, 0, 1, v, own, 1, 1})}, 1},
		{"pubkey=junk", []t01Cert{cert(t01Ext{1, 0, 1, 4, own, 1, 1})}, 1},
		{"pubkey=empty", []t01Cert{cert(t01Ext{1, 0, 1, 5, own, 1, 1})}, 1},
		{"sig-by-other-key", []t01Cert{cert(t01Ext{1, 0, 1, own, v, 1, 1})}, 1},
		{"sig-without-prefix", []t01Cert{cert(t01Ext{1, 0, 1, own, own, 0, 1})}, 1},
		{"sig-over-other-cert-key", []t01Cert{cert(t01Ext{1, 0, 1, own, own, 1, 3})}, 1},
		{"sig=junk", []t01Cert{cert(t01Ext{1, 0, 1, own, 4, 1, 1})}, 1},
		{"sig=empty", []t01Cert{cert(t01Ext{1, 0, 1, own, 5, 1, 1})}, 1},
		{"victims-extension-in-own-cert", []t01Cert{cert(t01Good(v, 2))}, 1},
		{"victims-extension-unprefixed", []t01Cert{cert(t01Ext{1, 0, 1, v, v, 0, 2})}, 1},
		{"stolen-certificate", []t01Cert{victims}, 0},
		{"extension-absent", []t01Cert{cert()}, 1},
		{"only-other-extension", []t01Cert{cert(other(0))}, 1},
		{"extension-twice", []t01Cert{cert(g, g)}, 1},
		{"forged-then-genuine", []t01Cert{cert(t01Ext{1, 0, 1, v, own, 1, 1}, g)}, 1},
		{"genuine-then-forged", []t01Cert{cert(g, t01Ext{1, 0, 1, v, own, 1, 1})}, 1},
		{"chain-empty", nil, 1},
		{"chain-two-genuine", []t01Cert{cert(g), {key: 3, signer: 3, intact: 1, timeok: 1, exts: []t01Ext{t01Good(own, 3)}}}, 1},
		{"chain-genuine+bare", []t01Cert{cert(g), {key: 3, signer: 3, intact: 1, timeok: 1}}, 1},
		{"chain-bare+genuine", []t01Cert{{key: 3, signer: 3, intact: 1, timeok: 1}, cert(g)}, 1},
		{"chain-victims+own", []t01Cert{victims, cert(g)}, 0},
		// corpus of the repaired defect (8beaf91): the certificate's self-signature was never verified
		{"signed-by-other-cert-key", []t01Cert{{key: 1, signer: 3, intact: 1, timeok: 1, exts: []t01Ext{g}}}, 1},
		{"altered-after-signing", []t01Cert{{key: 1, signer: 1, intact: 0, timeok: 1, exts: []t01Ext{g}}}, 1},
		{"expired", []t01Cert{{key: 1, signer: 1, intact: 1, timeok: 0, exts: []t01Ext{g}}}, 1},
		{"other-critical-extension", []t01Cert{cert(g, other(1))}, 1},
		{"other-extension-first", []t01Cert{cert(other(0), g)}, 1},
		{"libp2p-extension-critical", []t01Cert{cert(t01Ext{1, 1, 1, own, own, 1, 1})}, 1},
		{"extension-not-asn1", []t01Cert{cert(t01Ext{kind: 1, vk: 0})}, 1},
	}
	return r
}

func t01Raw(kt int, chain []t01Cert) ([][]byte, error) {
	var raw [][]byte
	for _, c := range chain {
		der, err := t01BuildCert(kt, c)
		if err != nil {
			return nil, err
		}
		raw = append(raw, der)
	}
	return raw, nil
}

// tag 2: the callback of ConfigForPeer(exp) on the raw chain, and PubKeyFromCertChain directly
func t01VerifyCase(kt, exp int, chain []t01Cert) ([]int64, error) {
	raw, err := t01Raw(kt, chain)
	if err != nil {
		return nil, err
	}
	ident, err := NewIdentity(t01Keys[kt][0])
	if err != nil {
		return nil, err
	}
	var expID peer.ID
	if exp != 0 {
		expID = t01IDs[kt][exp-1]
	}
	conf, keyCh := ident.ConfigForPeer(expID)
	verr := conf.VerifyPeerCertificate(raw, nil)
	cls, kid := t01Classify(verr), int64(0)
	if verr == nil {
		select {
		case k := <-keyCh:
			if k != nil {
				if id, e2 := peer.IDFromPublicKey(k); e2 == nil {
					kid = t01Name(kt, id)
				}
			}
		default:
			kid = 9
		}
	}
	dcls, dkid := int64(0), int64(0)
	parsed := make([]*x509.Certificate, 0, len(raw))
	for _, der := range raw {
		c, perr := x509.ParseCertificate(der)
		if perr != nil {
			dcls = tcParse
			break
		}
		parsed = append(parsed, c)
	}
	if dcls == 0 {
		k, derr := PubKeyFromCertChain(parsed)
		dcls = t01Classify(derr)
		if derr == nil {
			if id, e2 := peer.IDFromPublicKey(k); e2 == nil {
				dkid = t01Name(kt, id)
			}
		}
	}
	line := []int64{2, int64(kt), int64(exp)}
	line = append(line, t01ChainInts(chain)...)
	return append(line, cls, kid, dcls, dkid), nil
}

// ---- concurrent verifications ------------------------------------------------------------------------
// Several goroutines keep verifying the genuine certificate of victim A (certificate key 2)
// while others keep verifying forged chains: the attacker's own certificate (key 1) carrying
// A's extension verbatim, and the attacker's certificate with its own extension but naming A.
// Every forged chain must be rejected in every interleaving; an acceptance is written out as
// a tag 2 case with the chain (the monitor then reports that the chain does not certify the key).
func t01Concurrent(t *testing.T, out *verifh.Out, kt int, thorough bool) {
	genuine := []t01Cert{{key: 2, signer: 2, intact: 1, timeok: 1, exts: []t01Ext{t01Good(1, 2)}}}
	forged := [][]t01Cert{
		{{key: 1, signer: 1, intact: 1, timeok: 1, exts: []t01Ext{t01Good(1, 2)}}},           // A's extension in E's certificate
		{{key: 1, signer: 1, intact: 1, timeok: 1, exts: []t01Ext{{1, 0, 1, 1, 3, 1, 1}}}},   // claims A, signed by E
		{{key: 3, signer: 3, intact: 1, timeok: 1, exts: []t01Ext{t01Good(1, 2)}}},           // the same with another certificate key
	}
	total := 20000
	if thorough {
		total = 400000
	}
	if kt == 3 {
		total /= 4 // RSA verification is slow
	}
	parse := func(ch []t01Cert) []*x509.Certificate {
		raw, err := t01Raw(kt, ch)
		if err != nil {
			t.Fatal(err)
		}
		var r []*x509.Certificate
		for _, der := range raw {
			c, err := x509.ParseCertificate(der)
			if err != nil {
				t.Fatal(err)
			}
			r = append(r, c)
		}
		return r
	}
	const nGenuine, nForged = 4, 4
	per := total / (nGenuine + nForged)
	var wg sync.WaitGroup
	var mu sync.Mutex
	accepted := map[int]int64{} // forged chain index -> key name it was accepted for
	var genuineRejected int64
	stop := make(chan struct{})
	var once sync.Once
	for g := 0; g < nGenuine; g++ {
		wg.Add(1)
		go func() {
			defer wg.Done()
			chain := parse(genuine)
			for i := 0; i < per; i++ {
				select {
				case <-stop:
					return
				default:
				}
				if _, err := PubKeyFromCertChain(chain); err != nil {
					mu.Lock()
					genuineRejected++
					mu.Unlock()
				}
			}
		}()
	}
	for g := 0; g < nForged; g++ {
		wg.Add(1)
		go func(g int) {
			defer wg.Done()
			fi := g % len(forged)
			chain := parse(forged[fi])
			for i := 0; i < per; i++ {
				select {
				case <-stop:
					return
				default:
				}
				if k, err := PubKeyFromCertChain(chain); err == nil {
					kid := int64(9)
					if id, e2 := peer.IDFromPublicKey(k); e2 == nil {
						kid = t01Name(kt, id)
					}
					mu.Lock()
					accepted[fi] = kid
					mu.Unlock()
					once.Do(func() { close(stop) })
					return
				}
			}
		}(g)
	}
	wg.Wait()
	out.CoverN("tls_concurrent_verifications", int64(total))
	for fi, ch := range forged {
		line := []int64{2, int64(kt), 0}
		line = append(line, t01ChainInts(ch)...)
		if kid, ok := accepted[fi]; ok {
			// PubKeyFromCertChain accepted it while something else was being verified (the callback
			// slot carries the sequential verdict)
			cls := t01Classify(func() error { _, err := PubKeyFromCertChain(parse(ch)); return err }())
			line = append(line, cls, 0, 0, kid)
			out.Cover("tls_concurrent_forged_chain_accepted")
		} else {
			cls := t01Classify(func() error { _, err := PubKeyFromCertChain(parse(ch)); return err }())
			line = append(line, cls, 0, cls, 0)
			out.Cover("tls_concurrent_forged_chain_always_rejected")
		}
		out.Case(line)
	}
	if genuineRejected > 0 {
		// the genuine certificate refused because of a neighbour: not a property violation (nobody
		// completes), but the model says accepted, so conformance reports it
		line := []int64{2, int64(kt), 0}
		line = append(line, t01ChainInts(genuine)...)
		out.Case(append(line, tcSig, 0, tcSig, 0))
		out.Cover("tls_concurrent_genuine_chain_rejected")
	}
}

// ---- handshakes ------------------------------------------------------------------------------------
type t01Side struct {
	id, exp, holds int
	chain          []t01Cert
}

type t01Edit struct {
	op       int // 0 none 1 flip 2 truncate 3 extend 4 drop 5 duplicate 6 splice
	dir, rec int // direction 0 client->server, handshake record index (ChangeCipherSpec not counted)
	pos      int // flip: 0 = content type, 3, 4 = length, >= 5 payload
	mask     byte
	k        int
	last     bool // duplicate: this is the last handshake record of the direction
}

type t01Case struct {
	kt [2]int
	sd [2]t01Side // 0 client, 1 server
	e  t01Edit
}

type t01Sym struct{ ek, dir, rec, pos int64 }

type t01Splice struct {
	slot [2][]byte
	have [2]bool
}

func t01ReadRecord(src io.Reader) ([]byte, error) {
	var h [5]byte
	if _, err := io.ReadFull(src, h[:]); err != nil {
		return nil, err
	}
	n := int(binary.BigEndian.Uint16(h[3:]))
	f := make([]byte, 5+n)
	copy(f, h[:])
	if _, err := io.ReadFull(src, f[5:]); err != nil {
		return nil, err
	}
	return f, nil
}

func t01Reframe(f []byte, payload []byte) []byte {
	g := make([]byte, 5+len(payload))
	copy(g, f[:3])
	binary.BigEndian.PutUint16(g[3:], uint16(len(payload)))
	copy(g[5:], payload)
	return g
}

// forwards TLS records src -> dst in direction dir; counts[dir] and lens receive what was seen
func t01Proxy(w *w01.World, src, dst *w01.Conn, dir int, e t01Edit, sym *t01Sym, sp *t01Splice, sess int, lens *[2][]int) {
	defer w.Done()
	rec := -1
	for {
		f, err := t01ReadRecord(src)
		if err != nil {
			dst.CloseWrite()
			return
		}
		out := [][]byte{f}
		if f[0] != 20 { // not ChangeCipherSpec
			rec++
			if lens != nil {
				lens[dir] = append(lens[dir], len(f))
			}
			if e.op != 0 && e.dir == dir && e.rec == rec {
				body := f[5:]
				switch e.op {
				case 1:
					g := append([]byte{}, f...)
					pos := e.pos
					if pos >= len(g) {
						pos = len(g) - 1
					}
					g[pos] ^= e.mask
					out = [][]byte{g}
					*sym = t01Sym{1, int64(dir), int64(rec), int64(pos)}
					if pos == 3 || pos == 4 {
						if int(binary.BigEndian.Uint16(g[3:])) > len(body) {
							sym.ek = 5
						} else {
							sym.ek = 2
						}
					}
				case 2:
					k := e.k
					if k > len(body) {
						k = len(body)
					}
					out = [][]byte{t01Reframe(f, body[:len(body)-k])}
					*sym = t01Sym{2, int64(dir), int64(rec), int64(k)}
				case 3:
					extra := make([]byte, e.k)
					rand.Read(extra)
					out = [][]byte{t01Reframe(f, append(append([]byte{}, body...), extra...))}
					*sym = t01Sym{3, int64(dir), int64(rec), int64(e.k)}
				case 4:
					out = nil
					*sym = t01Sym{4, int64(dir), int64(rec), 0}
				case 5:
					out = [][]byte{f, f}
					*sym = t01Sym{6, int64(dir), int64(rec), 0}
					if e.last {
						sym.ek = 8
					}
				case 6:
					w.Locked(func() { sp.slot[sess], sp.have[sess] = f, true })
					if !w.WaitFor(func() bool { return sp.have[1-sess] }) {
						dst.CloseWrite()
						return
					}
					out = [][]byte{sp.slot[1-sess]}
				}
			}
		}
		for _, o := range out {
			if _, err := dst.Write(o); err != nil {
				src.Close()
				return
			}
		}
	}
}

type t01Obs struct{ cls, rid, rkid, post int64 }

func t01Endpoint(c *t01Case, role int, conn net.Conn, post bool) (t01Obs, error) {
	sd := c.sd[role]
	kt, okt := c.kt[role], c.kt[1-role]
	tpt, err := New(ID, t01Keys[kt][sd.id-1], nil)
	if err != nil {
		return t01Obs{}, err
	}
	raw, err := t01Raw(kt, sd.chain)
	if err != nil {
		return t01Obs{}, err
	}
	if len(raw) == 0 {
		tpt.identity.config.Certificates = nil
	} else {
		pk := t01CertKeys[4]
		if sd.holds != 0 {
			pk = t01CertKeys[sd.chain[0].key]
		}
		tpt.identity.config.Certificates = []tls.Certificate{{Certificate: raw, PrivateKey: pk}}
	}
	var exp peer.ID
	if sd.exp != 0 {
		exp = t01IDs[okt][sd.exp-1]
	}
	var sc sec.SecureConn
	if role == 0 {
		sc, err = tpt.SecureOutbound(context.Background(), conn, exp)
	} else {
		sc, err = tpt.SecureInbound(context.Background(), conn, exp)
	}
	if err != nil {
		return t01Obs{cls: 1}, nil
	}
	o := t01Obs{rid: t01Name(okt, sc.RemotePeer())}
	if k := sc.RemotePublicKey(); k != nil {
		if id, e2 := peer.IDFromPublicKey(k); e2 == nil {
			o.rkid = t01Name(okt, id)
		}
	}
	if post {
		mine, theirs := byte('C'), byte('S')
		if role == 1 {
			mine, theirs = theirs, mine
		}
		o.post = 2
		if _, werr := sc.Write([]byte{mine}); werr == nil {
			var b [1]byte
			if _, rerr := io.ReadFull(sc, b[:]); rerr == nil && b[0] == theirs {
				o.post = 1
			}
		}
	}
	return o, nil
}

func t01Run(c *t01Case, lens *[2][]int) ([][]int64, bool, error) {
	w := w01.NewWorld()
	nsess := 1
	if c.e.op == 6 {
		nsess = 2
	}
	sp := &t01Splice{}
	var sym t01Sym
	if c.e.op == 6 {
		sym = t01Sym{7, int64(c.e.dir), int64(c.e.rec), 0}
	}
	obs := make([][2]t01Obs, nsess)
	var firstErr error
	var mu sync.Mutex
	var wg, pwg sync.WaitGroup
	w.Add(4 * nsess)
	for s := 0; s < nsess; s++ {
		cc, pc := w.Pipe("C", "pC")
		ps, cs := w.Pipe("pS", "S")
		sy, ln := &sym, lens
		if s == 1 {
			sy, ln = &t01Sym{}, nil
		}
		pwg.Add(2)
		go func() { defer pwg.Done(); t01Proxy(w, pc, ps, 0, c.e, sy, sp, s, ln) }()
		go func() { defer pwg.Done(); t01Proxy(w, ps, pc, 1, c.e, sy, sp, s, ln) }()
		for role := 0; role < 2; role++ {
			wg.Add(1)
			go func(s, role int, conn *w01.Conn) {
				defer wg.Done()
				defer w.Done()
				o, err := t01Endpoint(c, role, conn, c.e.op == 0 && lens == nil)
				if err != nil {
					mu.Lock()
					firstErr = err
					mu.Unlock()
					conn.Close()
				}
				obs[s][role] = o
			}(s, role, []*w01.Conn{cc, cs}[role])
		}
	}
	wg.Wait()
	pwg.Wait()
	var lines [][]int64
	for s := 0; s < nsess; s++ {
		line := []int64{3, int64(c.kt[0]), int64(c.kt[1])}
		for r := 0; r < 2; r++ {
			sd := c.sd[r]
			line = append(line, int64(sd.id), int64(sd.exp), int64(sd.holds))
			line = append(line, t01ChainInts(sd.chain)...)
		}
		line = append(line, sym.ek, sym.dir, sym.rec, sym.pos)
		for r := 0; r < 2; r++ {
			line = append(line, obs[s][r].cls, obs[s][r].rid, obs[s][r].rkid, obs[s][r].post)
		}
		lines = append(lines, line)
	}
	return lines, w.Tripped, firstErr
}

func t01Honest(id int) t01Side {
	return t01Side{id: id, holds: 1, chain: []t01Cert{{key: 1, signer: 1, intact: 1, timeok: 1, exts: []t01Ext{t01Good(id, 1)}}}}
}

// tag 3 generators.  Client holds A (or E when it is the one that deviates), server holds B (or E).
func t01GenHandshakes(t *testing.T, rnd *verifh.Rand, types []int, thorough bool) []t01Case {
	var cases []t01Case
	for _, ktC := range types {
		for _, ktS := range types {
			kt := [2]int{ktC, ktS}
			var lens [2][]int
			if _, _, err := t01Run(&t01Case{kt: kt, sd: [2]t01Side{t01Honest(1), t01Honest(2)}}, &lens); err != nil {
				t.Fatal(err)
			}
			if len(lens[0]) < 2 || len(lens[1]) < 2 {
				t.Fatalf("honest TLS handshake: records seen %v", lens)
			}
			// (A) expected-peer settings of both sides, undisturbed
			for expC := 0; expC <= 3; expC++ {
				for expS := 0; expS <= 3; expS++ {
					c, s := t01Honest(1), t01Honest(2)
					c.exp, s.exp = expC, expS
					cases = append(cases, t01Case{kt: kt, sd: [2]t01Side{c, s}})
				}
			}
			// (B) every certificate mutation presented by either side (the deviating endpoint holds E or is
			// the honest identity itself), against each expected-peer setting of the verifier
			for role := 0; role < 2; role++ {
				for _, own := range []int{3, 1 + role} {
					v := 1 + role // the identity the verifier would like to see on that side
					if own == v {
						v = 3
					}
					for _, p := range t01Presentations(own, v) {
						if role == 1 && len(p.chain) == 0 {
							continue // a server without certificate cannot be configured
						}
						for _, exp := range []int{0, own, v} {
							dev := t01Side{id: own, holds: p.holds, chain: p.chain}
							hon := t01Honest(1 + (1 - role))
							hon.exp = exp
							var c t01Case
							c.kt = kt
							c.sd[role], c.sd[1-role] = dev, hon
							cases = append(cases, c)
						}
					}
				}
			}
			// (C) man in the middle on the records
			for dir := 0; dir < 2; dir++ {
				for rec, n := range lens[dir] {
					mk := func(e t01Edit) {
						e.dir, e.rec = dir, rec
						c, s := t01Honest(1), t01Honest(2)
						c.exp = 2
						if rnd.Bool() {
							s.exp = 1
						}
						cases = append(cases, t01Case{kt: kt, sd: [2]t01Side{c, s}, e: e})
					}
					for pos := 0; pos < n+2; pos++ {
						if pos == 1 || pos == 2 {
							continue // legacy_record_version: not authenticated in TLS 1.3 by design
						}
						if !thorough && pos >= 5 && pos < n-1 && rnd.Intn(12) != 0 {
							continue
						}
						if !thorough && (ktC != 0 || ktS != 0) && pos >= 5 && rnd.Intn(4) != 0 {
							continue
						}
						mk(t01Edit{op: 1, pos: pos, mask: 1 << uint(rnd.Intn(8))})
					}
					for _, k := range []int{1, 16, 17} {
						mk(t01Edit{op: 2, k: k})
					}
					mk(t01Edit{op: 3, k: 1})
					mk(t01Edit{op: 3, k: 16})
					mk(t01Edit{op: 4})
					mk(t01Edit{op: 5, last: rec == len(lens[dir])-1})
					mk(t01Edit{op: 6})
				}
			}
		}
	}
	return cases
}

// ---- tests -------------------------------------------------------------------------------------------
func TestVerifNothing(t *testing.T) {}

func t01Types() ([]int, bool) {
	if verifh.Tier() == "thorough" {
		return []int{0, 1, 2, 3}, true
	}
	return []int{0, 1 + int(verifh.Seed()%3)}, false
}

func TestVerifC01TLS(t *testing.T) {
	out, err := verifh.Open()
	if err != nil {
		t.Fatal(err)
	}
	defer out.Close()
	types, thorough := t01Types()
	t01GenKeys(t, types)
	rnd := verifh.NewRand(verifh.Seed() + 77)
	// tag 2
	for _, kt := range types {
		for own := 1; own <= 3; own++ {
			for _, v := range []int{1 + own%3, 1 + (own+1)%3} {
				for _, p := range t01Presentations(own, v) {
					for exp := 0; exp <= 3; exp++ {
						line, err := t01VerifyCase(kt, exp, p.chain)
						if err != nil {
							t.Fatalf("%s: %v", p.name, err)
						}
						out.Case(line)
						out.Cover("tls_verify_cases")
						out.Cover("tls_verify_" + p.name)
						n := len(line)
						if line[n-4] == 0 {
							out.Cover("tls_verify_accepted")
						} else {
							out.Cover("tls_verify_rejected_class" + string(rune('0'+line[n-4])))
						}
					}
				}
			}
		}
	}
	// tag 2, concurrent stream: verifications share nothing, so a chain is judged the same way
	// whatever runs next to it
	for _, kt := range types {
		t01Concurrent(t, out, kt, thorough)
	}
	// tag 3
	cases := t01GenHandshakes(t, rnd, types, thorough)
	lines := make([][][]int64, len(cases))
	tripped := make([]bool, len(cases))
	errs := make([]error, len(cases))
	var wg sync.WaitGroup
	next := make(chan int, 64)
	for wk := 0; wk < 8; wk++ {
		wg.Add(1)
		go func() {
			defer wg.Done()
			for i := range next {
				lines[i], tripped[i], errs[i] = t01Run(&cases[i], nil)
			}
		}()
	}
	for i := range cases {
		next <- i
	}
	close(next)
	wg.Wait()
	ekName := []string{"none", "flip", "truncate", "extend", "drop", "grow", "duplicate", "splice", "duplicate_last"}
	for i, ls := range lines {
		if errs[i] != nil {
			t.Fatalf("case %d: %v", i, errs[i])
		}
		for _, l := range ls {
			out.Case(l)
			n := len(l)
			out.Cover("tls_handshake_cases")
			out.Cover("tls_edit_" + ekName[l[n-12]])
			if l[n-12] != 0 {
				out.Cover("tls_edit_dir" + string(rune('0'+l[n-11])))
			}
			for _, j := range []int{n - 8, n - 4} {
				if l[j] == 0 {
					out.Cover("tls_outcome_completed")
				} else {
					out.Cover("tls_outcome_failed")
				}
				if l[j+3] == 2 {
					out.Cover("tls_first_read_after_handshake_failed")
				}
			}
		}
		if tripped[i] {
			out.Cover("tls_stalled_network_closed")
		}
	}
}

// chain ints -> symbolic chain; returns the rest
func t01ParseChain(l []int64) ([]t01Cert, []int64) {
	n := int(l[0])
	l = l[1:]
	var ch []t01Cert
	for i := 0; i < n; i++ {
		c := t01Cert{key: int(l[0]), signer: int(l[1]), intact: int(l[2]), timeok: int(l[3])}
		ne := int(l[4])
		l = l[5:]
		for j := 0; j < ne; j++ {
			c.exts = append(c.exts, t01Ext{int(l[0]), int(l[1]), int(l[2]), int(l[3]), int(l[4]), int(l[5]), int(l[6])})
			l = l[7:]
		}
		ch = append(ch, c)
	}
	return ch, l
}

func TestVerifC01TLSReplay(t *testing.T) {
	out, err := verifh.Open()
	if err != nil {
		t.Fatal(err)
	}
	defer out.Close()
	l := verifh.ReplayCase()
	if len(l) < 4 || (l[0] != 2 && l[0] != 3) {
		t.Skip("not a TLS case")
	}
	if l[0] == 2 {
		t01GenKeys(t, []int{int(l[1])})
		ch, _ := t01ParseChain(l[3:])
		line, err := t01VerifyCase(int(l[1]), int(l[2]), ch)
		if err != nil {
			t.Fatal(err)
		}
		out.Case(line)
		return
	}
	t01GenKeys(t, []int{int(l[1]), int(l[2])})
	c := t01Case{kt: [2]int{int(l[1]), int(l[2])}}
	rest := l[3:]
	for r := 0; r < 2; r++ {
		c.sd[r] = t01Side{id: int(rest[0]), exp: int(rest[1]), holds: int(rest[2])}
		c.sd[r].chain, rest = t01ParseChain(rest[3:])
	}
	ek, dir, rec, pos := int(rest[0]), int(rest[1]), int(rest[2]), int(rest[3])
	e := t01Edit{dir: dir, rec: rec}
	switch ek {
	case 1:
		e.op, e.pos, e.mask = 1, pos, 0x01
	case 2:
		e.op, e.k = 2, 1
	case 3:
		e.op, e.k = 3, 1
	case 4:
		e.op = 4
	case 5:
		e.op, e.pos, e.mask = 1, 3, 0x40
	case 6:
		e.op = 5
	case 7:
		e.op = 6
	case 8:
		e.op, e.last = 5, true
	}
	c.e = e
	ls, _, err := t01Run(&c, nil)
	if err != nil {
		t.Fatal(err)
	}
	out.Case(ls[0])
}

//go:build verif

package basichost_test

import (
	"strings"

	"github.com/libp2p/go-libp2p/core/network"
	"github.com/libp2p/go-libp2p/core/protocol"
	"github.com/libp2p/go-libp2p/internal/verifh"
)

// the harness's own view of the listener's table: used by the generator and
// for the coverage counters only (never written to the case)
type c07Ent struct {
	name int64
	acc  []int64
	reg  int64
	fn   bool
}

func c07Has(l []int64, x int64) bool {
	for _, y := range l {
		if y == x {
			return true
		}
	}
	return false
}

func (r *c07Run) addHandler(tab *[]c07Ent, name int64, fn func(protocol.ID) bool, acc []int64) {
	w := r.w
	reg := w.nreg
	w.nreg++
	for i, e := range *tab {
		if e.name == name {
			*tab = append((*tab)[:i:i], (*tab)[i+1:]...)
			r.out.Cover("handler.reregistered_same_name")
			break
		}
	}
	if fn == nil {
		w.l.SetStreamHandler(c07Names[name], w.handler(reg))
		*tab = append(*tab, c07Ent{name, []int64{name}, reg, false})
		r.line = append(r.line, 1, name)
	} else {
		w.l.SetStreamHandlerMatch(c07Names[name], fn, w.handler(reg))
		*tab = append(*tab, c07Ent{name, acc, reg, true})
		r.line = append(r.line, 2, name, int64(len(acc)))
		r.line = append(r.line, acc...)
	}
	r.line = append(r.line, w.muxObs()...)
}

func (r *c07Run) removeHandler(tab *[]c07Ent, name int64) {
	for i, e := range *tab {
		if e.name == name {
			*tab = append((*tab)[:i:i], (*tab)[i+1:]...)
			r.out.Cover("handler.removed_existing")
			break
		}
	}
	r.w.l.RemoveStreamHandler(c07Names[name])
	r.line = append(r.line, 3, name)
	r.line = append(r.line, r.w.muxObs()...)
}

func (r *c07Run) setKnowledge(k []int64) {
	ps := make([]protocol.ID, len(k))
	for i, x := range k {
		ps[i] = c07Names[x]
	}
	r.w.d.Peerstore().SetProtocols(r.w.l.ID(), ps...)
	r.line = append(r.line, 4, int64(len(k)))
	r.line = append(r.line, k...)
	r.line = append(r.line, r.w.knowObs()...)
}

func (r *c07Run) closeSlot(slot, how int64) {
	w := r.w
	if sl, ok := r.slots[slot]; ok {
		w.mu.Lock()
		ls := w.heldL[sl.nonce]
		delete(w.heldL, sl.nonce)
		w.mu.Unlock()
		if how == 0 {
			sl.d.Close()
			if ls != nil {
				ls.Close()
			}
		} else {
			sl.d.Reset()
			if ls != nil {
				ls.Reset()
			}
		}
		delete(r.slots, slot)
		r.out.Cover("close.held_slot")
	}
	r.settle(nil)
	r.line = append(r.line, 6, slot, how)
	r.line = append(r.line, w.scopeObs()...)
}

// relabel: SetProtocol(q) once more on one end of a held stream; then what both
// ends report.  With a real resource manager the stream's scope is attached
// already and refuses: the stream must go on reporting the negotiated protocol.
func (r *c07Run) relabel(slot, side, q int64) {
	w := r.w
	var errc, dl, ll int64 = -1, -1, -1
	if sl, ok := r.slots[slot]; ok {
		w.mu.Lock()
		ls := w.heldL[sl.nonce]
		w.mu.Unlock()
		if ls != nil {
			st := sl.d
			if side != 0 {
				st = ls
			}
			errc = 0
			if err := st.SetProtocol(c07Names[q]); err != nil {
				errc = 1
				r.out.Cover("relabel.refused")
			} else {
				r.out.Cover("relabel.accepted")
			}
			dl, ll = c07Pid(sl.d.Protocol()), c07Pid(ls.Protocol())
		}
	}
	r.line = append(r.line, 8, slot, side, q, errc, dl, ll)
}

func (r *c07Run) reset() {
	w := r.w
	for _, n := range c07Names {
		w.l.RemoveStreamHandler(n) // through the host: its identify snapshot follows
	}
	for k, sl := range r.slots {
		sl.d.Reset()
		delete(r.slots, k)
	}
	w.mu.Lock()
	for n, s := range w.heldL {
		s.Reset()
		delete(w.heldL, n)
	}
	w.invs = nil
	w.nreg = 0
	w.mu.Unlock()
	w.d.Peerstore().SetProtocols(w.l.ID())
	r.nslot = 0
	r.settle(nil)
}

func c07Header(w *c07World) []int64 {
	line := []int64{7, w.kind, 0, c07U}
	if w.hasScope {
		line[2] |= 1
	}
	if w.limited {
		line[2] |= 2
	}
	if w.blankD {
		line[2] |= 4
	}
	line = append(line, w.limD...)
	line = append(line, w.limL...)
	return line
}

// match functions over real protocol IDs; the accepted set written to the
// case is the function evaluated on the universe
func c07MatchFn(kind int, name int64, rnd *verifh.Rand) func(protocol.ID) bool {
	base := string(c07Names[name])
	switch kind {
	case 0: // prefix
		return func(p protocol.ID) bool { return strings.HasPrefix(string(p), base) }
	case 1: // same name, any version: base up to the last '/'
		i := strings.LastIndex(base, "/")
		stem := base[:i+1]
		return func(p protocol.ID) bool { return strings.HasPrefix(string(p), stem) && len(p) > len(stem) }
	default: // arbitrary finite set (may exclude the registered name itself)
		mask := rnd.Intn(1 << c07U)
		return func(p protocol.ID) bool {
			i := c07Pid(p)
			return i >= 0 && mask&(1<<uint(i)) != 0
		}
	}
}

func c07Accepts(fn func(protocol.ID) bool) []int64 {
	var acc []int64
	for i, n := range c07Names {
		if fn(n) {
			acc = append(acc, int64(i))
		}
	}
	return acc
}

func (w *c07World) hasLimit(p int64) bool { return w.limD[p] >= 0 || w.limL[p] >= 0 }

func c07FirstMatch(tab []c07Ent, p int64) *c07Ent {
	for i := range tab {
		if c07Has(tab[i].acc, p) {
			return &tab[i]
		}
	}
	return nil
}

// coverage of the decision points, from the harness's own bookkeeping
func (r *c07Run) coverOpen(tab []c07Ent, know []int64, reqs []int64) {
	out := r.out
	var pref int64 = -1
	for _, q := range reqs {
		if c07Has(know, q) {
			pref = q
			break
		}
	}
	common := false
	for _, q := range reqs {
		if c07FirstMatch(tab, q) != nil {
			common = true
		}
	}
	if !common {
		out.Cover("open.no_common_protocol")
	}
	if pref >= 0 {
		out.Cover("open.optimistic")
		e := c07FirstMatch(tab, pref)
		switch {
		case e == nil && common:
			out.Cover("open.optimistic.stale_but_other_common")
		case e == nil:
			out.Cover("open.optimistic.stale_no_common")
		case e.fn:
			out.Cover("open.optimistic.match_fn_handler")
		default:
			out.Cover("open.optimistic.exact_handler")
		}
		return
	}
	out.Cover("open.select_one_of")
	for i, q := range reqs {
		if e := c07FirstMatch(tab, q); e != nil {
			if i > 0 {
				out.Cover("open.select.later_proposal_accepted")
			}
			if e.fn {
				out.Cover("open.select.match_fn_handler")
			}
			n := 0
			for _, x := range tab {
				if c07Has(x.acc, q) {
					n++
				}
			}
			if n > 1 {
				out.Cover("open.select.overlapping_handlers")
			}
			break
		}
	}
}

var _ network.Stream

//go:build verif

package basichost_test

// C07, quantifier "limited vs direct connections" x "concurrent opens": opens whose
// context does not allow the limited (relayed) connection are parked by
// Swarm.NewStream (waitForDirectConn) until a direct connection exists.  The park
// op registers n such opens one after the other (each is seen waiting before the
// next one starts), ends the contexts of some of them while they wait, then has
// the listener dial the dialer directly.  Every open still within its deadline
// must now get its stream like any other open.  No wall-clock assumption decides
// an outcome: registration is observed, expiry is the context's cancellation,
// the direct connection is awaited.

import (
	"bytes"
	"context"
	"runtime"
	"time"

	"github.com/libp2p/go-libp2p/core/network"
	"github.com/libp2p/go-libp2p/internal/verifh"
	"github.com/libp2p/go-libp2p/p2p/protocol/identify"
	pb "github.com/libp2p/go-libp2p/p2p/protocol/identify/pb"
	"github.com/libp2p/go-msgio/pbio"
	ma "github.com/multiformats/go-multiaddr"
)

// mode bit 5 of a parked open: its context ends while it is parked
const c07ModeExpires = int64(32)

// c07ParkedCount: goroutines blocked in the select of Swarm.waitForDirectConn
// (they have appended their channel to the notification list before)
func c07ParkedCount() int {
	buf := make([]byte, 4<<20)
	for {
		n := runtime.Stack(buf, true)
		if n < len(buf) {
			buf = buf[:n]
			break
		}
		buf = make([]byte, 2*len(buf))
	}
	cnt := 0
	for _, g := range bytes.Split(buf, []byte("\n\n")) {
		nl := bytes.IndexByte(g, '\n')
		if nl < 0 {
			continue
		}
		if bytes.Contains(g[:nl], []byte("[select")) && bytes.Contains(g[nl:], []byte(").waitForDirectConn(")) {
			cnt++
		}
	}
	return cnt
}

// identifySync: the listener's identify service answers with a snapshot of its
// protocols that follows handler changes through the event bus; ask it (over the
// limited connection) until the snapshot lists exactly what the muxer serves now,
// so that identify on the direct connection delivers the current table
func (r *c07Run) identifySync() {
	w := r.w
	want := map[int64]bool{}
	for _, p := range w.l.Mux().Protocols() {
		if i := c07Pid(p); i >= 0 {
			want[i] = true
		}
	}
	deadline := time.Now().Add(10 * time.Second)
	for {
		got := map[int64]bool{}
		ctx, cancel := context.WithTimeout(network.WithAllowLimitedConn(context.Background(), "c07"), 5*time.Second)
		s, err := w.d.NewStream(ctx, w.l.ID(), identify.ID)
		ok := err == nil
		if ok {
			var mes pb.Identify
			s.SetReadDeadline(time.Now().Add(5 * time.Second))
			if err := pbio.NewDelimitedReader(s, 64<<10).ReadMsg(&mes); err != nil {
				ok = false
			}
			for _, p := range mes.Protocols {
				for i, n := range c07Names {
					if string(n) == p {
						got[int64(i)] = true
					}
				}
			}
			s.Reset()
		}
		cancel()
		same := ok && len(got) == len(want)
		for k := range want {
			same = same && got[k]
		}
		if same {
			r.out.Cover("park.identify_snapshot_current")
			break
		}
		if time.Now().After(deadline) {
			w.fail("park: the listener's identify snapshot does not follow its muxer")
			break
		}
		r.out.Cover("park.identify_snapshot_lagging")
		time.Sleep(time.Millisecond)
	}
	r.settle(nil)
}

// runParked: see the file comment.  Returns the MUX observation (what the listener
// advertises when the direct connection appears).
func (r *c07Run) runParked(reqs [][]int64, modes []int64, nonces []int64, firsts []byte, obs []c07Open, rnd *verifh.Rand) []int64 {
	w := r.w
	n := len(reqs)
	if !w.parkAddr {
		a, _ := ma.NewMultiaddr("/ip4/127.0.0.1/tcp/0")
		if err := w.d.Network().Listen(a); err != nil {
			w.fail("park: the dialer cannot listen: " + err.Error())
		}
		w.parkAddr = true
	}
	la, _ := w.d.Network().InterfaceListenAddresses()
	w.l.Peerstore().AddAddrs(w.d.ID(), la, time.Hour)
	r.identifySync()
	mx := w.muxObs()

	base := c07ParkedCount()
	cancels := make([]context.CancelFunc, n)
	done := make([]chan struct{}, n)
	for i := 0; i < n; i++ {
		// far deadline: "within its deadline" holds for every open whose context the harness does not end
		ctx, cancel := context.WithTimeout(network.WithNoDial(context.Background(), "c07"), 10*time.Minute)
		cancels[i] = cancel
		done[i] = make(chan struct{})
		go func(i int) {
			defer close(done[i])
			obs[i] = w.openCtx(ctx, r.out, reqs[i], nonces[i], firsts[i], modes[i]&c07ModeExpires != 0, false, (modes[i]>>2)%c07NumFops)
		}(i)
		// the open is parked (its channel is on the list) before the next one starts
		seen := false
		for t0 := time.Now(); time.Since(t0) < 10*time.Second; {
			if c07ParkedCount() >= base+i+1 {
				seen = true
				break
			}
			select {
			case <-done[i]:
				t0 = time.Time{}
			case <-time.After(200 * time.Microsecond):
			}
		}
		if seen {
			r.out.Cover("park.open_parked")
		} else {
			r.out.Cover("park.open_not_seen_parked")
		}
	}
	// the contexts of the flagged opens end, one at a time, in any order
	var exp []int
	for i := 0; i < n; i++ {
		if modes[i]&c07ModeExpires != 0 {
			exp = append(exp, i)
		}
	}
	for k := len(exp) - 1; k > 0; k-- {
		j := rnd.Intn(k + 1)
		exp[k], exp[j] = exp[j], exp[k]
	}
	for _, i := range exp {
		cancels[i]()
		<-done[i]
		r.out.Cover("park.context_ended_while_parked")
		if i < n-1 {
			r.out.Cover("park.context_ended.later_waiters_registered")
		}
		if i > 0 {
			r.out.Cover("park.context_ended.earlier_waiters_registered")
		}
	}
	// connection reversal: the listener dials the dialer directly
	w.parking = true
	dctx, dcancel := context.WithTimeout(context.Background(), 30*time.Second)
	_, err := w.l.Network().DialPeer(network.WithForceDirectDial(dctx, "c07"), w.d.ID())
	dcancel()
	if err != nil {
		w.fail("park: no direct connection: " + err.Error())
	}
	for t0 := time.Now(); ; {
		if c07Direct(w.d.Network().ConnsToPeer(w.l.ID())) != nil && c07Direct(w.l.Network().ConnsToPeer(w.d.ID())) != nil {
			r.out.Cover("park.direct_connection_up")
			break
		}
		if time.Since(t0) > 10*time.Second {
			w.fail("park: direct connection not seen on both sides")
			break
		}
		time.Sleep(200 * time.Microsecond)
	}
	w.identifyWaitAll()
	// every open still parked has a usable connection now
	up := time.Now()
	sick := false
	for i := 0; i < n; i++ {
		if modes[i]&c07ModeExpires != 0 {
			continue
		}
		left := 8*time.Second - time.Since(up)
		if left < 0 {
			left = 0
		}
		select {
		case <-done[i]:
			r.out.Cover("park.open_within_deadline.returned")
		case <-time.After(left):
			// (recorded as a failed open; its context ends only now)
			r.out.Cover("park.open_within_deadline.not_woken")
			w.mu.Lock()
			w.timeouts++
			w.mu.Unlock()
			sick = true
			cancels[i]()
			<-done[i]
		}
	}
	if sick {
		w.parkSick++
	}
	for i := range cancels {
		cancels[i]()
	}
	r.out.Cover("park.ops")
	r.out.CoverN("park.opens", int64(n))
	return mx
}

func c07Direct(cs []network.Conn) network.Conn {
	for _, c := range cs {
		if !c.Stat().Limited {
			return c
		}
	}
	return nil
}

// identifyWaitAll: identify has finished on every connection between the two hosts, both sides
func (w *c07World) identifyWaitAll() {
	type idw interface {
		IDService() identify.IDService
	}
	if di, ok := w.d.(idw); ok {
		for _, c := range w.d.Network().ConnsToPeer(w.l.ID()) {
			<-di.IDService().IdentifyWait(c)
		}
	}
	if li, ok := w.l.(idw); ok {
		for _, c := range w.l.Network().ConnsToPeer(w.d.ID()) {
			<-li.IDService().IdentifyWait(c)
		}
	}
}

// endParking: the direct connection goes away again; the hosts are back on the limited one
func (r *c07Run) endParking() {
	w := r.w
	for _, c := range w.d.Network().ConnsToPeer(w.l.ID()) {
		if !c.Stat().Limited {
			c.Close()
		}
	}
	for t0 := time.Now(); ; {
		cd, cl := w.d.Network().ConnsToPeer(w.l.ID()), w.l.Network().ConnsToPeer(w.d.ID())
		if len(cd) == 1 && len(cl) == 1 && cd[0].Stat().Limited && cl[0].Stat().Limited {
			break
		}
		if time.Since(t0) > 10*time.Second {
			w.fail("park: the direct connection did not go away")
			break
		}
		time.Sleep(200 * time.Microsecond)
	}
	w.parking = false
	r.settle(nil)
}

//go:build verif

package basichost_test

import (
	"context"
	"fmt"
	"encoding/binary"
	"errors"
	"io"
	"sort"
	"sync"
	"time"

	"github.com/libp2p/go-libp2p/core/network"
	"github.com/libp2p/go-libp2p/core/protocol"
	"github.com/libp2p/go-libp2p/internal/verifh"
	msmux "github.com/multiformats/go-multistream"
)

// every registered closure carries its registration index; it reports the
// protocol its stream is bound to, reads the dialer's nonce and echoes
// nonce + registration index + protocol
func (w *c07World) handler(reg int64) network.StreamHandler {
	return func(s network.Stream) {
		lp := c07Pid(s.Protocol())
		var buf [9]byte
		s.SetReadDeadline(time.Now().Add(6 * time.Second))
		n, err := io.ReadFull(s, buf[:])
		var nonce int64
		switch {
		case err == nil:
			nonce = int64(binary.BigEndian.Uint64(buf[1:]))
		case n == 0 && err == io.EOF:
			// a dialer with nothing to send half-closed right away: answer all the same
			nonce = c07Requestless
		default:
			w.mu.Lock()
			w.invs = append(w.invs, c07Inv{reg, lp, -1})
			w.mu.Unlock()
			s.Reset()
			return
		}
		s.SetReadDeadline(time.Time{})
		w.mu.Lock()
		w.invs = append(w.invs, c07Inv{reg, lp, nonce})
		if nonce == c07Requestless && w.closeRequestless {
			// the dialer closed the stream as its very first operation: nothing to hold
			w.mu.Unlock()
			s.Close()
			return
		}
		w.heldL[nonce] = s
		w.mu.Unlock()
		var e [16]byte
		binary.BigEndian.PutUint64(e[0:], uint64(nonce))
		binary.BigEndian.PutUint32(e[8:], uint32(int32(reg)))
		binary.BigEndian.PutUint32(e[12:], uint32(int32(lp)))
		s.Write(e[:])
	}
}

func (w *c07World) muxObs() []int64 {
	var res []int64
	for _, p := range w.l.Mux().Protocols() {
		if i := c07Pid(p); i >= 0 {
			res = append(res, i)
		}
	}
	return append([]int64{int64(len(res))}, res...)
}

func (w *c07World) knowObs() []int64 {
	ps, _ := w.d.Peerstore().GetProtocols(w.l.ID())
	var res []int64
	for _, p := range ps {
		if i := c07Pid(p); i >= 0 {
			res = append(res, i)
		}
	}
	sort.Slice(res, func(i, j int) bool { return res[i] < res[j] })
	return append([]int64{int64(len(res))}, res...)
}

func (w *c07World) scopeObs() []int64 {
	res := make([]int64, 2*c07U)
	if !w.hasScope {
		return res
	}
	for i, n := range c07Names {
		w.rmD.ViewProtocol(n, func(s network.ProtocolScope) error {
			res[i] = int64(s.Stat().NumStreamsOutbound)
			if s.Stat().NumStreamsInbound != 0 {
				w.fail("dialer protocol scope has inbound streams")
			}
			return nil
		})
		w.rmL.ViewProtocol(n, func(s network.ProtocolScope) error {
			res[c07U+i] = int64(s.Stat().NumStreamsInbound)
			if s.Stat().NumStreamsOutbound != 0 {
				w.fail("listener protocol scope has outbound streams")
			}
			return nil
		})
	}
	return res
}

// nonce of an open whose dialer sends nothing (only in sequential opens)
const c07Requestless = int64(-2)

// the first operations the dialer performs on the stream NewStream returned
const (
	fopWriteRead          = 0
	fopReadWrite          = 1 // Read is under way before the first Write
	fopDeadlineReadWrite  = 2 // SetDeadline, Read under way, Write
	fopDeadlineWriteRead  = 3
	fopCloseWriteRead     = 4 // nothing to send: CloseWrite first, then read the answer
	fopWriteCloseWriteRd  = 5
	fopCloseReadWrite     = 6 // not interested in the answer: CloseRead first, then Write
	fopClose              = 7 // a payload-less notification: Close is the first and only operation
	c07NumFops            = 8
)

type c07Open struct {
	closed              bool // obtained and closed again at once (fopClose)
	res, dp, use, h, lp int64
	nonce               int64
	s                   network.Stream
}

// open = NewStream + first use (write the nonce, read the echo)
func (w *c07World) open(out *verifh.Out, reqs []int64, nonce int64, first byte, allow, late bool, fop int64) c07Open {
	ctx, cancel := context.WithTimeout(context.Background(), 4*time.Second)
	defer cancel()
	if allow {
		ctx = network.WithAllowLimitedConn(ctx, "c07")
	} else if w.limited {
		// nothing can produce a direct connection here: do not wait long for one
		cancel()
		ctx, cancel = context.WithTimeout(network.WithNoDial(context.Background(), "c07"), 80*time.Millisecond)
		defer cancel()
	}
	return w.openCtx(ctx, out, reqs, nonce, first, w.limited && !allow, late, fop)
}

// openCtx: NewStream under the caller's context + first use; gate: the context does not
// allow the only (limited) connection there is during its lifetime
func (w *c07World) openCtx(ctx context.Context, out *verifh.Out, reqs []int64, nonce int64, first byte, gate, late bool, fop int64) c07Open {
	o := c07Open{res: 0, dp: -1, use: -1, h: -1, lp: -1, nonce: nonce}
	pids := make([]protocol.ID, len(reqs))
	for i, r := range reqs {
		pids[i] = c07Names[r]
	}
	s, err := w.d.NewStream(ctx, w.l.ID(), pids...)
	if err != nil {
		if errors.Is(err, context.DeadlineExceeded) && !gate {
			w.mu.Lock()
			w.timeouts++
			w.mu.Unlock()
		}
		switch {
		case gate:
			o.res = 5
			out.Cover("open.fail.limited_conn_not_allowed")
		case errors.Is(err, msmux.ErrNoProtocols):
			o.res = 3
			out.Cover("open.fail.no_protocols")
		case errors.Is(err, network.ErrResourceLimitExceeded):
			o.res = 2
			out.Cover("open.fail.dialer_scope_refused")
		case errors.Is(err, msmux.ErrNotSupported[protocol.ID]{}):
			o.res = 1
			out.Cover("open.fail.not_supported")
		case errors.Is(err, network.ErrReset):
			o.res = 4
			out.Cover("open.fail.reset_during_negotiation")
		default:
			o.res = 5
			out.Cover("open.fail.other")
			out.Comment("open error: " + err.Error())
		}
		return o
	}
	o.dp = c07Pid(s.Protocol())
	if fop == fopClose {
		// the observable is on the listener: the handler registered for the
		// protocol runs (and finds the stream at EOF)
		w.mu.Lock()
		w.closeRequestless = true
		w.mu.Unlock()
		s.Close()
		out.Cover("use.first_ops.close")
		deadline := time.Now().Add(3 * time.Second)
		for o.use != 1 && time.Now().Before(deadline) {
			w.mu.Lock()
			for _, v := range w.invs {
				if v.nonce == c07Requestless {
					o.use, o.h, o.lp, o.closed = 1, v.reg, v.lp, true
				}
			}
			w.mu.Unlock()
			if o.use != 1 {
				time.Sleep(200 * time.Microsecond)
			}
		}
		w.mu.Lock()
		w.closeRequestless = false
		if o.use != 1 {
			o.use = 0
			w.closeFails++
		}
		w.mu.Unlock()
		return o
	}
	var buf [9]byte
	buf[0] = first
	binary.BigEndian.PutUint64(buf[1:], uint64(nonce))
	e, werr, rerr := w.firstOps(out, s, fop, buf[:], nonce)
	if werr != nil {
		out.Cover("use.write_failed")
	}
	if werr != nil || rerr != nil {
		o.use = 0
		if werr == nil {
			if errors.Is(rerr, msmux.ErrNotSupported[protocol.ID]{}) {
				out.Cover("use.read_failed.not_supported")
			} else {
				out.Cover("use.read_failed.reset_or_other")
			}
		}
		s.Reset()
		return o
	}
	want := nonce
	if fop == fopCloseWriteRead {
		want = c07Requestless
	}
	if int64(binary.BigEndian.Uint64(e[0:])) != want {
		o.use = 2 // somebody else's bytes
		s.Reset()
		return o
	}
	if fop == fopCloseWriteRead {
		// the handler's end of this (sequential) open is filed under the requestless key
		w.mu.Lock()
		if ls, ok := w.heldL[c07Requestless]; ok {
			delete(w.heldL, c07Requestless)
			w.heldL[nonce] = ls
		}
		w.mu.Unlock()
	}
	if fop >= fopCloseWriteRead {
		late = false
	}
	o.h = int64(int32(binary.BigEndian.Uint32(e[8:])))
	o.lp = int64(int32(binary.BigEndian.Uint32(e[12:])))
	if late && !w.lateExchange(out, s, nonce) {
		o.use = 0
		o.h, o.lp = -1, -1
		s.Reset()
		return o
	}
	o.use = 1
	o.s = s
	return o
}

// firstOps performs the dialer's first operations on the fresh stream in the
// order [fop] prescribes and returns the 16-byte answer of the handler.
func (w *c07World) firstOps(out *verifh.Out, s network.Stream, fop int64, payload []byte, nonce int64) (e [16]byte, werr, rerr error) {
	write := func() error { _, err := s.Write(payload); return err }
	read := func() error { _, err := io.ReadFull(s, e[:]); return err }
	async := func() chan error {
		ch := make(chan error, 1)
		go func() { ch <- read() }()
		time.Sleep(time.Millisecond) // let the Read get going first
		return ch
	}
	switch fop {
	case fopReadWrite:
		s.SetReadDeadline(time.Now().Add(6 * time.Second))
		ch := async()
		werr = write()
		rerr = <-ch
	case fopDeadlineReadWrite:
		s.SetDeadline(time.Now().Add(6 * time.Second))
		ch := async()
		werr = write()
		rerr = <-ch
	case fopDeadlineWriteRead:
		s.SetDeadline(time.Now().Add(6 * time.Second))
		werr = write()
		rerr = read()
	case fopCloseWriteRead:
		werr = s.CloseWrite()
		s.SetReadDeadline(time.Now().Add(6 * time.Second))
		rerr = read()
	case fopWriteCloseWriteRd:
		werr = write()
		if werr == nil {
			werr = s.CloseWrite()
		}
		s.SetReadDeadline(time.Now().Add(6 * time.Second))
		rerr = read()
	case fopCloseReadWrite:
		s.CloseRead()
		werr = write()
		// the answer cannot be read: take it from the handler's own record
		deadline := time.Now().Add(3 * time.Second)
		rerr = errors.New("the handler never got the nonce")
		for werr == nil && time.Now().Before(deadline) {
			w.mu.Lock()
			for _, v := range w.invs {
				if v.nonce == nonce {
					binary.BigEndian.PutUint64(e[0:], uint64(nonce))
					binary.BigEndian.PutUint32(e[8:], uint32(int32(v.reg)))
					binary.BigEndian.PutUint32(e[12:], uint32(int32(v.lp)))
					rerr = nil
				}
			}
			w.mu.Unlock()
			if rerr == nil {
				break
			}
			time.Sleep(200 * time.Microsecond)
		}
	default:
		werr = write()
		s.SetReadDeadline(time.Now().Add(6 * time.Second))
		rerr = read()
	}
	if fop != fopCloseReadWrite {
		s.SetDeadline(time.Time{})
	}
	out.Cover("use.first_ops." + []string{"write_read", "read_write", "deadline_read_write", "deadline_write_read",
		"closewrite_read", "write_closewrite_read", "closeread_write", "close"}[fop])
	return
}

// lateExchange: the application keeps using the stream after the negotiation
// is long over (after the hosts' negotiation timeout when that is short): the
// handler's end writes and the dialer reads, the dialer writes and the
// handler's end reads; the bytes must arrive unchanged in both directions.
func (w *c07World) lateExchange(out *verifh.Out, s network.Stream, nonce int64) bool {
	if w.negto > 0 {
		time.Sleep(w.negto + 60*time.Millisecond)
		out.Cover("use.late_exchange.after_negotiation_timeout")
	}
	w.mu.Lock()
	ls := w.heldL[nonce]
	w.mu.Unlock()
	if ls == nil {
		out.Cover("use.late_exchange.failed")
		return false
	}
	var a, b, x [12]byte
	binary.BigEndian.PutUint64(a[:], uint64(nonce)^0x5a5a5a5a)
	binary.BigEndian.PutUint64(b[:], uint64(nonce)^0x3c3c3c3c)
	ok := true
	if _, err := ls.Write(a[:]); err != nil {
		ok = false
		out.Comment("late write by the handler failed: " + err.Error())
	}
	if ok {
		s.SetReadDeadline(time.Now().Add(4 * time.Second))
		if _, err := io.ReadFull(s, x[:]); err != nil || x != a {
			ok = false
		}
		s.SetReadDeadline(time.Time{})
	}
	if ok {
		if _, err := s.Write(b[:]); err != nil {
			ok = false
		}
	}
	if ok {
		ls.SetReadDeadline(time.Now().Add(4 * time.Second))
		if _, err := io.ReadFull(ls, x[:]); err != nil || x != b {
			ok = false
		}
		ls.SetReadDeadline(time.Time{})
	}
	if ok {
		out.Cover("use.late_exchange.ok")
	} else {
		out.Cover("use.late_exchange.failed")
	}
	return ok
}

// reconnect: every stream dies with the connection; a new connection is made
// below the host (no Host.Connect, so nobody has waited for identify); with
// wait = 0 the next operation races the new connection's identify exchange
func (r *c07Run) reconnect(dir, wait int64) {
	w := r.w
	for k, sl := range r.slots {
		sl.d.Reset()
		delete(r.slots, k)
	}
	w.mu.Lock()
	for n, s := range w.heldL {
		s.Reset()
		delete(w.heldL, n)
	}
	w.mu.Unlock()
	r.settle(nil)
	for _, c := range w.d.Network().ConnsToPeer(w.l.ID()) {
		c.Close()
	}
	poll := func(n int) bool {
		deadline := time.Now().Add(10 * time.Second)
		for time.Now().Before(deadline) {
			if len(w.d.Network().ConnsToPeer(w.l.ID())) == n && len(w.l.Network().ConnsToPeer(w.d.ID())) == n {
				return true
			}
			time.Sleep(200 * time.Microsecond)
		}
		return false
	}
	if !poll(0) {
		w.fail("reconnect: old connection did not go away")
		return
	}
	// the listener's identify snapshot follows handler changes through its event bus
	time.Sleep(3 * time.Millisecond)
	ctx, cancel := context.WithTimeout(context.Background(), 10*time.Second)
	defer cancel()
	var err error
	if dir == 0 {
		_, err = w.d.Network().DialPeer(ctx, w.l.ID())
	} else {
		_, err = w.l.Network().DialPeer(ctx, w.d.ID())
	}
	if err != nil || !poll(1) {
		w.fail(fmt.Sprintf("reconnect: no new connection: %v", err))
		return
	}
	if wait != 0 {
		w.identifyWait()
		r.settle(nil)
		r.out.Cover("reconnect.identify_awaited")
	} else {
		r.out.Cover("reconnect.next_op_races_identify")
	}
	r.line = append(r.line, 7, dir, wait)
	r.line = append(r.line, w.muxObs()...)
	r.line = append(r.line, w.scopeObs()...)
}

type c07Slot struct {
	d     network.Stream
	nonce int64
}

type c07Run struct {
	w     *c07World
	out   *verifh.Out
	slots map[int64]c07Slot
	nslot int64
	line  []int64
	lastKnow []int64
}

// settle: reset listener-held streams whose dialer end does not exist, then
// wait until both connections carry exactly the held streams
func (r *c07Run) settle(dead map[int64]bool) {
	w := r.w
	deadline := time.Now().Add(20 * time.Second)
	stable := 0
	for {
		w.mu.Lock()
		for n, s := range w.heldL {
			if dead[n] {
				s.Reset()
				delete(w.heldL, n)
			}
		}
		hl := len(w.heldL)
		w.mu.Unlock()
		nd, nl, ok := w.streamCounts()
		if !ok {
			return
		}
		if nd == len(r.slots) && nl == hl && hl == len(r.slots) {
			stable++
			if stable >= 3 {
				return
			}
		} else {
			stable = 0
		}
		if time.Now().After(deadline) {
			w.fail(fmt.Sprintf("settle timeout: dialer streams %d listener streams %d heldL %d slots %d", nd, nl, hl, len(r.slots)))
			for _, c := range w.d.Network().ConnsToPeer(w.l.ID()) {
				for _, s := range c.GetStreams() {
					r.out.Comment(fmt.Sprintf("dialer stream %s proto %q", s.ID(), s.Protocol()))
				}
			}
			for _, c := range w.l.Network().ConnsToPeer(w.d.ID()) {
				for _, s := range c.GetStreams() {
					r.out.Comment(fmt.Sprintf("listener stream %s proto %q", s.ID(), s.Protocol()))
				}
			}
			return
		}
		time.Sleep(100 * time.Microsecond)
	}
}

// batch runs n opens concurrently (n = 1: a plain sequential open)
func (r *c07Run) batch(reqs [][]int64, modes []int64, rnd *verifh.Rand) {
	r.batchOrPark(reqs, modes, rnd, false)
}

func (r *c07Run) park(reqs [][]int64, modes []int64, rnd *verifh.Rand) {
	if !r.w.limited {
		// (replay of a malformed case: without a limited connection nothing parks)
		r.batchOrPark(reqs, modes, rnd, false)
		return
	}
	r.batchOrPark(reqs, modes, rnd, true)
}

func (r *c07Run) batchOrPark(reqs [][]int64, modes []int64, rnd *verifh.Rand, park bool) {
	w := r.w
	n := len(reqs)
	obs := make([]c07Open, n)
	nonces := make([]int64, n)
	firsts := make([]byte, n)
	for i := range reqs {
		w.nonce++
		nonces[i] = w.nonce
		if rnd.Chance(1, 3) {
			firsts[i] = 0x20 // a token length the listener would wait for
		}
	}
	var mx []int64
	if park {
		mx = r.runParked(reqs, modes, nonces, firsts, obs, rnd)
	} else {
		var wg sync.WaitGroup
		for i := range reqs {
			wg.Add(1)
			go func(i int) {
				defer wg.Done()
				obs[i] = w.open(r.out, reqs[i], nonces[i], firsts[i], modes[i]&1 == 1, modes[i]&2 == 2, (modes[i]>>2)%c07NumFops)
			}(i)
		}
		wg.Wait()
	}
	dead := map[int64]bool{c07Requestless: true}
	var parkSlots []int64
	var closedSlots []int64
	for i := range obs {
		if obs[i].use == 1 && obs[i].closed {
			closedSlots = append(closedSlots, r.nslot)
			r.nslot++
		} else if obs[i].use == 1 {
			r.slots[r.nslot] = c07Slot{d: obs[i].s, nonce: nonces[i]}
			parkSlots = append(parkSlots, r.nslot)
			r.nslot++
		} else {
			dead[nonces[i]] = true
		}
	}
	r.settle(dead)
	w.mu.Lock()
	invs := w.invs
	w.invs = nil
	w.mu.Unlock()
	if park {
		r.line = append(r.line, 9, int64(n))
	} else {
		r.line = append(r.line, 5, int64(n))
	}
	for i, q := range reqs {
		r.line = append(r.line, modes[i], int64(len(q)))
		r.line = append(r.line, q...)
	}
	if park {
		r.line = append(r.line, mx...)
	}
	var un [][2]int64
	for i := range obs {
		var ninv, hreg, hlp int64 = 0, -1, -1
		for _, v := range invs {
			if v.nonce == nonces[i] || (n == 1 && v.nonce == c07Requestless && c07IsRequestless(modes[i])) {
				if ninv == 0 {
					hreg, hlp = v.reg, v.lp
				}
				ninv++
			}
		}
		r.line = append(r.line, obs[i].res, obs[i].dp, obs[i].use, obs[i].h, obs[i].lp, ninv, hreg, hlp)
	}
	for _, v := range invs {
		known := n == 1 && v.nonce == c07Requestless && c07IsRequestless(modes[0])
		for _, x := range nonces {
			known = known || v.nonce == x
		}
		if !known {
			un = append(un, [2]int64{v.reg, v.lp})
		}
	}
	sort.Slice(un, func(i, j int) bool { return un[i][0] < un[j][0] || (un[i][0] == un[j][0] && un[i][1] < un[j][1]) })
	r.line = append(r.line, int64(len(un)))
	for _, x := range un {
		r.line = append(r.line, x[0], x[1])
	}
	ko := w.knowObs()
	r.lastKnow = append([]int64{}, ko[1:]...)
	r.line = append(r.line, ko...)
	r.line = append(r.line, w.scopeObs()...)
	// a stream closed as its first operation is gone on both ends already
	for _, sl := range closedSlots {
		r.line = append(r.line, 6, sl, 0)
		r.line = append(r.line, w.scopeObs()...)
	}
	if park {
		// the streams obtained over the direct connection go first, then the connection itself
		for _, sl := range parkSlots {
			r.closeSlot(sl, 1)
		}
		r.endParking()
	}
}

func c07IsRequestless(mode int64) bool {
	f := (mode >> 2) % c07NumFops
	return f == fopCloseWriteRead || f == fopClose
}

//go:build verif

package basichost_test

// C17 host-level harness, external half: a real addrsManager fed by the real
// observedaddrs.Manager (through its exported path: identify events on the
// event bus, Disconnected notifications), with the observed address either
// hidden by an AddrsFactory or dropped from Addrs() because the host is
// Private with a relay address.  After every operation and updateAddrsSync the
// host's views are recorded next to what the manager answers at that moment.
// Wire format: /verif/coq/c17/Spec.v (host case, first token 18).

import (
	"fmt"
	"sync"
	"sync/atomic"
	"testing"
	"time"

	"github.com/libp2p/go-libp2p/core/event"
	"github.com/libp2p/go-libp2p/core/network"
	"github.com/libp2p/go-libp2p/internal/verifh"
	basichost "github.com/libp2p/go-libp2p/p2p/host/basic"
	"github.com/libp2p/go-libp2p/p2p/host/eventbus"
	"github.com/libp2p/go-libp2p/p2p/host/observedaddrs"
	ma "github.com/multiformats/go-multiaddr"
)

type c17hConn struct {
	network.Conn
	local, remote ma.Multiaddr
	closed        atomic.Bool
	dir           network.Direction
}

func (c *c17hConn) LocalMultiaddr() ma.Multiaddr  { return c.local }
func (c *c17hConn) RemoteMultiaddr() ma.Multiaddr { return c.remote }
func (c *c17hConn) IsClosed() bool                { return c.closed.Load() }

// the direction a swarm connection reports: connections with an odd index are
// outbound (dialed from the listen socket), the others inbound
func (c *c17hConn) Stat() network.ConnStats {
	return network.ConnStats{Stats: network.Stats{Direction: c.dir}}
}

type c17hNet struct {
	network.Network
	listen []ma.Multiaddr
	mu     sync.Mutex
	nf     network.Notifiee
}

func (n *c17hNet) ListenAddresses() []ma.Multiaddr { return append([]ma.Multiaddr(nil), n.listen...) }
func (n *c17hNet) InterfaceListenAddresses() ([]ma.Multiaddr, error) {
	return nil, nil
}
func (n *c17hNet) Notify(f network.Notifiee)     { n.mu.Lock(); n.nf = f; n.mu.Unlock() }
func (n *c17hNet) StopNotify(f network.Notifiee) { n.mu.Lock(); n.nf = nil; n.mu.Unlock() }

var (
	c17hMain   = ma.StringCast("/ip4/192.168.1.100/tcp/1")
	c17hMarker = ma.StringCast("/ip4/192.168.1.100/tcp/9")
	c17hRelay  = ma.StringCast("/ip4/9.9.9.9/tcp/1/p2p/QmdXGaeGiVA745XorV1jr11RHxB9z4fqykm6xCUPX1aTJo/p2p-circuit")
	// tracked observed addresses (index = id on the wire) and whether they are public
	c17hX = []ma.Multiaddr{
		ma.StringCast("/ip4/2.2.2.1/tcp/2"), ma.StringCast("/ip4/2.2.2.2/tcp/2"),
		ma.StringCast("/ip4/2.2.2.3/tcp/2"), ma.StringCast("/ip4/192.168.5.5/tcp/2"),
	}
	c17hPub      = []bool{true, true, true, false}
	c17hLoopback = ma.StringCast("/ip4/127.0.0.1/tcp/2")
	c17hZ        = []ma.Multiaddr{ma.StringCast("/ip4/3.3.3.1/tcp/9"), ma.StringCast("/ip4/3.3.3.2/tcp/9")}
)

const c17hThresh = 2

type c17hOp struct{ kind, conn, addr int }

type c17hScript struct {
	mode   int // 1 = Private with relay
	nconn  int
	hidden []bool
	ops    []c17hOp
}

func c17hHas(l []ma.Multiaddr, a ma.Multiaddr) bool {
	for _, x := range l {
		if x.Equal(a) {
			return true
		}
	}
	return false
}

func c17hWait(t *testing.T, what string, f func() bool) {
	deadline := time.Now().Add(10 * time.Second)
	for !f() {
		if time.Now().After(deadline) {
			t.Fatalf("c17 host: timed out waiting for %s", what)
		}
		time.Sleep(20 * time.Microsecond)
	}
}

func c17hExec(t *testing.T, out *verifh.Out, sc *c17hScript) []int64 {
	saved := observedaddrs.ActivationThresh
	observedaddrs.ActivationThresh = c17hThresh
	defer func() { observedaddrs.ActivationThresh = saved }()

	bus := eventbus.NewBus()
	nw := &c17hNet{listen: []ma.Multiaddr{c17hMain, c17hMarker}}
	om, err := observedaddrs.NewManager(bus, nw)
	if err != nil {
		t.Fatal(err)
	}
	om.Start(nw)
	defer om.Close()
	if nw.nf == nil {
		t.Fatal("c17 host: observed address manager did not register a notifiee")
	}
	em, err := bus.Emitter(new(event.EvtPeerIdentificationCompleted))
	if err != nil {
		t.Fatal(err)
	}
	defer em.Close()
	factory := func(addrs []ma.Multiaddr) []ma.Multiaddr {
		var res []ma.Multiaddr
		for _, a := range addrs {
			hide := false
			for i, x := range c17hX {
				if sc.hidden[i] && x.Equal(a) {
					hide = true
				}
			}
			if !hide {
				res = append(res, a)
			}
		}
		return res
	}
	host := basichost.C17NewHost(t, om, nw.ListenAddresses, factory)
	if sc.mode == 1 {
		host.PrivateWithRelay(c17hRelay)
		c17hWait(t, "relay address in Addrs()", func() bool { return c17hHas(host.Addrs(), c17hRelay) })
	}
	conns := make([]*c17hConn, sc.nconn)
	for i := range conns {
		conns[i] = &c17hConn{local: c17hMain, remote: ma.StringCast(fmt.Sprintf("/ip4/1.2.3.%d/tcp/1000", i+1)), dir: network.DirInbound}
		if i%2 == 1 {
			conns[i].dir = network.DirOutbound
		}
	}
	// the manager's worker is asynchronous: after every report a marker report
	// on a separate listen address is sent and awaited (the queue is FIFO)
	marker := &c17hConn{local: c17hMarker, remote: ma.StringCast("/ip4/1.2.9.9/tcp/1000"), dir: network.DirInbound}
	seq := 0
	barrier := func() {
		seq++
		z := c17hZ[seq%2]
		if err := em.Emit(event.EvtPeerIdentificationCompleted{Conn: marker, ObservedAddr: z}); err != nil {
			t.Fatal(err)
		}
		c17hWait(t, "marker observation", func() bool { return c17hHas(om.Addrs(1), z) })
	}
	b2i := func(b bool) int64 {
		if b {
			return 1
		}
		return 0
	}
	line := []int64{18, int64(sc.mode), c17hThresh, int64(sc.nconn), int64(len(c17hX))}
	for i := range c17hX {
		line = append(line, b2i(c17hPub[i]), b2i(sc.hidden[i]))
	}
	prevDirect := make([]bool, len(c17hX))
	for _, op := range sc.ops {
		c := conns[op.conn]
		line = append(line, int64(op.kind), int64(op.conn), int64(op.addr))
		switch op.kind {
		case 1:
			a := c17hLoopback
			if op.addr < len(c17hX) {
				a = c17hX[op.addr]
			}
			if err := em.Emit(event.EvtPeerIdentificationCompleted{Conn: c, ObservedAddr: a}); err != nil {
				t.Fatal(err)
			}
			barrier()
		case 3:
			c.closed.Store(true)
			nw.nf.Disconnected(nw, c)
		}
		// read the manager's answers before and after the host update and the
		// views; retry until they agree, so that the views are compared with an
		// answer that did not move underneath them
		var m0, m1, direct, addrs, hole []ma.Multiaddr
		same := func(a, b []ma.Multiaddr) bool {
			if len(a) != len(b) {
				return false
			}
			for i := range a {
				if !a[i].Equal(b[i]) {
					return false
				}
			}
			return true
		}
		for try := 0; ; try++ {
			m0, m1 = om.AddrsFor(c17hMain), om.Addrs(1)
			host.Update()
			direct, addrs, hole = host.Direct(), host.Addrs(), host.HolePunch()
			if same(m0, om.AddrsFor(c17hMain)) && same(m1, om.Addrs(1)) {
				break
			}
			if try > 1000 {
				t.Fatal("c17 host: the observed address manager's answers do not settle")
			}
			time.Sleep(50 * time.Microsecond)
		}
		for i, x := range c17hX {
			inM0, inD, inA, inH := c17hHas(m0, x), c17hHas(direct, x), c17hHas(addrs, x), c17hHas(hole, x)
			line = append(line, b2i(inM0), b2i(c17hHas(m1, x)), b2i(inD), b2i(inA), b2i(inH))
			if out != nil {
				notDialable := sc.hidden[i] || (sc.mode == 1 && c17hPub[i])
				switch {
				case prevDirect[i] && !inM0 && notDialable:
					out.Cover("host.withdrawn_while_not_in_Addrs")
				case prevDirect[i] && !inM0:
					out.Cover("host.withdrawn_while_in_Addrs")
				case !prevDirect[i] && inM0 && notDialable:
					out.Cover("host.activated_while_not_in_Addrs")
				case !prevDirect[i] && inM0:
					out.Cover("host.activated_while_in_Addrs")
				}
				if inH && !inM0 {
					out.Cover("host.holepunch_by_Addrs1_only")
				}
			}
			prevDirect[i] = inD
		}
	}
	return line
}

func c17hGen(r *verifh.Rand) *c17hScript {
	sc := &c17hScript{mode: r.Intn(2), nconn: 6, hidden: make([]bool, len(c17hX))}
	for i := range sc.hidden {
		sc.hidden[i] = r.Chance(1, 2)
	}
	gone := make([]bool, sc.nconn)
	hot := r.Intn(len(c17hX))
	for len(sc.ops) < 18 {
		c := r.Intn(sc.nconn)
		switch k := r.Intn(10); {
		case k < 5: // build up on the hot address
			sc.ops = append(sc.ops, c17hOp{1, c, hot})
		case k < 6:
			sc.ops = append(sc.ops, c17hOp{1, c, r.Intn(len(c17hX))})
		case k < 8: // the report changes to an address that never counts
			sc.ops = append(sc.ops, c17hOp{1, c, len(c17hX)})
		default:
			if !gone[c] {
				gone[c] = true
				sc.ops = append(sc.ops, c17hOp{3, c, 0})
			}
		}
		if r.Chance(1, 6) {
			hot = r.Intn(len(c17hX))
		}
	}
	return sc
}

func c17hCorpus() []*c17hScript {
	var res []*c17hScript
	for mode := 0; mode < 2; mode++ {
		for _, how := range []int{3, 1} { // withdrawn by disconnects / by unusable re-reports
			sc := &c17hScript{mode: mode, nconn: 3, hidden: []bool{mode == 0, false, false, false}}
			sc.ops = []c17hOp{{1, 0, 0}, {1, 1, 0}, {how, 0, 4}, {how, 1, 4}}
			res = append(res, sc)
		}
	}
	return res
}

func TestVerifC17Host(t *testing.T) {
	out, err := verifh.Open()
	if err != nil {
		t.Fatal(err)
	}
	defer out.Close()
	for _, sc := range c17hCorpus() {
		out.Case(c17hExec(t, out, sc))
		out.Cover("host.cases.corpus")
	}
	r := verifh.NewRand(verifh.Seed() + 17)
	n := 120
	if verifh.Tier() == "thorough" {
		n = 1500
	}
	for i := 0; i < n; i++ {
		out.Case(c17hExec(t, out, c17hGen(r.Fork())))
		out.Cover("host.cases")
	}
}

func TestVerifC17HostReplay(t *testing.T) {
	toks := verifh.ReplayCase()
	if len(toks) < 5 || toks[0] != 18 {
		t.Fatal("VERIF_REPLAY_CASE is not a C17 host case")
	}
	out, err := verifh.Open()
	if err != nil {
		t.Fatal(err)
	}
	defer out.Close()
	nx := int(toks[4])
	sc := &c17hScript{mode: int(toks[1]), nconn: int(toks[3]), hidden: make([]bool, len(c17hX))}
	if nx != len(c17hX) {
		t.Fatal("c17 host replay: universe changed")
	}
	pos := 5
	for i := 0; i < nx; i++ {
		sc.hidden[i] = toks[pos+1] != 0
		pos += 2
	}
	for pos+3+5*nx <= len(toks) {
		sc.ops = append(sc.ops, c17hOp{int(toks[pos]), int(toks[pos+1]), int(toks[pos+2])})
		pos += 3 + 5*nx
	}
	out.Case(c17hExec(t, nil, sc))
}

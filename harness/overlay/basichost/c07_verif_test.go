//go:build verif

package basichost_test

// C07 correspondence harness (injected with `go test -overlay`; not part of
// /repo).  Two real BasicHosts -- over mocknet (no resource manager) and over
// TCP+noise+yamux built with libp2p.New carrying real resource managers --
// exchange streams for generated handler tables, request lists and states of
// the dialer's knowledge.  One case per line in the wire format documented in
// /verif/coq/c07/Spec.v.

import (
	"context"
	"encoding/binary"
	"errors"
	"fmt"
	"io"
	"runtime"
	"sort"
	"strings"
	"sync"
	"testing"
	"time"

	"github.com/libp2p/go-libp2p"
	"github.com/libp2p/go-libp2p/core/host"
	"github.com/libp2p/go-libp2p/core/network"
	"github.com/libp2p/go-libp2p/core/peer"
	"github.com/libp2p/go-libp2p/core/protocol"
	"github.com/libp2p/go-libp2p/internal/verifh"
	bhost "github.com/libp2p/go-libp2p/p2p/host/basic"
	blankhost "github.com/libp2p/go-libp2p/p2p/host/blank"
	rcmgr "github.com/libp2p/go-libp2p/p2p/host/resource-manager"
	"github.com/libp2p/go-libp2p/p2p/muxer/yamux"
	mocknet "github.com/libp2p/go-libp2p/p2p/net/mock"
	"github.com/libp2p/go-libp2p/p2p/protocol/circuitv2/client"
	relayv2 "github.com/libp2p/go-libp2p/p2p/protocol/circuitv2/relay"
	"github.com/libp2p/go-libp2p/p2p/protocol/identify"
	"github.com/libp2p/go-libp2p/p2p/security/noise"
	"github.com/libp2p/go-libp2p/p2p/transport/tcp"
	ma "github.com/multiformats/go-multiaddr"
	msmux "github.com/multiformats/go-multistream"
)

// the protocol universe: overlapping prefixes on purpose
var c07Names = []protocol.ID{
	"/c07/a", "/c07/a/1.0.0", "/c07/a/1.1.0", "/c07/a/2.0.0",
	"/c07/ab", "/c07/b", "/c07/b/1.0.0", "/c07",
}

const c07U = 8

func c07Pid(p protocol.ID) int64 {
	for i, n := range c07Names {
		if n == p {
			return int64(i)
		}
	}
	return -1
}

type c07Inv struct {
	reg, lp, nonce int64 // nonce -1: the handler could not read one
}

type c07World struct {
	// 0 mocknet, 1 tcp+noise+yamux, 2 the same through a circuit-v2 relay (limited connection),
	// 3 mocknet with a BlankHost listener, 4 like 1 with a short negotiation timeout,
	// 5 like 1 (real resource managers, limits) with a BlankHost listener, 6 with a BlankHost dialer
	kind     int64
	negto    time.Duration // the hosts' negotiation timeout when it is short enough to outwait
	blankL   bool
	blankD   bool
	timeouts int // opens that ran into their deadline (a sick world is skipped)
	closeFails int
	closeRequestless bool // the next requestless handler closes its end instead of holding it
	parking  bool // a direct connection exists next to the limited one (only inside the park op)
	parkSick int  // park ops in which an open still within its deadline was not woken
	parkAddr bool // the dialer listens on TCP (so that the listener can dial it directly)
	hasScope bool
	limited  bool
	d, l     host.Host
	rmD, rmL network.ResourceManager
	limD     []int64
	limL     []int64
	closers  []func()

	mu     sync.Mutex
	invs   []c07Inv
	heldL  map[int64]network.Stream // by nonce
	nonce  int64
	nreg   int64
	failed string
}

func (w *c07World) fail(s string) {
	w.mu.Lock()
	if w.failed == "" {
		w.failed = s
	}
	w.mu.Unlock()
}

func c07Limiter(lim []int64, inbound bool) rcmgr.Limiter {
	cfg := rcmgr.PartialLimitConfig{Protocol: map[protocol.ID]rcmgr.ResourceLimits{}, ProtocolPeer: map[protocol.ID]rcmgr.ResourceLimits{}}
	for i, v := range lim {
		if v < 0 {
			continue
		}
		lv := rcmgr.LimitVal(v)
		if v == 0 {
			lv = rcmgr.BlockAllLimit
		}
		if inbound && i%2 == 1 {
			// the limit is the per-peer one; the protocol as a whole has room for one more
			// (with a single remote peer the effective limit is the same)
			cfg.ProtocolPeer[c07Names[i]] = rcmgr.ResourceLimits{StreamsInbound: lv}
			cfg.Protocol[c07Names[i]] = rcmgr.ResourceLimits{StreamsInbound: rcmgr.LimitVal(v + 1)}
		} else if inbound {
			cfg.Protocol[c07Names[i]] = rcmgr.ResourceLimits{StreamsInbound: lv}
		} else {
			cfg.Protocol[c07Names[i]] = rcmgr.ResourceLimits{StreamsOutbound: lv}
		}
	}
	return rcmgr.NewFixedLimiter(cfg.Build(rcmgr.InfiniteLimits))
}

func c07NoLimits() []int64 {
	l := make([]int64, c07U)
	for i := range l {
		l[i] = -1
	}
	return l
}

// c07NewWorld builds the two hosts, switches identify push off on both (the
// dialer's knowledge about the listener is then exactly what the harness
// stores in the peerstore plus what NewStream itself adds) and connects them.
func c07NewWorld(t *testing.T, kind int64, limD, limL []int64) *c07World {
	w := &c07World{kind: kind, limD: limD, limL: limL, heldL: map[int64]network.Stream{}}
	ctx, cancel := context.WithTimeout(context.Background(), 30*time.Second)
	defer cancel()
	switch kind {
	case 0, 3:
		mn := mocknet.New()
		d, err := mn.GenPeer()
		if err != nil {
			t.Fatal(err)
		}
		l, err := mn.GenPeer()
		if err != nil {
			t.Fatal(err)
		}
		if err := mn.LinkAll(); err != nil {
			t.Fatal(err)
		}
		w.d, w.l = d, l
		if kind == 3 {
			// the thinnest host on the listener's network (it takes over the
			// network's stream handler); NullResourceManager as by default
			w.blankL = true
			w.l = blankhost.NewBlankHost(l.Network())
		}
		w.closers = append(w.closers, func() { mn.Close() })
	default:
		var err error
		w.hasScope = true
		w.rmD, err = rcmgr.NewResourceManager(c07Limiter(limD, false))
		if err != nil {
			t.Fatal(err)
		}
		w.rmL, err = rcmgr.NewResourceManager(c07Limiter(limL, true))
		if err != nil {
			t.Fatal(err)
		}
		mk := func(rm network.ResourceManager, listen bool) host.Host {
			opts := []libp2p.Option{
				libp2p.Transport(tcp.NewTCPTransport),
				libp2p.Security(noise.ID, noise.New),
				libp2p.Muxer(yamux.ID, yamux.DefaultTransport),
				libp2p.DisableMetrics(),
			}
			if rm != nil {
				opts = append(opts, libp2p.ResourceManager(rm))
			}
			if listen {
				opts = append(opts, libp2p.ListenAddrStrings("/ip4/127.0.0.1/tcp/0"))
			} else {
				opts = append(opts, libp2p.NoListenAddrs, libp2p.EnableRelay())
			}
			if kind != 2 {
				opts = append(opts, libp2p.DisableRelay())
			}
			h, err := libp2p.New(opts...)
			if err != nil {
				t.Fatal(err)
			}
			return h
		}
		if kind == 1 || kind == 4 || kind == 5 || kind == 6 {
			if kind == 4 {
				// hosts read the package default when they are built
				old := bhost.DefaultNegotiationTimeout
				w.negto = 300 * time.Millisecond
				bhost.DefaultNegotiationTimeout = w.negto
				defer func() { bhost.DefaultNegotiationTimeout = old }()
			}
			w.d, w.l = mk(w.rmD, true), mk(w.rmL, true)
			lh, dh := w.l, w.d
			w.closers = append(w.closers, func() { dh.Close(); lh.Close() })
			if kind == 6 {
				// a BlankHost dialer (NewStream always negotiates) on a network with the real resource manager
				w.blankD = true
				w.d = blankhost.NewBlankHost(dh.Network())
			}
			if kind == 5 {
				// the thinnest host on a network that carries the REAL resource
				// manager (a second SetProtocol on a stream is refused there)
				w.blankL = true
				w.l = blankhost.NewBlankHost(lh.Network())
			}
		} else {
			// the listener is reachable only through a circuit-v2 relay: the
			// dialer's connection to it is a limited one
			w.limited = true
			rh := mk(nil, true)
			if _, err := relayv2.New(rh, relayv2.WithLimit(&relayv2.RelayLimit{Duration: time.Hour, Data: 1 << 32})); err != nil {
				t.Fatal(err)
			}
			w.d, w.l = mk(w.rmD, false), mk(w.rmL, false)
			w.closers = append(w.closers, func() { w.d.Close(); w.l.Close(); rh.Close() })
			ri := peer.AddrInfo{ID: rh.ID(), Addrs: rh.Addrs()}
			if err := w.l.Connect(ctx, ri); err != nil {
				t.Fatal(err)
			}
			if _, err := client.Reserve(ctx, w.l, ri); err != nil {
				t.Fatal(err)
			}
		}
	}
	w.d.RemoveStreamHandler(identify.IDPush)
	w.l.RemoveStreamHandler(identify.IDPush)
	laddrs := w.l.Addrs()
	if w.limited {
		laddrs = nil
		for _, c := range w.l.Network().Conns() {
			a, err := ma.NewMultiaddr(c.RemoteMultiaddr().String() + "/p2p/" + c.RemotePeer().String() + "/p2p-circuit")
			if err != nil {
				t.Fatal(err)
			}
			laddrs = append(laddrs, a)
		}
	}
	if err := w.d.Connect(network.WithAllowLimitedConn(ctx, "c07"), peer.AddrInfo{ID: w.l.ID(), Addrs: laddrs}); err != nil {
		t.Fatal(err)
	}
	if cs := w.d.Network().ConnsToPeer(w.l.ID()); len(cs) != 1 || cs[0].Stat().Limited != w.limited {
		t.Fatalf("connection to the listener: %d conns, limited flag wrong", len(cs))
	}
	w.d.Peerstore().AddAddrs(w.l.ID(), laddrs, time.Hour)
	w.l.Peerstore().AddAddrs(w.d.ID(), w.d.Addrs(), time.Hour)
	w.identifyWait()
	w.quiesce(0, 0)
	return w
}

// identifyWait: both sides' identify on the (single) connection has finished
func (w *c07World) identifyWait() {
	type idw interface {
		IDService() identify.IDService
	}
	for _, c := range w.d.Network().ConnsToPeer(w.l.ID()) {
		if di, ok := w.d.(idw); ok {
			<-di.IDService().IdentifyWait(c)
		}
	}
	// the listener identifies the dialer too; wait until it has (its
	// identify stream is then gone from the connection)
	deadline := time.Now().Add(10 * time.Second)
	for time.Now().Before(deadline) {
		cs := w.l.Network().ConnsToPeer(w.d.ID())
		if len(cs) == 1 {
			if li, ok := w.l.(idw); ok {
				<-li.IDService().IdentifyWait(cs[0])
			}
			break
		}
		time.Sleep(time.Millisecond)
	}
}

func (w *c07World) close() {
	for _, f := range w.closers {
		f()
	}
}

// streamCounts: streams on the connection(s) between the two hosts, per side
func (w *c07World) streamCounts() (nd, nl int, ok bool) {
	cd, cl := w.d.Network().ConnsToPeer(w.l.ID()), w.l.Network().ConnsToPeer(w.d.ID())
	if !w.parking {
		d, l := w.connD(), w.connL()
		if d == nil || l == nil {
			return 0, 0, false
		}
		return len(d.GetStreams()), len(l.GetStreams()), true
	}
	if len(cd) < 1 || len(cd) > 2 || len(cl) < 1 || len(cl) > 2 {
		w.fail(fmt.Sprintf("parking: dialer has %d conns, listener %d", len(cd), len(cl)))
		return 0, 0, false
	}
	for _, c := range cd {
		nd += len(c.GetStreams())
	}
	for _, c := range cl {
		nl += len(c.GetStreams())
	}
	return nd, nl, true
}

func (w *c07World) connD() network.Conn {
	cs := w.d.Network().ConnsToPeer(w.l.ID())
	if len(cs) != 1 {
		w.fail(fmt.Sprintf("dialer has %d conns", len(cs)))
		return nil
	}
	return cs[0]
}

func (w *c07World) connL() network.Conn {
	cs := w.l.Network().ConnsToPeer(w.d.ID())
	if len(cs) != 1 {
		w.fail(fmt.Sprintf("listener has %d conns", len(cs)))
		return nil
	}
	return cs[0]
}

// quiesce waits until both ends of the connection carry exactly the streams
// the harness holds: every stream of a failed negotiation has been reset and
// removed, every handler that was going to run has run.
func (w *c07World) quiesce(heldD, heldL int) {
	deadline := time.Now().Add(8 * time.Second)
	stable := 0
	for {
		cd, cl := w.connD(), w.connL()
		if cd == nil || cl == nil {
			return
		}
		if len(cd.GetStreams()) == heldD && len(cl.GetStreams()) == heldL {
			stable++
			if stable >= 3 {
				return
			}
		} else {
			stable = 0
		}
		if time.Now().After(deadline) {
			w.fail(fmt.Sprintf("quiesce timeout: dialer %d/%d listener %d/%d streams",
				len(cd.GetStreams()), heldD, len(cl.GetStreams()), heldL))
			return
		}
		runtime.Gosched()
		time.Sleep(100 * time.Microsecond)
	}
}

var _ = strings.HasPrefix
var _ = sort.Ints
var _ = errors.Is
var _ = io.EOF
var _ = binary.BigEndian
var _ = msmux.ErrNoProtocols
var _ = verifh.Seed

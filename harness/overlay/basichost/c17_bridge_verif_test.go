//go:build verif

package basichost

// C17 host-level harness, in-package half (injected with `go test -overlay`):
// exports a real addrsManager (built by the package's own test constructor)
// to the external half, which can import p2p/host/observedaddrs (this package
// cannot: observedaddrs imports it).

import (
	"testing"

	"github.com/libp2p/go-libp2p/core/network"
	ma "github.com/multiformats/go-multiaddr"
)

type C17Host struct{ tc addrsManagerTestCase }

func C17NewHost(tb testing.TB, om ObservedAddrsManager, listen func() []ma.Multiaddr, factory AddrsFactory) *C17Host {
	return &C17Host{tc: newAddrsManagerTestCase(tb, addrsManagerArgs{
		ObservedAddrsManager: om, ListenAddrs: listen, AddrsFactory: factory,
	})}
}

// PrivateWithRelay: autonat-v1 says Private and autorelay has a relay address
func (h *C17Host) PrivateWithRelay(relay ma.Multiaddr) {
	h.tc.PushReachability(network.ReachabilityPrivate)
	h.tc.PushRelay([]ma.Multiaddr{relay})
}

func (h *C17Host) Update()                   { h.tc.updateAddrsSync() }
func (h *C17Host) Direct() []ma.Multiaddr    { return h.tc.DirectAddrs() }
func (h *C17Host) Addrs() []ma.Multiaddr     { return h.tc.Addrs() }
func (h *C17Host) HolePunch() []ma.Multiaddr { return h.tc.HolePunchAddrs() }

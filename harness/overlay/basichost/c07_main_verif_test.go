//go:build verif

package basichost_test

import (
	"context"
	"encoding/binary"
	"io"
	"testing"
	"time"

	"github.com/libp2p/go-libp2p/core/network"

	"github.com/libp2p/go-libp2p/core/protocol"
	"github.com/libp2p/go-libp2p/internal/verifh"
)

func TestVerifNothing(t *testing.T) {}

func c07RandReqs(rnd *verifh.Rand, w *c07World, tab []c07Ent, avoidLimited bool) []int64 {
	n := 1 + rnd.Intn(4)
	if rnd.Chance(1, 25) {
		n = 0
	}
	var q []int64
	for len(q) < n {
		var p int64
		if len(tab) > 0 && rnd.Chance(1, 2) {
			e := tab[rnd.Intn(len(tab))]
			if len(e.acc) > 0 && rnd.Chance(2, 3) {
				p = e.acc[rnd.Intn(len(e.acc))]
			} else {
				p = e.name
			}
		} else {
			p = int64(rnd.Intn(c07U))
		}
		if avoidLimited && w.hasLimit(p) {
			if rnd.Chance(1, 8) {
				break
			}
			continue
		}
		q = append(q, p)
	}
	return q
}

// c07Tame: the CloseRead-first variant cannot read an answer and has to wait out a
// failure; keep it for opens the harness's own bookkeeping expects to work
func c07Tame(w *c07World, tab []c07Ent, know []int64, q []int64, mode int64) int64 {
	if f := (mode >> 2) % c07NumFops; f != fopCloseReadWrite && f != fopClose {
		return mode
	}
	var target int64 = -1
	for _, p := range q {
		if c07Has(know, p) {
			target = p
			break
		}
	}
	if target < 0 {
		for _, p := range q {
			if c07FirstMatch(tab, p) != nil {
				target = p
				break
			}
		}
	}
	if target >= 0 && c07FirstMatch(tab, target) != nil && !w.hasLimit(target) && (mode&1 == 1 || !w.limited) {
		return mode
	}
	return mode &^ (7 << 2)
}

// the context of an open: 1 = made with network.WithAllowLimitedConn
func c07Mode(rnd *verifh.Rand, w *c07World, out *verifh.Out, sequential bool) int64 {
	m := c07AllowMode(rnd, w, out)
	// bits 2..4: the dialer's first operations on the stream
	if rnd.Chance(1, 2) {
		fop := int64(1 + rnd.Intn(c07NumFops-1))
		mock := w.kind == 0 || w.kind == 3
		if mock && fop >= fopCloseWriteRead && fop != fopClose {
			// mocknet tears a stream down (and drops it from the connection) on a half-close
			fop -= 3
		}
		if fop == fopClose && (!mock || !sequential || w.closeFails >= 2) {
			// Close-first needs a world whose scope columns are not judged: the
			// dialer's charge is gone before it can be looked at
			fop = fopWriteRead
		}
		if fop == fopCloseWriteRead && !sequential {
			fop = fopWriteCloseWriteRd
		}
		m |= fop << 2
	}
	// bit1: the application goes on exchanging bytes later (costs a sleep of
	// the negotiation timeout in the world where that is short)
	if (w.negto > 0 && rnd.Chance(1, 9)) || (w.negto == 0 && rnd.Chance(1, 4)) {
		m |= 2
	}
	return m
}

func c07AllowMode(rnd *verifh.Rand, w *c07World, out *verifh.Out) int64 {
	if w.limited {
		if rnd.Chance(19, 20) {
			out.Cover("open.limited_conn.allowed")
			return 1
		}
		out.Cover("open.limited_conn.not_allowed")
		return 0
	}
	if rnd.Chance(1, 4) {
		out.Cover("open.direct_conn.allow_flag_set")
		return 1
	}
	return 0
}

func c07Case(out *verifh.Out, w *c07World, rnd *verifh.Rand, nops int) {
	r := &c07Run{w: w, out: out, slots: map[int64]c07Slot{}}
	r.reset()
	r.line = c07Header(w)
	var tab []c07Ent
	var know []int64
	var oldNames [][]int64
	names := func() []int64 {
		var l []int64
		for _, e := range tab {
			l = append(l, e.name)
		}
		return l
	}
	for i := 0; i < nops; i++ {
		c := rnd.Intn(100)
		switch {
		case c < 16:
			oldNames = append(oldNames, names())
			r.addHandler(&tab, int64(rnd.Intn(c07U)), nil, nil)
		case c < 28:
			oldNames = append(oldNames, names())
			name := int64(rnd.Intn(c07U))
			fn := c07MatchFn(rnd.Intn(3), name, rnd)
			r.addHandler(&tab, name, fn, c07Accepts(fn))
		case c < 40:
			oldNames = append(oldNames, names())
			name := int64(rnd.Intn(c07U))
			if len(tab) > 0 && rnd.Chance(3, 4) {
				name = tab[rnd.Intn(len(tab))].name
			}
			r.removeHandler(&tab, name)
		case c < 54:
			switch k := rnd.Intn(10); {
			case k < 2:
				know = nil
				out.Cover("knowledge.unknown")
			case k < 5:
				know = names()
				out.Cover("knowledge.accurate")
			case k < 8 && len(oldNames) > 0:
				know = oldNames[rnd.Intn(len(oldNames))]
				out.Cover("knowledge.stale_snapshot")
			default:
				know = nil
				for p := int64(0); p < c07U; p++ {
					if rnd.Chance(1, 3) {
						know = append(know, p)
					}
				}
				out.Cover("knowledge.arbitrary")
			}
			r.setKnowledge(know)
		case c < 84:
			q := c07RandReqs(rnd, w, tab, false)
			mode := c07Tame(w, tab, know, q, c07Mode(rnd, w, out, true))
			if mode&1 == 1 || !w.limited {
				r.coverOpen(tab, know, q)
			}
			r.batch([][]int64{q}, []int64{mode}, rnd)
			know = r.lastKnow
		case c < 90:
			n := 2 + rnd.Intn(4)
			var qs [][]int64
			var modes []int64
			for j := 0; j < n; j++ {
				qs = append(qs, c07RandReqs(rnd, w, tab, true))
				m := c07Mode(rnd, w, out, false)
				if (m>>2)%c07NumFops == fopCloseReadWrite {
					m &^= 7 << 2 // knowledge moves during a batch: no prediction, no CloseRead-first
				}
				modes = append(modes, m)
			}
			out.Cover("batch.concurrent")
			out.CoverN("batch.concurrent.opens", int64(n))
			r.batch(qs, modes, rnd)
			know = r.lastKnow
		case c < 94 && w.kind == 2:
			// limited vs direct x concurrent opens: opens parked until a direct connection exists
			if w.parkSick >= 3 {
				out.Cover("park.skipped_after_opens_not_woken")
				break
			}
			if len(tab) == 0 || rnd.Chance(1, 4) {
				// scripted prelude: something is served under its own name, without a scope limit
				p := int64(rnd.Intn(c07U))
				for w.hasLimit(p) {
					p = int64(rnd.Intn(c07U))
				}
				oldNames = append(oldNames, names())
				r.addHandler(&tab, p, nil, nil)
			}
			// protocols an open can be expected to get: served, no scope limit in the way
			var clean, unknown []int64
			for p := int64(0); p < c07U; p++ {
				if w.hasLimit(p) {
					continue
				}
				if c07FirstMatch(tab, p) != nil {
					clean = append(clean, p)
				} else if !c07Has(names(), p) {
					unknown = append(unknown, p) // neither served nor advertised
				}
			}
			n := 1 + rnd.Intn(4)
			var qs [][]int64
			var modes []int64
			for j := 0; j < n; j++ {
				q := c07RandReqs(rnd, w, tab, true)
				if len(clean) > 0 && rnd.Chance(4, 5) {
					q = nil
					for k := 1 + rnd.Intn(2); k > 0; k-- {
						q = append(q, clean[rnd.Intn(len(clean))])
					}
					if len(unknown) > 0 && rnd.Chance(1, 3) {
						// the listener turns this proposal down first
						q = append([]int64{unknown[rnd.Intn(len(unknown))]}, q...)
					}
					out.Cover("park.open_with_served_protocol")
				}
				m := int64(rnd.Intn(4)) << 2 // Write/Read orders, SetDeadline first
				if rnd.Chance(1, 3) {
					m |= c07ModeExpires
				}
				qs = append(qs, q)
				modes = append(modes, m)
			}
			if n >= 2 && rnd.Chance(1, 2) {
				// the open parked first gives up, the one parked last does not
				modes[0] |= c07ModeExpires
				modes[n-1] &^= c07ModeExpires
			}
			r.park(qs, modes, rnd)
			know = r.lastKnow
		case c < 94 && w.kind != 2 && !w.blankL && !w.blankD:
			// (the relay world would need a new reservation; a BlankHost listener does not answer identify)
			if rnd.Chance(1, 2) && len(tab) > 0 {
				// scripted prelude: the dialer knows what is served, then a served name goes away
				// and maybe another one appears
				know = names()
				r.setKnowledge(know)
				oldNames = append(oldNames, names())
				r.removeHandler(&tab, tab[rnd.Intn(len(tab))].name)
				if rnd.Chance(2, 3) {
					r.addHandler(&tab, int64(rnd.Intn(c07U)), nil, nil)
				}
				out.Cover("reconnect.after_known_handler_removed")
			}
			wait := int64(rnd.Intn(3) / 2) // mostly racing
			stale := know
			r.reconnect(int64(rnd.Intn(2)), wait)
			know = names()
			if wait == 0 {
				// the very next thing is an open: it must wait for identify, not trust old knowledge
				var q []int64
				for _, p := range stale {
					if len(q) < 2 && rnd.Chance(2, 3) {
						q = append(q, p)
					}
				}
				q = append(q, c07RandReqs(rnd, w, tab, false)...)
				if len(q) > 4 {
					q = q[:4]
				}
				if len(q) > 0 && c07Has(stale, q[0]) && c07FirstMatch(tab, q[0]) == nil {
					out.Cover("reconnect.open_prefers_stale_unserved_id")
				}
				r.coverOpen(tab, know, q)
				r.batch([][]int64{q}, []int64{1}, rnd)
				know = r.lastKnow
			}
		case c < 96 && w.hasScope && len(r.slots) > 0:
			// (without scopes the label is just overwritten: mocknet's own business)
			var slot int64
			for s := range r.slots {
				slot = s
				if rnd.Chance(1, 2) {
					break
				}
			}
			r.relabel(slot, int64(rnd.Intn(2)), int64(rnd.Intn(c07U)))
		default:
			var slot int64 = int64(rnd.Intn(int(r.nslot) + 1))
			for s := range r.slots {
				if rnd.Chance(1, 2) {
					slot = s
					break
				}
			}
			r.closeSlot(slot, int64(rnd.Intn(2)))
		}
	}
	if w.failed != "" {
		out.Comment("harness failure: " + w.failed)
	}
	out.Case(r.line)
	out.Cover("cases")
	r.reset()
}

func c07Worlds(t *testing.T) []*c07World {
	limD := c07NoLimits()
	limL := c07NoLimits()
	limD[2], limD[6] = 1, 0
	limL[1], limL[5], limL[3] = 1, 0, 2
	return []*c07World{
		c07NewWorld(t, 0, c07NoLimits(), c07NoLimits()),
		c07NewWorld(t, 1, c07NoLimits(), c07NoLimits()),
		c07NewWorld(t, 1, limD, limL),
		c07NewWorld(t, 2, limD, limL),
		c07NewWorld(t, 3, c07NoLimits(), c07NoLimits()),
		c07NewWorld(t, 4, c07NoLimits(), c07NoLimits()),
		c07NewWorld(t, 5, limD, limL),
		c07NewWorld(t, 6, limD, limL),
	}
}

func TestVerifC07(t *testing.T) {
	out, err := verifh.Open()
	if err != nil {
		t.Fatal(err)
	}
	defer out.Close()
	rnd := verifh.NewRand(verifh.Seed())
	worlds := c07Worlds(t)
	defer func() {
		for _, w := range worlds {
			w.close()
		}
	}()
	ncases := 600
	if verifh.Tier() == "thorough" {
		ncases = 12000
	}
	for i := 0; i < ncases; i++ {
		w := worlds[i%len(worlds)]
		if w.timeouts >= 5 {
			// opens in this world run into their deadline: the cases recorded so far show it
			out.Cover("world.skipped_after_open_timeouts")
			continue
		}
		c07Case(out, w, rnd, 8+rnd.Intn(22))
		if w.failed != "" {
			t.Fatalf("harness failure in case %d: %s", i, w.failed)
		}
	}
	c07ProbePayloadToken(out, worlds[1])
	c07ProbeBlank(t, out)
}

// TestVerifC07Replay re-executes the operations of one recorded case on
// fresh hosts of the same kind and limits and writes the case with the
// observations it gets now.
func TestVerifC07Replay(t *testing.T) {
	out, err := verifh.Open()
	if err != nil {
		t.Fatal(err)
	}
	defer out.Close()
	in := verifh.ReplayCase()
	if len(in) < 4+2*c07U || in[0] != 7 || in[3] != c07U {
		t.Fatal("no case")
	}
	kind := in[1]
	if in[2]&1 == 1 {
		kind = 1
	}
	if in[2]&2 == 2 {
		kind = 2
	}
	if in[1] >= 3 && in[1] <= 6 {
		kind = in[1]
	}
	w := c07NewWorld(t, kind, append([]int64{}, in[4:4+c07U]...), append([]int64{}, in[4+c07U:4+2*c07U]...))
	defer w.close()
	rnd := verifh.NewRand(verifh.Seed())
	r := &c07Run{w: w, out: out, slots: map[int64]c07Slot{}}
	r.reset()
	r.line = c07Header(w)
	var tab []c07Ent
	i := 4 + 2*c07U
	skipList := func() { i += 1 + int(in[i]) }
	ok := func(n int) bool { return i+n <= len(in) }
	for i < len(in) {
		switch in[i] {
		case 1:
			r.addHandler(&tab, in[i+1], nil, nil)
			i += 2
			skipList()
		case 2:
			m := int(in[i+2])
			acc := append([]int64{}, in[i+3:i+3+m]...)
			r.addHandler(&tab, in[i+1], func(p protocol.ID) bool { return c07Has(acc, c07Pid(p)) }, acc)
			i += 3 + m
			skipList()
		case 3:
			r.removeHandler(&tab, in[i+1])
			i += 2
			skipList()
		case 4:
			m := int(in[i+1])
			r.setKnowledge(append([]int64{}, in[i+2:i+2+m]...))
			i += 2 + m
			skipList()
		case 5:
			n := int(in[i+1])
			i += 2
			var qs [][]int64
			var modes []int64
			for j := 0; j < n && ok(2); j++ {
				modes = append(modes, in[i])
				m := int(in[i+1])
				qs = append(qs, append([]int64{}, in[i+2:i+2+m]...))
				i += 2 + m
			}
			r.batch(qs, modes, rnd)
			i += 8 * n
			i += 1 + 2*int(in[i])
			skipList()
			i += 2 * c07U
		case 9:
			n := int(in[i+1])
			i += 2
			var qs [][]int64
			var modes []int64
			for j := 0; j < n && ok(2); j++ {
				modes = append(modes, in[i])
				m := int(in[i+1])
				qs = append(qs, append([]int64{}, in[i+2:i+2+m]...))
				i += 2 + m
			}
			r.park(qs, modes, rnd)
			skipList()
			i += 8 * n
			i += 1 + 2*int(in[i])
			skipList()
			i += 2 * c07U
			// (the recorded closes of the streams the op obtained follow as ops 6; park has
			// closed them already, closing an absent slot changes nothing)
		case 6:
			r.closeSlot(in[i+1], in[i+2])
			i += 3 + 2*c07U
		case 8:
			r.relabel(in[i+1], in[i+2], in[i+3])
			i += 7
		case 7:
			r.reconnect(in[i+1], in[i+2])
			i += 3
			skipList()
			i += 2 * c07U
		default:
			t.Fatalf("bad op code %d at %d", in[i], i)
		}
	}
	out.Case(r.line)
	r.reset()
}

// c07ProbePayloadToken documents the boundary of the optimistic path (outside
// the property's quantifier, which does not range over payload bytes): the
// dialer believes the listener speaks /c07/a (it does not), opens optimistically
// and writes application bytes that happen to spell a multistream token naming
// a protocol the listener does serve.  The listener answers "na" to /c07/a and
// then reads the payload as the next proposal.  Recorded as coverage counters only.
func c07ProbePayloadToken(out *verifh.Out, w *c07World) {
	r := &c07Run{w: w, out: out, slots: map[int64]c07Slot{}}
	r.reset()
	var tab []c07Ent
	r.addHandler(&tab, 5, nil, nil)
	r.setKnowledge([]int64{0})
	ctx, cancel := context.WithTimeout(context.Background(), 5*time.Second)
	defer cancel()
	s, err := w.d.NewStream(network.WithAllowLimitedConn(ctx, "c07"), w.l.ID(), c07Names[0])
	if err != nil {
		out.Cover("probe.payload_token.open_failed")
		return
	}
	w.nonce++
	tok := append([]byte{byte(len(c07Names[5]) + 1)}, []byte(string(c07Names[5])+"\n")...)
	var buf [9]byte
	binary.BigEndian.PutUint64(buf[1:], uint64(w.nonce))
	s.Write(append(tok, buf[:]...))
	var e [16]byte
	s.SetReadDeadline(time.Now().Add(3 * time.Second))
	if _, err := io.ReadFull(s, e[:]); err != nil {
		out.Cover("probe.payload_token.dialer_first_read_failed")
	} else {
		out.Cover("probe.payload_token.dialer_got_echo")
	}
	s.Reset()
	time.Sleep(50 * time.Millisecond)
	r.settle(map[int64]bool{w.nonce: true})
	w.mu.Lock()
	n := len(w.invs)
	w.invs = nil
	w.mu.Unlock()
	out.CoverN("probe.payload_token.handler_invocations", int64(n))
	out.Cover("probe.payload_token.runs")
	r.reset()
	w.failed = ""
}

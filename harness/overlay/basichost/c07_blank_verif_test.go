//go:build verif

package basichost_test

import (
	"context"
	"encoding/binary"
	"io"
	"testing"
	"time"

	"github.com/libp2p/go-libp2p"
	"github.com/libp2p/go-libp2p/core/host"
	"github.com/libp2p/go-libp2p/core/network"
	"github.com/libp2p/go-libp2p/core/peer"
	"github.com/libp2p/go-libp2p/internal/verifh"
	blankhost "github.com/libp2p/go-libp2p/p2p/host/blank"
	rcmgr "github.com/libp2p/go-libp2p/p2p/host/resource-manager"
	"github.com/libp2p/go-libp2p/p2p/muxer/yamux"
	"github.com/libp2p/go-libp2p/p2p/security/noise"
	"github.com/libp2p/go-libp2p/p2p/transport/tcp"
)

// c07ProbeBlank drives p2p/host/blank (an anchor of the property, not part of
// the modelled op language) in the one situation where it differs from the
// basic host in a way the property can see: a protocol scope that refuses the
// stream.  BlankHost ignores the error of SetProtocol on both the dialing and
// the listening side.  Results are coverage counters (probe.blank.*).
func c07ProbeBlank(t *testing.T, out *verifh.Out) {
	limD, limL := c07NoLimits(), c07NoLimits()
	limD[6] = 0 // the dialer may not open streams for /c07/b/1.0.0
	limL[5] = 0 // the listener may not accept streams for /c07/b
	rmD, err := rcmgr.NewResourceManager(c07Limiter(limD, false))
	if err != nil {
		t.Fatal(err)
	}
	rmL, err := rcmgr.NewResourceManager(c07Limiter(limL, true))
	if err != nil {
		t.Fatal(err)
	}
	mk := func(rm network.ResourceManager) host.Host {
		h, err := libp2p.New(libp2p.ListenAddrStrings("/ip4/127.0.0.1/tcp/0"), libp2p.Transport(tcp.NewTCPTransport),
			libp2p.Security(noise.ID, noise.New), libp2p.Muxer(yamux.ID, yamux.DefaultTransport),
			libp2p.ResourceManager(rm), libp2p.DisableRelay(), libp2p.DisableMetrics())
		if err != nil {
			t.Fatal(err)
		}
		return h
	}
	dh, lh := mk(rmD), mk(rmL)
	defer dh.Close()
	defer lh.Close()
	// blank hosts on top of the same networks (they take over the networks' stream handler)
	bd := blankhost.NewBlankHost(dh.Network())
	bl := blankhost.NewBlankHost(lh.Network())
	type inv struct{ lp int64 }
	ran := make(chan inv, 8)
	h := func(s network.Stream) {
		var buf [9]byte
		if _, err := io.ReadFull(s, buf[:]); err != nil {
			s.Reset()
			return
		}
		ran <- inv{c07Pid(s.Protocol())}
		var e [16]byte
		copy(e[:8], buf[1:])
		binary.BigEndian.PutUint32(e[12:], uint32(int32(c07Pid(s.Protocol()))))
		s.Write(e[:])
	}
	bl.SetStreamHandler(c07Names[5], h)
	bl.SetStreamHandler(c07Names[6], h)
	ctx, cancel := context.WithTimeout(context.Background(), 10*time.Second)
	defer cancel()
	if err := bd.Connect(ctx, peer.AddrInfo{ID: lh.ID(), Addrs: lh.Addrs()}); err != nil {
		t.Fatal(err)
	}
	use := func(s network.Stream) (ok bool, lp int64) {
		var buf [9]byte
		buf[8] = 1
		s.Write(buf[:])
		var e [16]byte
		s.SetReadDeadline(time.Now().Add(3 * time.Second))
		if _, err := io.ReadFull(s, e[:]); err != nil {
			return false, -1
		}
		return true, int64(int32(binary.BigEndian.Uint32(e[12:])))
	}
	stat := func(rm network.ResourceManager, p int64) (in, o int64) {
		rm.ViewProtocol(c07Names[p], func(s network.ProtocolScope) error {
			in, o = int64(s.Stat().NumStreamsInbound), int64(s.Stat().NumStreamsOutbound)
			return nil
		})
		return
	}
	// 1. the listener's scope for /c07/b refuses
	out.Cover("probe.blank.listener_scope_refuses.runs")
	if s, err := bd.NewStream(ctx, lh.ID(), c07Names[5]); err != nil {
		out.Cover("probe.blank.listener_scope_refuses.open_failed")
	} else {
		ok, lp := use(s)
		if ok {
			out.Cover("probe.blank.listener_scope_refuses.handler_ran")
			if lp != 5 {
				out.Cover("probe.blank.listener_scope_refuses.listener_stream_reports_no_protocol")
			}
			in, _ := stat(rmL, 5)
			if in == 0 {
				out.Cover("probe.blank.listener_scope_refuses.listener_scope_not_charged")
			}
		} else {
			out.Cover("probe.blank.listener_scope_refuses.first_use_failed")
		}
		s.Reset()
	}
	// 2. the dialer's scope for /c07/b/1.0.0 refuses
	out.Cover("probe.blank.dialer_scope_refuses.runs")
	if s, err := bd.NewStream(ctx, lh.ID(), c07Names[6]); err != nil {
		out.Cover("probe.blank.dialer_scope_refuses.open_failed")
	} else {
		out.Cover("probe.blank.dialer_scope_refuses.stream_returned")
		if s.Protocol() == "" {
			out.Cover("probe.blank.dialer_scope_refuses.dialer_stream_reports_no_protocol")
		}
		if ok, lp := use(s); ok && lp == 6 {
			out.Cover("probe.blank.dialer_scope_refuses.handler_ran_on_negotiated_protocol")
		}
		if _, o := stat(rmD, 6); o == 0 {
			out.Cover("probe.blank.dialer_scope_refuses.dialer_scope_not_charged")
		}
		s.Reset()
	}
}

// TestVerifC07Probes runs only the two probes (no cases).
func TestVerifC07Probes(t *testing.T) {
	out, err := verifh.Open()
	if err != nil {
		t.Fatal(err)
	}
	defer out.Close()
	w := c07NewWorld(t, 1, c07NoLimits(), c07NoLimits())
	defer w.close()
	c07ProbePayloadToken(out, w)
	c07ProbeBlank(t, out)
}

//go:build verif

package basichost_test

import (
	"context"
	"encoding/binary"
	"io"
	"os"
	"strconv"
	"strings"
	"testing"
	"time"

	"github.com/libp2p/go-libp2p"
	"github.com/libp2p/go-libp2p/core/host"
	"github.com/libp2p/go-libp2p/core/network"
	"github.com/libp2p/go-libp2p/core/peer"
	"github.com/libp2p/go-libp2p/internal/verifh"
	blankhost "github.com/libp2p/go-libp2p/p2p/host/blank"
	rcmgr "github.com/libp2p/go-libp2p/p2p/host/resource-manager"
	"github.com/libp2p/go-libp2p/p2p/muxer/yamux"
	"github.com/libp2p/go-libp2p/p2p/security/noise"
	"github.com/libp2p/go-libp2p/p2p/transport/tcp"
)

// c07ProbeBlank drives p2p/host/blank (an anchor of the property, not part of
// the modelled op language) in the one situation where it differs from the
// basic host in a way the property can see: a protocol scope that refuses the
// stream.  BlankHost ignores the error of SetProtocol on both the dialing and
// the listening side.  Results are coverage counters (probe.blank.*).
func c07ProbeBlank(t *testing.T, out *verifh.Out) {
	limD, limL := c07NoLimits(), c07NoLimits()
	limD[6] = 0 // the dialer may not open streams for /c07/b/1.0.0
	limL[5] = 0 // the listener may not accept streams for /c07/b
	rmD, err := rcmgr.NewResourceManager(c07Limiter(limD, false))
	if err != nil {
		t.Fatal(err)
	}
	rmL, err := rcmgr.NewResourceManager(c07Limiter(limL, true))
	if err != nil {
		t.Fatal(err)
	}
	mk := func(rm network.ResourceManager) host.Host {
		h, err := libp2p.New(libp2p.ListenAddrStrings("/ip4/127.0.0.1/tcp/0"), libp2p.Transport(tcp.NewTCPTransport),
			libp2p.Security(noise.ID, noise.New), libp2p.Muxer(yamux.ID, yamux.DefaultTransport),
			libp2p.ResourceManager(rm), libp2p.DisableRelay(), libp2p.DisableMetrics())
		if err != nil {
			t.Fatal(err)
		}
		return h
	}
	dh, lh := mk(rmD), mk(rmL)
	defer dh.Close()
	defer lh.Close()
	// blank hosts on top of the same networks (they take over the networks' stream handler)
	bd := blankhost.NewBlankHost(dh.Network())
	bl := blankhost.NewBlankHost(lh.Network())
	var ninv [c07U]int64
	var hlp [c07U]int64
	h := func(s network.Stream) {
		var buf [9]byte
		if _, err := io.ReadFull(s, buf[:]); err != nil {
			s.Reset()
			return
		}
		// each of the two handlers is the first registration of its case line: reg 0
		which := int64(buf[8])
		ninv[which]++
		hlp[which] = c07Pid(s.Protocol())
		var e [16]byte
		copy(e[:8], buf[1:])
		binary.BigEndian.PutUint32(e[12:], uint32(int32(c07Pid(s.Protocol()))))
		s.Write(e[:])
	}
	ctx, cancel := context.WithTimeout(context.Background(), 10*time.Second)
	defer cancel()
	if err := bd.Connect(ctx, peer.AddrInfo{ID: lh.ID(), Addrs: lh.Addrs()}); err != nil {
		t.Fatal(err)
	}
	scope := func() []int64 {
		res := make([]int64, 2*c07U)
		for i, n := range c07Names {
			rmD.ViewProtocol(n, func(s network.ProtocolScope) error { res[i] = int64(s.Stat().NumStreamsOutbound); return nil })
			rmL.ViewProtocol(n, func(s network.ProtocolScope) error { res[c07U+i] = int64(s.Stat().NumStreamsInbound); return nil })
		}
		return res
	}
	var lines [][]int64
	// one case line per situation, in the wire format of Spec.v (kind 9 = the blank-host probe):
	//   SetStreamHandler(p) on the listener; one open for [p]
	run := func(name string, p int64) {
		out.Cover("probe.blank." + name + ".runs")
		bl.SetStreamHandler(c07Names[p], h)
		line := []int64{7, 9, 1, c07U}
		line = append(line, limD...)
		line = append(line, limL...)
		line = append(line, 1, p, 1, p)
		line = append(line, 5, 1, 0, 1, p)
		var res, dp, use, eh, lp int64 = 0, -1, -1, -1, -1
		s, err := bd.NewStream(ctx, lh.ID(), c07Names[p])
		if err != nil {
			res = 1
			out.Cover("probe.blank." + name + ".open_failed")
		} else {
			out.Cover("probe.blank." + name + ".stream_returned")
			dp = c07Pid(s.Protocol())
			var buf [9]byte
			buf[8] = byte(p)
			s.Write(buf[:])
			var e [16]byte
			s.SetReadDeadline(time.Now().Add(3 * time.Second))
			if _, err := io.ReadFull(s, e[:]); err != nil {
				use = 0
				out.Cover("probe.blank." + name + ".first_use_failed")
			} else {
				use, eh = 1, 0
				lp = int64(int32(binary.BigEndian.Uint32(e[12:])))
				out.Cover("probe.blank." + name + ".handler_ran")
			}
		}
		if s != nil && use != 1 {
			// like the generated histories: a stream whose first use failed is reset by the
			// application before the scopes are looked at (whether NewStream itself already
			// failed depends on the listener's reset racing its acknowledgement)
			s.Reset()
			s = nil
		}
		time.Sleep(20 * time.Millisecond)
		var hreg, hl int64 = -1, -1
		if ninv[p] > 0 {
			hreg, hl = 0, hlp[p]
		}
		line = append(line, res, dp, use, eh, lp, ninv[p], hreg, hl, 0)
		if ps, _ := bd.Peerstore().GetProtocols(lh.ID()); len(ps) > 0 && c07Pid(ps[0]) >= 0 {
			line = append(line, 1, c07Pid(ps[0]))
		} else {
			line = append(line, 0)
		}
		sc := scope()
		line = append(line, sc...)
		if res == 0 && dp != p {
			out.Cover("probe.blank." + name + ".dialer_stream_reports_no_protocol")
		}
		if use == 1 && lp != p {
			out.Cover("probe.blank." + name + ".listener_stream_reports_no_protocol")
		}
		if use == 1 && (sc[p] == 0 || sc[c07U+p] == 0) {
			out.Cover("probe.blank." + name + ".a_scope_not_charged")
		}
		if s != nil {
			s.Reset()
		}
		bd.Peerstore().SetProtocols(lh.ID())
		bl.RemoveStreamHandler(c07Names[p])
		lines = append(lines, line)
	}
	run("listener_scope_refuses", 5)
	run("dialer_scope_refuses", 6)
	var sb strings.Builder
	for _, l := range lines {
		for i, v := range l {
			if i > 0 {
				sb.WriteByte(' ')
			}
			sb.WriteString(strconv.FormatInt(v, 10))
		}
		sb.WriteByte('\n')
	}
	os.WriteFile(os.Getenv("VERIF_OUT")+".probe", []byte(sb.String()), 0o644)
}

// TestVerifC07Probes runs only the two probes (no cases).
func TestVerifC07Probes(t *testing.T) {
	out, err := verifh.Open()
	if err != nil {
		t.Fatal(err)
	}
	defer out.Close()
	w := c07NewWorld(t, 1, c07NoLimits(), c07NoLimits())
	defer w.close()
	c07ProbePayloadToken(out, w)
	c07ProbeBlank(t, out)
}

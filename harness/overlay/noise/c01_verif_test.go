//go:build verif

// C01 correspondence harness, Noise part (injected with `go test -overlay`; not
// part of /repo).  Real noise.Transport / SessionTransport pairs run the
// handshake over an in-memory network with a message-aware man in the middle;
// a cooperating malicious endpoint (driving flynn/noise directly) presents
// forged handshake payloads.  One case per line in the wire format of
// /verif/coq/c01/Spec.v.
package noise

import (
	"context"
	"crypto/rand"
	"encoding/binary"
	"errors"
	"io"
	"net"
	"strings"
	"sync"
	"testing"

	fnoise "github.com/flynn/noise"
	"google.golang.org/protobuf/proto"

	"github.com/libp2p/go-libp2p/core/crypto"
	"github.com/libp2p/go-libp2p/core/peer"
	"github.com/libp2p/go-libp2p/core/sec"
	w01 "github.com/libp2p/go-libp2p/internal/verifc01"
	"github.com/libp2p/go-libp2p/internal/verifh"
	"github.com/libp2p/go-libp2p/p2p/security/noise/pb"
)

// identity keys: [key type][name-1], names 1 = A, 2 = B, 3 = E
var c01Keys [4][3]crypto.PrivKey
var c01IDs [4][3]peer.ID

func c01GenKeys(t *testing.T, types []int) {
	kt := []int{crypto.Ed25519, crypto.ECDSA, crypto.Secp256k1, crypto.RSA}
	for _, ti := range types {
		for n := 0; n < 3; n++ {
			if c01Keys[ti][n] != nil {
				continue
			}
			bits := 0
			if kt[ti] == crypto.RSA {
				bits = 2048
			}
			sk, _, err := crypto.GenerateKeyPair(kt[ti], bits)
			if err != nil {
				t.Fatal(err)
			}
			id, err := peer.IDFromPrivateKey(sk)
			if err != nil {
				t.Fatal(err)
			}
			c01Keys[ti][n], c01IDs[ti][n] = sk, id
		}
	}
}

// name number of a peer ID among the keys of type kt (0 = "", 9 = unknown)
func c01Name(kt int, id peer.ID) int64 {
	if id == "" {
		return 0
	}
	for n := 0; n < 3; n++ {
		if c01IDs[kt][n] == id {
			return int64(n + 1)
		}
	}
	return 9
}

const (
	clsOK = iota
	clsPeerID
	clsSig
	clsKey
	clsCrypt
	clsIO
	clsUnobserved = 9
)

func c01Classify(err error) int64 {
	if err == nil {
		return clsOK
	}
	var mm sec.ErrPeerIDMismatch
	if errors.As(err, &mm) {
		return clsPeerID
	}
	s := err.Error()
	switch {
	case strings.Contains(s, "handshake signature invalid"), strings.Contains(s, "error verifying signature"):
		return clsSig
	case strings.HasPrefix(s, "error reading handshake message"):
		if errors.Is(err, io.EOF) || errors.Is(err, io.ErrUnexpectedEOF) || errors.Is(err, io.ErrClosedPipe) {
			return clsIO
		}
		return clsCrypt
	case strings.HasPrefix(s, "error sending handshake message"):
		return clsIO
	case strings.HasPrefix(s, "panic"):
		return 8
	}
	return clsKey
}

// ---- the cooperating malicious endpoint -------------------------------------
// It runs Noise XX with flynn/noise directly and puts whatever mk returns into
// its handshake payload; it validates nothing.
func c01Evil(c net.Conn, initiator bool, prologue []byte, mk func(static []byte) []byte, early func(static []byte) []byte) error {
	return c01EvilCapture(c, initiator, prologue, mk, nil, early)
}

// recorded signatures of honest peers: [key type][name-1], harvested from a real
// session in which the honest peer (as responder) talked to the malicious endpoint
var c01Recorded [4][3][]byte
var c01RecordedMu sync.Mutex

func c01RecordedSig(kt, name int) []byte {
	c01RecordedMu.Lock()
	defer c01RecordedMu.Unlock()
	if c01Recorded[kt][name-1] != nil {
		return c01Recorded[kt][name-1]
	}
	w := w01.NewWorld()
	a, b := w.Pipe("evil", "victim")
	w.Add(2)
	var captured []byte
	done := make(chan struct{})
	go func() {
		defer close(done)
		defer w.Done()
		tpt, err := New(ID, c01Keys[kt][name-1], nil)
		if err == nil {
			tpt.SecureInbound(context.Background(), b, "")
		}
	}()
	c01EvilCapture(a, true, nil, func(static []byte) []byte { return c01ForgedPayload(kt, 3, 3, 0, static) }, &captured, nil)
	w.Done()
	<-done
	nhp := new(pb.NoiseHandshakePayload)
	if err := proto.Unmarshal(captured, nhp); err == nil {
		c01Recorded[kt][name-1] = nhp.GetIdentitySig()
	}
	return c01Recorded[kt][name-1]
}

// early (initiator only): what it puts into message 1, where an honest endpoint sends no payload
func c01EvilCapture(c net.Conn, initiator bool, prologue []byte, mk func(static []byte) []byte, capture *[]byte, early func(static []byte) []byte) error {
	kp, err := fnoise.DH25519.GenerateKeypair(rand.Reader)
	if err != nil {
		return err
	}
	hs, err := fnoise.NewHandshakeState(fnoise.Config{CipherSuite: cipherSuite, Pattern: fnoise.HandshakeXX,
		Initiator: initiator, StaticKeypair: kp, Prologue: prologue})
	if err != nil {
		return err
	}
	send := func(p []byte) error {
		b, _, _, err := hs.WriteMessage(make([]byte, 2), p)
		if err != nil {
			return err
		}
		binary.BigEndian.PutUint16(b, uint16(len(b)-2))
		_, err = c.Write(b)
		return err
	}
	recv := func() error {
		var l [2]byte
		if _, err := io.ReadFull(c, l[:]); err != nil {
			return err
		}
		buf := make([]byte, binary.BigEndian.Uint16(l[:]))
		if _, err := io.ReadFull(c, buf); err != nil {
			return err
		}
		pt, _, _, err := hs.ReadMessage(nil, buf)
		if err == nil && capture != nil && len(pt) > 0 {
			*capture = pt
		}
		return err
	}
	if initiator {
		var m1 []byte
		if early != nil {
			m1 = early(kp.Public)
		}
		if err := send(m1); err != nil {
			return err
		}
		if err := recv(); err != nil {
			return err
		}
		return send(mk(kp.Public))
	}
	if err := recv(); err != nil {
		return err
	}
	if err := send(mk(kp.Public)); err != nil {
		return err
	}
	return recv()
}

// forged payload: claim 1..3 key of that name (type kt), 4 junk, 5 empty (field omitted), 10*v+k key k re-encoded non-canonically;
// signer 1..3 (that key signs), 4 junk, 5 empty; sm 0 prefix++static, 1 prefix++another static, 2 static only
// claim 6: the WHOLE payload is zero-length (plain Noise XX, no libp2p payload); 7: bytes that are not a protobuf message
func c01ForgedPayload(kt int, claim, signer, sm int, static []byte) []byte {
	var keyBytes, sig []byte
	switch claim {
	case 6:
		return nil
	case 7:
		return []byte{0x0a, 0x7f, 0x01, 0x02} // field 1, length 127, two bytes follow
	case 1, 2, 3:
		keyBytes, _ = crypto.MarshalPublicKey(c01Keys[kt][claim-1].GetPublic())
	case 4:
		keyBytes = []byte{0xff, 0xff, 0xff, 0xff, 0x0f, 0x01, 0x02, 0x03}
	}
	if claim >= 10 {
		// key claim%10 in a valid but non-canonical protobuf serialization: the canonical form is
		// 08 <type> 12 <len> <data>
		canon, _ := crypto.MarshalPublicKey(c01Keys[kt][claim%10-1].GetPublic())
		switch claim / 10 {
		case 1: // an unknown field (number 15, varint 7) appended
			keyBytes = append(append([]byte{}, canon...), 0x78, 0x07)
		case 2: // the two fields in the other order
			keyBytes = append(append([]byte{}, canon[2:]...), canon[:2]...)
		default: // the Type varint in non-minimal form
			keyBytes = append([]byte{0x08, 0x80 | canon[1], 0x00}, canon[2:]...)
		}
	}
	switch signer {
	case 1, 2, 3:
		var msg []byte
		switch sm {
		case 0:
			msg = append([]byte(payloadSigPrefix), static...)
		case 1:
			if signer != 3 {
				// a signature the honest peer made in another session (over that session's static key)
				sig = c01RecordedSig(kt, signer)
				msg = nil
				break
			}
			other := make([]byte, 32)
			rand.Read(other)
			msg = append([]byte(payloadSigPrefix), other...)
		default:
			msg = append([]byte{}, static...)
		}
		if sig == nil {
			sig, _ = c01Keys[kt][signer-1].Sign(msg)
		}
	case 4:
		sig = make([]byte, 64)
		rand.Read(sig)
	}
	b, _ := proto.Marshal(&pb.NoiseHandshakePayload{IdentityKey: keyBytes, IdentitySig: sig,
		Extensions: &pb.NoiseExtensions{StreamMuxers: []string{"/yamux/1.0.0"}}})
	return b
}

// ---- the man in the middle -----------------------------------------------------
type c01Edit struct {
	op   int // 0 none 1 flip 2 truncate 3 extend 4 drop 5 duplicate 6 splice
	msg  int // 1..3
	pos  int // flip: position in the framed message (0, 1 = length prefix)
	mask byte
	k    int // truncate / extend: number of bytes
	L    int // truncate with k == 0: cut the body to L bytes
}

// the symbolic edit that was actually applied (Spec.v: ek em ea eb epos)
type c01Sym struct{ ek, em, ea, eb, pos int64 }

// component boundaries of the handshake messages (the last component takes the rest)
func c01Bounds(msg int) []int {
	switch msg {
	case 1:
		return []int{32}
	case 2:
		return []int{32, 80}
	}
	return []int{48}
}

func c01CompOf(msg, off int) int {
	c := 0
	for _, b := range c01Bounds(msg) {
		if off >= b {
			c++
		}
	}
	return c
}

// a body cut to L bytes: number of whole components kept, and whether a partial one follows
func c01TruncSym(msg, L int) (int64, int64) {
	keep, cum := 0, 0
	for _, b := range c01Bounds(msg) {
		if L >= b {
			keep++
			cum = b
		}
	}
	if L > cum {
		return int64(keep), 1
	}
	return int64(keep), 0
}

type c01Splice struct {
	slot [2][]byte
	have [2]bool
}

func c01ReadFrame(src io.Reader) ([]byte, error) {
	var l [2]byte
	if _, err := io.ReadFull(src, l[:]); err != nil {
		return nil, err
	}
	n := int(binary.BigEndian.Uint16(l[:]))
	f := make([]byte, 2+n)
	copy(f, l[:])
	if _, err := io.ReadFull(src, f[2:]); err != nil {
		return nil, err
	}
	return f, nil
}

func c01Frame(body []byte) []byte {
	f := make([]byte, 2+len(body))
	binary.BigEndian.PutUint16(f, uint16(len(body)))
	copy(f[2:], body)
	return f
}

// forwards length-prefixed messages src -> dst; msgs[i] is the handshake message
// number of the i-th message in this direction
func c01Proxy(w *w01.World, src, dst *w01.Conn, msgs []int, e c01Edit, sym *c01Sym, sp *c01Splice, sess int, lens *[4]int) {
	defer w.Done()
	for i := 0; ; i++ {
		f, err := c01ReadFrame(src)
		if err != nil {
			dst.CloseWrite()
			return
		}
		mi := 0
		if i < len(msgs) {
			mi = msgs[i]
			if lens != nil {
				lens[mi] = len(f)
			}
		}
		out := [][]byte{f}
		if e.op != 0 && mi == e.msg {
			body := f[2:]
			switch e.op {
			case 1:
				g := append([]byte{}, f...)
				pos := e.pos
				if pos >= len(g) {
					pos = len(g) - 1
				}
				g[pos] ^= e.mask
				out = [][]byte{g}
				if pos >= 2 {
					*sym = c01Sym{1, int64(mi), int64(c01CompOf(mi, pos-2)), 0, int64(pos)}
				} else {
					nl := int(binary.BigEndian.Uint16(g[:2]))
					if nl > len(body) {
						*sym = c01Sym{5, int64(mi), 0, 0, int64(pos)}
					} else {
						a, b := c01TruncSym(mi, nl)
						*sym = c01Sym{2, int64(mi), a, b, int64(pos)}
					}
				}
			case 2:
				k := e.k
				if k == 0 {
					k = len(body) - e.L
					if k < 1 {
						k = 1
					}
				}
				if k > len(body) {
					k = len(body)
				}
				out = [][]byte{c01Frame(body[:len(body)-k])}
				a, b := c01TruncSym(mi, len(body)-k)
				*sym = c01Sym{2, int64(mi), a, b, int64(k)}
			case 3:
				extra := make([]byte, e.k)
				rand.Read(extra)
				out = [][]byte{c01Frame(append(append([]byte{}, body...), extra...))}
				*sym = c01Sym{3, int64(mi), 0, 0, int64(e.k)}
			case 4:
				out = nil
				*sym = c01Sym{4, int64(mi), 0, 0, 0}
			case 5:
				out = [][]byte{f, f}
				*sym = c01Sym{6, int64(mi), 0, 0, 0}
			case 6:
				w.Locked(func() { sp.slot[sess], sp.have[sess] = f, true })
				if !w.WaitFor(func() bool { return sp.have[1-sess] }) {
					dst.CloseWrite()
					return
				}
				out = [][]byte{sp.slot[1-sess]}
			}
		}
		for _, o := range out {
			if _, err := dst.Write(o); err != nil {
				src.Close()
				return
			}
		}
	}
}

// ---- one case ----------------------------------------------------------------------
type c01Side struct{ id, sess, dis, exp, pro int }

type c01Case struct {
	kt      [2]int
	sd      [2]c01Side // 0 initiator, 1 responder
	e       c01Edit
	// key type of the identity a side names as expected peer: 0 = the remote endpoint's key type, 1..4 = key type
	// xkt-1 (the named identity is then E of that type), 5 = a string that is not a well-formed peer ID
	xkt     [2]int
	forge   bool
	fearly  bool // the forging initiator also puts a payload (own key, good signature) into message 1
	finit   bool
	fclaim  int
	fsigner int
	fsm     int
	// a panic inside one endpoint's runHandshake
	fault  bool
	pinit  bool
	pstage int // 0 the pidx-th Write on the insecure conn, 1 the pidx-th Read, 2 early-data Send, 3 Received
	pidx   int
}

// a connection whose k-th Write (or Read) panics
type c01PanicConn struct {
	net.Conn
	stage, idx   int
	nread, nwrit int
}

func (c *c01PanicConn) Read(b []byte) (int, error) {
	k := c.nread
	c.nread++
	if c.stage == 1 && k == c.idx {
		panic("c01: injected fault in Read")
	}
	return c.Conn.Read(b)
}

func (c *c01PanicConn) Write(b []byte) (int, error) {
	k := c.nwrit
	c.nwrit++
	if c.stage == 0 && k == c.idx {
		panic("c01: injected fault in Write")
	}
	return c.Conn.Write(b)
}

// an early-data handler that panics in Send (stage 2) or Received (stage 3)
type c01PanicEDH struct{ stage int }

func (h c01PanicEDH) Send(context.Context, net.Conn, peer.ID) *pb.NoiseExtensions {
	if h.stage == 2 {
		panic("c01: injected fault in the early data handler's Send")
	}
	return nil
}

func (h c01PanicEDH) Received(context.Context, net.Conn, *pb.NoiseExtensions) error {
	if h.stage == 3 {
		panic("c01: injected fault in the early data handler's Received")
	}
	return nil
}

var c01Prologues = [][]byte{nil, []byte("c01-prologue-one"), []byte("c01-prologue-two")}

type c01Obs struct{ cls, rid, rkid int64 }

// runs the real handshake of one endpoint
func c01Endpoint(c *c01Case, role int, conn net.Conn) c01Obs {
	sd := c.sd[role]
	kt, okt := c.kt[role], c.kt[1-role]
	tpt, err := New(ID, c01Keys[kt][sd.id-1], nil)
	if err != nil {
		return c01Obs{8, 0, 0}
	}
	var exp peer.ID
	if sd.exp != 0 {
		switch x := c.xkt[role]; {
		case x == 0:
			exp = c01IDs[okt][sd.exp-1]
		case x <= 4:
			exp = c01IDs[x-1][sd.exp-1]
		default:
			exp = peer.ID("c01-not-a-peer-id")
		}
	}
	faulty := c.fault && c.pinit == (role == 0)
	if faulty && c.pstage <= 1 {
		conn = &c01PanicConn{Conn: conn, stage: c.pstage, idx: c.pidx}
	}
	var st sec.SecureTransport = tpt
	if sd.sess != 0 {
		var opts []SessionOption
		if faulty && c.pstage >= 2 {
			h := c01PanicEDH{c.pstage}
			if role == 0 {
				opts = append(opts, EarlyData(h, nil))
			} else {
				opts = append(opts, EarlyData(nil, h))
			}
		}
		if sd.pro != 0 {
			opts = append(opts, Prologue(c01Prologues[sd.pro]))
		}
		if sd.dis != 0 {
			opts = append(opts, DisablePeerIDCheck())
		}
		st, _ = tpt.WithSessionOptions(opts...)
	}
	var sc sec.SecureConn
	if role == 0 {
		sc, err = st.SecureOutbound(context.Background(), conn, exp)
	} else {
		sc, err = st.SecureInbound(context.Background(), conn, exp)
	}
	o := c01Obs{cls: c01Classify(err)}
	if err == nil {
		o.rid = c01Name(okt, sc.RemotePeer())
		if k := sc.RemotePublicKey(); k != nil {
			if id, e2 := peer.IDFromPublicKey(k); e2 == nil {
				o.rkid = c01Name(okt, id)
			}
		}
	}
	return o
}

func c01Run(c *c01Case, lens *[4]int) ([]int64, bool) {
	w := w01.NewWorld()
	nsess := 1
	if c.e.op == 6 {
		nsess = 2
	}
	sp := &c01Splice{}
	var sym c01Sym
	if c.e.op == 6 {
		sym = c01Sym{7, int64(c.e.msg), 0, 0, 0}
	}
	obs := make([][2]c01Obs, nsess)
	var wg sync.WaitGroup
	w.Add(4 * nsess)
	for s := 0; s < nsess; s++ {
		ci, pi := w.Pipe("I", "pI")
		pr, cr := w.Pipe("pR", "R")
		sy := &sym
		if s == 1 {
			sy = &c01Sym{}
		}
		ln := lens
		if s == 1 {
			ln = nil
		}
		go c01Proxy(w, pi, pr, []int{1, 3}, c.e, sy, sp, s, ln)
		go c01Proxy(w, pr, pi, []int{2}, c.e, sy, sp, s, ln)
		for role := 0; role < 2; role++ {
			wg.Add(1)
			go func(s, role int, conn *w01.Conn) {
				defer wg.Done()
				defer w.Done()
				if c.forge && c.finit == (role == 0) {
					kt := c.kt[role]
					var early func(static []byte) []byte
					if c.fearly && role == 0 {
						early = func(static []byte) []byte { return c01ForgedPayload(kt, 3, 3, 0, static) }
					}
					c01Evil(conn, role == 0, c01Prologues[c.sd[role].pro], func(static []byte) []byte {
						return c01ForgedPayload(kt, c.fclaim, c.fsigner, c.fsm, static)
					}, early)
					obs[s][role] = c01Obs{clsUnobserved, 0, 0}
					return
				}
				obs[s][role] = c01Endpoint(c, role, conn)
			}(s, role, []*w01.Conn{ci, cr}[role])
		}
	}
	wg.Wait()
	b2i := func(b bool) int64 {
		if b {
			return 1
		}
		return 0
	}
	line := []int64{1, int64(c.kt[0] + 10*c.xkt[0]), int64(c.kt[1] + 10*c.xkt[1])}
	for r := 0; r < 2; r++ {
		sd := c.sd[r]
		line = append(line, int64(sd.id), int64(sd.sess), int64(sd.dis), int64(sd.exp), int64(sd.pro))
	}
	line = append(line, sym.ek, sym.em, sym.ea, sym.eb, sym.pos)
	fk := b2i(c.forge)
	if c.forge && c.fearly {
		fk = 2
	}
	line = append(line, fk, b2i(c.finit), int64(c.fclaim), int64(c.fsigner), int64(c.fsm))
	line = append(line, b2i(c.fault), b2i(c.pinit), int64(c.pstage), int64(c.pidx))
	line = append(line, int64(nsess))
	for s := 0; s < nsess; s++ {
		for r := 0; r < 2; r++ {
			line = append(line, obs[s][r].cls, obs[s][r].rid, obs[s][r].rkid)
		}
	}
	return line, w.Tripped
}

// ---- generators ------------------------------------------------------------------------
// every well-formed honest side with identity `self`
func c01AllSides(self int) []c01Side {
	var r []c01Side
	for exp := 0; exp <= 3; exp++ {
		r = append(r, c01Side{self, 0, 0, exp, 0})
		for dis := 0; dis <= 1; dis++ {
			for pro := 0; pro <= 2; pro++ {
				r = append(r, c01Side{self, 1, dis, exp, pro})
			}
		}
	}
	return r
}

// setting: 0 matching, 1 different, 2 empty, 3 check disabled (naming the wrong peer)
func c01SettingSide(self, other, setting, pro int, rnd *verifh.Rand) c01Side {
	sd := c01Side{id: self, pro: pro}
	switch setting {
	case 0:
		sd.exp = other
	case 1:
		sd.exp = 3
	case 2:
		sd.exp = 0
	case 3:
		sd.exp, sd.dis = 3, 1
		if rnd.Bool() {
			sd.exp = other
		}
	}
	if pro != 0 || sd.dis != 0 || rnd.Bool() {
		sd.sess = 1
	}
	return sd
}

var c01ProPairs = [][2]int{{0, 0}, {1, 1}, {1, 2}, {0, 1}, {1, 0}}

func c01StructuralEdits(lens [4]int) []c01Edit {
	var r []c01Edit
	for m := 1; m <= 3; m++ {
		n := lens[m] - 2 // body length
		bs := append([]int{0}, c01Bounds(m)...)
		for ci, b := range bs {
			end := n
			if ci+1 < len(bs) {
				end = bs[ci+1]
			}
			if end > b {
				r = append(r, c01Edit{op: 1, msg: m, pos: 2 + b + (end-b)/2, mask: 0x10})
				r = append(r, c01Edit{op: 1, msg: m, pos: 2 + end - 1, mask: 0x01})
			}
			// cut exactly at the component boundary, and one byte into the component
			if b < n {
				r = append(r, c01Edit{op: 2, msg: m, L: b}, c01Edit{op: 2, msg: m, L: b + 1})
			}
		}
		r = append(r, c01Edit{op: 1, msg: m, pos: 0, mask: 0x40}) // length prefix enlarged
		for _, k := range []int{1, 16, 17} {
			if k <= n {
				r = append(r, c01Edit{op: 2, msg: m, k: k})
			}
		}
		r = append(r, c01Edit{op: 3, msg: m, k: 1}, c01Edit{op: 3, msg: m, k: 16})
		r = append(r, c01Edit{op: 4, msg: m}, c01Edit{op: 5, msg: m}, c01Edit{op: 6, msg: m})
	}
	return r
}

func c01Generate(t *testing.T, rnd *verifh.Rand, types []int, thorough bool) []c01Case {
	var cases []c01Case
	for _, ktI := range types {
		for _, ktR := range types {
			kt := [2]int{ktI, ktR}
			var lens [4]int
			c01Run(&c01Case{kt: kt, sd: [2]c01Side{{1, 0, 0, 2, 0}, {2, 0, 0, 0, 0}}}, &lens)
			if lens[1] == 0 || lens[2] == 0 || lens[3] == 0 {
				t.Fatalf("honest handshake did not complete for key types %v: lens %v", kt, lens)
			}
			// (A) every configuration pair, undisturbed
			for _, si := range c01AllSides(1) {
				for _, sr := range c01AllSides(2) {
					cases = append(cases, c01Case{kt: kt, sd: [2]c01Side{si, sr}})
				}
			}
			// (B) structural edits x expected-peer settings x prologue pairings
			edits := c01StructuralEdits(lens)
			for _, pp := range c01ProPairs {
				for setI := 0; setI < 4; setI++ {
					for setR := 0; setR < 4; setR++ {
						for _, e := range edits {
							if !thorough && ktI != 0 && ktR != 0 && rnd.Intn(3) != 0 {
								continue
							}
							cases = append(cases, c01Case{kt: kt, e: e, sd: [2]c01Side{
								c01SettingSide(1, 2, setI, pp[0], rnd), c01SettingSide(2, 1, setR, pp[1], rnd)}})
						}
					}
				}
			}
			// (C) every byte position of every handshake message flipped
			for m := 1; m <= 3; m++ {
				for pos := 0; pos < lens[m]+1; pos++ { // +1: ECDSA signatures vary in length
					masks := []byte{1 << uint(rnd.Intn(8))}
					if thorough {
						masks = append(masks, 0x80, 0x01)
					} else if (ktI != 0 || ktR != 0) && pos >= 2 && rnd.Intn(6) != 0 {
						continue
					}
					for _, mask := range masks {
						sd := [2]c01Side{{1, 0, 0, 2, 0}, {2, 0, 0, 1, 0}}
						if rnd.Bool() {
							sd = [2]c01Side{{1, 1, 1, 0, 1}, {2, 1, rnd.Intn(2), 0, 1}}
						}
						cases = append(cases, c01Case{kt: kt, sd: sd, e: c01Edit{op: 1, msg: m, pos: pos, mask: mask}})
					}
				}
			}
			// (D) forged payloads from a cooperating malicious endpoint
			for finit := 0; finit < 2; finit++ {
				victim, vrole := 1, 0 // the honest endpoint
				if finit == 1 {
					victim, vrole = 2, 1
				}
				// claim, signer, signed message, early (a payload also in message 1; forging initiator only)
				var forgeries [][4]int
				for _, claim := range []int{1, 2, 3, 4, 5, 13, 23, 33, 11, 22, 31} {
					for _, sg := range [][2]int{{3, 0}, {3, 1}, {3, 2}, {1, 1}, {2, 1}, {4, 0}, {5, 0}} {
						forgeries = append(forgeries, [4]int{claim, sg[0], sg[1], 0})
					}
				}
				// payload fields omitted by a remote that otherwise completes Noise XX correctly: the WHOLE payload
				// zero-length (6) or not a protobuf message (7) in its message 2 / message 3, next to key omitted (5),
				// signature omitted (signer 5) and both omitted with only the extensions present (above)
				forgeries = append(forgeries, [4]int{6, 5, 0, 0}, [4]int{6, 3, 0, 0}, [4]int{7, 5, 0, 0}, [4]int{7, 4, 0, 0})
				if finit == 1 {
					// ... and the inverse for message 1 (honestly empty): a valid payload already there, then in
					// message 3 the same again (harmless: completes as E) / nothing / key and signature omitted /
					// somebody else's key / junk
					forgeries = append(forgeries, [4]int{3, 3, 0, 1}, [4]int{6, 5, 0, 1}, [4]int{5, 5, 0, 1}, [4]int{7, 5, 0, 1},
						[4]int{2, 3, 0, 1}, [4]int{3, 5, 0, 1}, [4]int{5, 3, 0, 1})
				}
				{
					for _, fg := range forgeries {
						claim, sg, early := fg[0], [2]int{fg[1], fg[2]}, fg[3] != 0
						for setting := 0; setting < 4; setting++ {
							for _, pro := range []int{0, 1} {
								hs := c01Side{id: victim, pro: pro}
								ck := claim % 10 // the key that is claimed, if any
								switch setting {
								case 0: // expects whoever is claimed (or B/A when nothing valid is claimed)
									hs.exp = ck
									if ck > 3 {
										hs.exp = 3 - victim
									}
								case 1:
									hs.exp = 1 + ck%3
								case 2:
									hs.exp = 0
								case 3:
									hs.exp, hs.dis = ck%4, 1
								}
								if pro != 0 || hs.dis != 0 || rnd.Bool() {
									hs.sess = 1
								}
								fs := c01Side{id: 3, sess: 1, dis: 1, exp: 0, pro: pro}
								c := c01Case{kt: kt, forge: true, finit: finit == 1, fclaim: claim, fsigner: sg[0], fsm: sg[1], fearly: early}
								c.sd[vrole], c.sd[1-vrole] = hs, fs
								cases = append(cases, c)
							}
						}
					}
				}
			}
			// (E) a panic inside runHandshake: the k-th Write / Read on the insecure connection, the early-data
			// handler's Send / Received, in either endpoint, with and without an expected peer
			for pinit := 0; pinit < 2; pinit++ {
				for _, st := range [][2]int{{0, 0}, {0, 1}, {1, 0}, {1, 1}, {2, 0}, {3, 0}} {
					for setting := 0; setting < 4; setting++ {
						for otherSetting := 0; otherSetting < 3; otherSetting += 2 {
							for _, pro := range []int{0, 1} {
								sd := [2]c01Side{c01SettingSide(1, 2, otherSetting, pro, rnd), c01SettingSide(2, 1, otherSetting, pro, rnd)}
								frole := 1 - pinit
								sd[frole] = c01SettingSide(1+frole, 2-frole, setting, pro, rnd)
								if st[0] >= 2 {
									sd[frole].sess = 1
								}
								cases = append(cases, c01Case{kt: kt, sd: sd, fault: true, pinit: pinit == 1, pstage: st[0], pidx: st[1]})
							}
						}
					}
				}
			}
		}
	}
	return cases
}

// (F) the key type of the NAMED identity x the key type of the identity that answers, for all four key
// types on both counts and in both roles (always all 16 x 4, whatever the tier): an ID that embeds its key
// (Ed25519, Secp256k1), one that is the hash of its key (ECDSA, RSA), and a string that is no peer ID at
// all are named while somebody else answers; the handshake must fail on the naming side.  Controls: the
// answering peer itself is named; the check is disabled.
func c01GenerateKeyTypeCross(rnd *verifh.Rand) []c01Case {
	var cases []c01Case
	for ktI := 0; ktI < 4; ktI++ {
		for ktR := 0; ktR < 4; ktR++ {
			for role := 0; role < 2; role++ { // the side that names a peer
				self, other := 1+role, 2-role
				mk := func(sess, dis, exp, x int) c01Case {
					c := c01Case{kt: [2]int{ktI, ktR}}
					c.sd[role] = c01Side{id: self, sess: sess, dis: dis, exp: exp}
					c.sd[1-role] = c01Side{id: other, sess: rnd.Intn(2)}
					if role == 1 {
						c.sd[0].exp = 2 // the initiator names the responder (a plain Transport refuses "")
					}
					c.xkt[role] = x
					return c
				}
				for sess := 0; sess < 2; sess++ {
					cases = append(cases, mk(sess, 0, other, 0))
					for x := 1; x <= 5; x++ {
						cases = append(cases, mk(sess, 0, 3, x))
					}
				}
				cases = append(cases, mk(1, 1, 3, 1+rnd.Intn(5)))
			}
		}
	}
	return cases
}

// ---- tests ---------------------------------------------------------------------------------
func TestVerifNothing(t *testing.T) {}

func c01Types() ([]int, bool) {
	if verifh.Tier() == "thorough" {
		return []int{0, 1, 2, 3}, true
	}
	return []int{0, 1 + int(verifh.Seed()%3)}, false
}

func TestVerifC01Noise(t *testing.T) {
	out, err := verifh.Open()
	if err != nil {
		t.Fatal(err)
	}
	defer out.Close()
	types, thorough := c01Types()
	c01GenKeys(t, []int{0, 1, 2, 3})
	rnd := verifh.NewRand(verifh.Seed())
	cases := c01Generate(t, rnd, types, thorough)
	cases = append(cases, c01GenerateKeyTypeCross(rnd)...)
	lines := make([][]int64, len(cases))
	tripped := make([]bool, len(cases))
	var wg sync.WaitGroup
	next := make(chan int, 64)
	for wk := 0; wk < 8; wk++ {
		wg.Add(1)
		go func() {
			defer wg.Done()
			for i := range next {
				lines[i], tripped[i] = c01Run(&cases[i], nil)
			}
		}()
	}
	for i := range cases {
		next <- i
	}
	close(next)
	wg.Wait()
	for _, kt := range types {
		for name := 1; name <= 2; name++ {
			if len(c01RecordedSig(kt, name)) > 0 {
				out.Cover("noise_recorded_signature_harvested")
			} else {
				t.Fatalf("could not harvest a signature of peer %d (key type %d) from a real session", name, kt)
			}
		}
	}
	ekName := []string{"none", "junk", "truncate", "extend", "drop", "grow", "duplicate", "splice"}
	clsName := map[int64]string{0: "completed", 1: "peerid_mismatch", 2: "bad_signature", 3: "bad_key_or_payload", 4: "noise_read_failed", 5: "io", 8: "panic_or_setup", 9: "unobserved"}
	for i, l := range lines {
		out.Case(l)
		out.Cover("noise_cases")
		out.Cover("noise_edit_" + ekName[l[13]])
		if l[13] != 0 {
			out.Cover("noise_edit_msg" + string(rune('0'+l[14])))
		}
		if cases[i].forge {
			out.Cover("noise_forged_payload")
			switch cases[i].fclaim {
			case 6:
				out.Cover("noise_forged_payload_zero_length_msg" + []string{"2", "3"}[l[19]])
			case 7:
				out.Cover("noise_forged_payload_not_protobuf")
			}
			if cases[i].fearly {
				out.Cover("noise_forged_payload_also_in_msg1")
			}
		}
		for r := 0; r < 2; r++ {
			if x := cases[i].xkt[r]; x != 0 {
				xn := []string{"", "ed25519", "ecdsa", "secp256k1", "rsa", "malformed"}[x]
				out.Cover("noise_named_" + xn + "_answered_by_" + []string{"ed25519", "ecdsa", "secp256k1", "rsa"}[cases[i].kt[1-r]] + []string{"_outbound", "_inbound"}[r])
			}
		}
		if tripped[i] {
			out.Cover("noise_stalled_network_closed")
		}
		out.Cover("noise_keytypes_" + string(rune('0'+l[1]%10)) + string(rune('0'+l[2]%10)))
		if cases[i].fault {
			out.Cover("noise_panic_" + []string{"conn_write", "conn_read", "earlydata_send", "earlydata_received"}[cases[i].pstage])
		}
		for j := 28; j+2 < len(l); j += 3 {
			out.Cover("noise_outcome_" + clsName[l[j]])
		}
		if cases[i].sd[0].pro != cases[i].sd[1].pro {
			out.Cover("noise_prologue_differs")
		}
	}
}

func TestVerifC01NoiseReplay(t *testing.T) {
	out, err := verifh.Open()
	if err != nil {
		t.Fatal(err)
	}
	defer out.Close()
	l := verifh.ReplayCase()
	if len(l) < 28 || l[0] != 1 {
		t.Skip("not a noise case")
	}
	c := c01Case{kt: [2]int{int(l[1] % 10), int(l[2] % 10)}, xkt: [2]int{int(l[1] / 10), int(l[2] / 10)}}
	need := []int{c.kt[0], c.kt[1]}
	for r := 0; r < 2; r++ {
		if x := c.xkt[r]; x >= 1 && x <= 4 {
			need = append(need, x-1)
		}
	}
	c01GenKeys(t, need)
	for r := 0; r < 2; r++ {
		b := 3 + 5*r
		c.sd[r] = c01Side{int(l[b]), int(l[b+1]), int(l[b+2]), int(l[b+3]), int(l[b+4])}
	}
	ek, em, ea, eb, pos := int(l[13]), int(l[14]), int(l[15]), int(l[16]), int(l[17])
	switch ek {
	case 1:
		c.e = c01Edit{op: 1, msg: em, pos: pos, mask: 0x01}
	case 2:
		L := 0
		if ea > 0 {
			L = c01Bounds(em)[ea-1]
		}
		c.e = c01Edit{op: 2, msg: em, L: L + eb}
	case 3:
		c.e = c01Edit{op: 3, msg: em, k: 1}
	case 4:
		c.e = c01Edit{op: 4, msg: em}
	case 5:
		c.e = c01Edit{op: 1, msg: em, pos: 0, mask: 0x40}
	case 6:
		c.e = c01Edit{op: 5, msg: em}
	case 7:
		c.e = c01Edit{op: 6, msg: em}
	}
	c.forge, c.finit, c.fclaim, c.fsigner, c.fsm = l[18] != 0, l[19] != 0, int(l[20]), int(l[21]), int(l[22])
	c.fearly = l[18] == 2
	c.fault, c.pinit, c.pstage, c.pidx = l[23] != 0, l[24] != 0, int(l[25]), int(l[26])
	line, _ := c01Run(&c, nil)
	out.Case(line)
}

//go:build verif

// C02 correspondence harness for the Noise secure channel (injected with
// `go test -overlay`; not part of /repo).  A writer and a reader run the REAL
// noise transport over an in-memory connection with a frame-aware proxy in
// the middle that can alter / truncate / drop / duplicate / swap transport
// frames; the reader's raw connection returns short reads.  One case per line
// in the wire format of /verif/coq/c02/Spec.v.
package noise_test

import (
	"bytes"
	"context"
	"crypto/rand"
	"encoding/binary"
	"errors"
	"fmt"
	"io"
	"net"
	"sync"
	"testing"
	"time"

	"github.com/libp2p/go-libp2p/core/crypto"
	"github.com/libp2p/go-libp2p/core/peer"
	"github.com/libp2p/go-libp2p/core/sec"
	"github.com/libp2p/go-libp2p/internal/verifh"
	noise "github.com/libp2p/go-libp2p/p2p/security/noise"
)

const (
	ekNone = iota
	ekAlter
	ekTrunc
	ekDrop
	ekDup
	ekSwap
)

// the written stream: pseudo-random, so that a shifted or repeated chunk never
// compares equal
var c02Stream []byte

func c02Init() {
	if c02Stream != nil {
		return
	}
	c02Stream = make([]byte, 1<<20)
	r := verifh.NewRand(0xC02)
	for i := 0; i+8 <= len(c02Stream); i += 8 {
		binary.LittleEndian.PutUint64(c02Stream[i:], r.Uint64())
	}
}

// shortConn returns at most pat[i] bytes on its i-th Read (cyclic)
type shortConn struct {
	net.Conn
	pat []int
	i   int
}

func (s *shortConn) Read(b []byte) (int, error) {
	if len(s.pat) > 0 && len(b) > 0 {
		k := s.pat[s.i%len(s.pat)]
		s.i++
		if k > 0 && k < len(b) {
			b = b[:k]
		}
	}
	return s.Conn.Read(b)
}

type c02Edit struct {
	kind, idx int
	where     int // for alter: 0 first ct byte, 1 last, 2 middle, 3 length prefix; for trunc: bytes removed
	// set by the proxy when the bytes that slide into a truncated frame happen to
	// equal the removed ones (1/256 for a 1-byte truncation): the frame is then
	// intact on the wire and the case says nothing about truncation
	coincidence *bool
}

// proxy forwards length-prefixed messages from src to dst; the first `skip`
// messages (the handshake) untouched, then transport frame `idx` edited
func c02Proxy(src, dst net.Conn, skip int, e c02Edit, wg *sync.WaitGroup) {
	defer wg.Done()
	defer dst.Close()
	readFrame := func() ([]byte, error) {
		var l [2]byte
		if _, err := io.ReadFull(src, l[:]); err != nil {
			return nil, err
		}
		n := int(binary.BigEndian.Uint16(l[:]))
		f := make([]byte, 2+n)
		copy(f, l[:])
		if _, err := io.ReadFull(src, f[2:]); err != nil {
			return nil, err
		}
		return f, nil
	}
	for i := 0; i < skip; i++ {
		f, err := readFrame()
		if err != nil {
			return
		}
		if _, err := dst.Write(f); err != nil {
			return
		}
	}
	var held []byte // for swap
	var cut []byte  // the bytes removed by a truncation, to detect coincidences
	for i := 0; ; i++ {
		f, err := readFrame()
		if err != nil {
			if held != nil {
				dst.Write(held)
			}
			return
		}
		out := [][]byte{f}
		if cut != nil {
			k := len(cut)
			if k > len(f) {
				k = len(f)
			}
			if e.coincidence != nil && bytes.Equal(cut[:k], f[:k]) {
				*e.coincidence = true
			}
			cut = nil
		}
		if e.kind != ekNone && i == e.idx {
			switch e.kind {
			case ekAlter:
				g := append([]byte{}, f...)
				pos := 2
				switch e.where {
				case 1:
					pos = len(g) - 1
				case 2:
					pos = 2 + (len(g)-2)/2
				case 3:
					pos = 1
				}
				g[pos] ^= 0x40
				out = [][]byte{g}
			case ekTrunc:
				k := e.where
				if k < 1 {
					k = 1
				}
				// keep at least one body byte: a stream cut exactly after a length
				// prefix reads as a clean io.EOF (io.ReadFull), i.e. like a dropped
				// frame followed by close, which the drop edit already covers
				if k > len(f)-3 {
					k = len(f) - 3
				}
				out = [][]byte{f[:len(f)-k]}
				cut = append([]byte{}, f[len(f)-k:]...)
			case ekDrop:
				out = nil
			case ekDup:
				out = [][]byte{f, f}
			case ekSwap:
				held = f
				out = nil
			}
		} else if e.kind == ekSwap && i == e.idx+1 && held != nil {
			out = [][]byte{f, held}
			held = nil
		}
		for _, o := range out {
			if _, err := dst.Write(o); err != nil {
				return
			}
		}
	}
}

type c02World struct {
	initTpt, respTpt *noise.Transport
	initID, respID   peer.ID
}

func c02MkWorld(t *testing.T) *c02World {
	mk := func() (*noise.Transport, peer.ID) {
		priv, _, err := crypto.GenerateEd25519Key(rand.Reader)
		if err != nil {
			t.Fatal(err)
		}
		id, _ := peer.IDFromPrivateKey(priv)
		tp, err := noise.New(noise.ID, priv, nil)
		if err != nil {
			t.Fatal(err)
		}
		return tp, id
	}
	w := &c02World{}
	w.initTpt, w.initID = mk()
	w.respTpt, w.respID = mk()
	return w
}

// one case: the initiator writes `wlens`, the responder reads with `blens`
// (cyclic) until EOF / errors.  writerIsInit chooses the direction.
// after a few failed handshakes the point is made: further cases are skipped so
// that a broken tree does not cost one deadline per case
var c02HandshakeFailures int

func (w *c02World) run(out *verifh.Out, wlens []int, blens []int, e c02Edit, short []int, writerIsInit bool) {
	if c02HandshakeFailures >= 5 {
		out.Cover("noise.cases_skipped_after_handshake_failures")
		return
	}
	// writer <-> a1 | a2 <-> proxy <-> b1 | b2 <-> reader
	a1, a2 := net.Pipe()
	b1, b2 := net.Pipe()
	dl := time.Now().Add(20 * time.Second)
	hdl := time.Now().Add(5 * time.Second) // the handshake is three small messages
	for _, c := range []net.Conn{a1, a2, b1, b2} {
		c.SetDeadline(hdl)
	}
	var wg sync.WaitGroup
	wg.Add(2)
	// handshake messages in the writer->reader direction: initiator sends msg1 and msg3 (2),
	// responder sends msg2 (1)
	skip := 1
	if writerIsInit {
		skip = 2
	}
	go c02Proxy(a2, b1, skip, e, &wg)
	go func() { // reader -> writer direction: raw copy
		defer wg.Done()
		io.Copy(a2, b1)
	}()
	var wc, rc sec.SecureConn
	var werr, rerr error
	var hs sync.WaitGroup
	hs.Add(2)
	rraw := &shortConn{Conn: b2, pat: short}
	go func() {
		defer hs.Done()
		if writerIsInit {
			wc, werr = w.initTpt.SecureOutbound(context.Background(), a1, w.respID)
		} else {
			wc, werr = w.respTpt.SecureInbound(context.Background(), a1, "")
		}
	}()
	go func() {
		defer hs.Done()
		if writerIsInit {
			rc, rerr = w.respTpt.SecureInbound(context.Background(), rraw, "")
		} else {
			rc, rerr = w.initTpt.SecureOutbound(context.Background(), rraw, w.respID)
		}
	}()
	hs.Wait()
	for _, c := range []net.Conn{a1, a2, b1, b2} {
		c.SetDeadline(dl)
	}
	if werr != nil || rerr != nil {
		c02HandshakeFailures++
		// the proxy never touches the handshake messages and short reads are legal: a handshake
		// that fails here means the written bytes are never delivered.  Recorded as a case whose
		// first Read fails.
		out.Comment(fmt.Sprintf("handshake failed: %v %v", werr, rerr))
		out.Cover("noise.handshake_failed")
		a1.Close()
		b2.Close()
		a2.Close()
		b1.Close()
		wg.Wait()
		hl := []int64{1, 0, int64(len(wlens))}
		if !writerIsInit {
			hl[1] = 1
		}
		for _, l := range wlens {
			hl = append(hl, int64(l))
		}
		hl = append(hl, 0, 0, 1, 1, int64(blens[0]), 2, 0, 1)
		out.Case(hl)
		return
	}
	total := 0
	for _, l := range wlens {
		total += l
	}
	go func() {
		off := 0
		for _, l := range wlens {
			if _, err := wc.Write(c02Stream[off : off+l]); err != nil {
				break
			}
			off += l
		}
		wc.Close()
	}()
	line := []int64{1, 0, int64(len(wlens))}
	if !writerIsInit {
		line[1] = 1
	}
	for _, l := range wlens {
		line = append(line, int64(l))
	}
	line = append(line, int64(e.kind), int64(e.idx), 1)
	var reads []int64
	delivered, errs := 0, 0
	maxbuf := 0
	for _, b := range blens {
		if b > maxbuf {
			maxbuf = b
		}
	}
	buf := make([]byte, maxbuf)
	for i := 0; i < 400000; i++ {
		bl := blens[i%len(blens)]
		n, err := rc.Read(buf[:bl])
		res, ok := int64(0), int64(1)
		if n > 0 {
			if delivered+n > len(c02Stream) || !bytes.Equal(buf[:n], c02Stream[delivered:delivered+n]) {
				ok = 0
			}
			delivered += n
		}
		if err != nil {
			res = 2
			if errors.Is(err, io.EOF) {
				res = 1
			}
			if n > 0 {
				// data together with an error: record the data first
				reads = append(reads, int64(bl), 0, int64(n), ok)
				n, ok = 0, 1
			}
		}
		reads = append(reads, int64(bl), res, int64(n), ok)
		if res == 1 {
			break
		}
		if res == 2 {
			errs++
			if e.kind == ekTrunc || (e.kind == ekAlter && e.where == 3) || e.kind == ekNone || errs >= 3 {
				break
			}
		}
	}
	rc.Close()
	a1.Close()
	a2.Close()
	b1.Close()
	b2.Close()
	wg.Wait()
	line = append(line, int64(len(reads)/4))
	line = append(line, reads...)
	if e.coincidence != nil && *e.coincidence {
		out.Cover("noise.truncation_coincidence_skipped")
		return
	}
	out.Case(line)
	out.Cover(fmt.Sprintf("noise.cases.edit%d", e.kind))
	if delivered == total {
		out.Cover("noise.delivered_everything")
	}
	if errs > 0 {
		out.Cover("noise.reader_saw_error")
	}
}

func c02Frames(wlens []int) int {
	f := 0
	for _, l := range wlens {
		f += (l + 65518) / 65519
	}
	return f
}

func TestVerifC02Noise(t *testing.T) {
	out, err := verifh.Open()
	if err != nil {
		t.Fatal(err)
	}
	defer out.Close()
	c02Init()
	thorough := verifh.Tier() == "thorough"
	r := verifh.NewRand(verifh.Seed())
	w := c02MkWorld(t)

	boundary := []int{0, 1, 2, 15, 16, 17, 65518, 65519, 65520, 65534, 65535, 65536, 131037, 131038, 131039, 3*65519 + 1}
	bufsBig := []int{2, 15, 16, 17, 1000, 65518, 65519, 65520, 65534, 65535, 65536, 70000}
	shorts := [][]int{nil, {1}, {2, 3, 5}, {1, 65535}, {7, 1, 4096}}

	// 1. every boundary length as a single write x every buffer size (cyclic single size)
	for _, l := range boundary {
		for _, b := range bufsBig {
			if b < 100 && l > 70000 {
				continue // hundreds of thousands of reads: covered with smaller payloads
			}
			w.run(out, []int{l}, []int{b}, c02Edit{}, shorts[r.Intn(len(shorts))], r.Bool())
			out.Cover("noise.single_write_boundary")
		}
	}
	// 1-byte buffers on payloads around small sizes and just over a frame boundary is too
	// slow; use a mixed pattern instead: 1,1,1,... then large
	for _, l := range []int{1, 17, 300, 65519 + 3} {
		w.run(out, []int{l}, []int{1, 1, 1, 1, 1, 1, 1, 1, 70000}, c02Edit{}, shorts[1], true)
	}
	// 2. splits of a payload into <= 4 writes at sampled cut points, mixed buffer patterns
	n2 := 60
	if thorough {
		n2 = 1500
	}
	for i := 0; i < n2; i++ {
		nw := 1 + r.Intn(4)
		wl := make([]int, nw)
		for j := range wl {
			switch r.Intn(5) {
			case 0:
				wl[j] = boundary[r.Intn(len(boundary))]
			case 1:
				wl[j] = r.Intn(40)
			case 2:
				wl[j] = 65519*(1+r.Intn(2)) + r.Intn(5) - 2
			default:
				wl[j] = r.Intn(140000)
			}
		}
		nb := 1 + r.Intn(4)
		bl := make([]int, nb)
		for j := range bl {
			switch r.Intn(4) {
			case 0:
				bl[j] = bufsBig[r.Intn(len(bufsBig))]
			case 1:
				bl[j] = 200 + r.Intn(3000)
			default:
				bl[j] = 1 + r.Intn(140000)
			}
		}
		w.run(out, wl, bl, c02Edit{}, shorts[r.Intn(len(shorts))], r.Bool())
		out.Cover("noise.random_splits")
	}
	// 3. tampering: for each frame of a multi-frame payload, each edit
	payloads := [][]int{{100, 65519, 20}, {3*65519 + 1}, {10, 10, 10, 10}, {65520, 5}}
	if thorough {
		payloads = append(payloads, []int{131038, 1, 70000}, []int{1, 1}, []int{65519, 65519})
	}
	for _, wl := range payloads {
		f := c02Frames(wl)
		for idx := 0; idx < f; idx++ {
			for _, where := range []int{0, 1, 2, 3} {
				w.run(out, wl, []int{70000}, c02Edit{kind: ekAlter, idx: idx, where: where}, nil, r.Bool())
			}
			for _, k := range []int{1, 16, 17} {
				w.run(out, wl, []int{4096, 70000}, c02Edit{kind: ekTrunc, idx: idx, where: k, coincidence: new(bool)}, nil, r.Bool())
			}
			w.run(out, wl, []int{70000}, c02Edit{kind: ekDrop, idx: idx}, nil, r.Bool())
			w.run(out, wl, []int{70000, 33}, c02Edit{kind: ekDup, idx: idx}, nil, r.Bool())
			if idx+1 < f {
				w.run(out, wl, []int{70000}, c02Edit{kind: ekSwap, idx: idx}, nil, r.Bool())
			}
		}
	}
	// 4. re-chunked delivery (untampered): the raw byte stream writer -> reader is cut into
	// Reads that ignore message boundaries; in particular handshake message 3 and the
	// initiator's first transport frame(s) arrive in ONE Read of the responder's raw conn
	t4 := time.Now()
	defer func() { t.Logf("re-chunked delivery section: %v", time.Since(t4)) }()
	firstWrites := [][]int{{1}, {5}, {1000}, {65519}, {65520}, {2*65519 + 10}, {1, 65520, 7}, {100, 100, 100}}
	for _, wl := range firstWrites {
		tot := 0
		for _, l := range wl {
			tot += l
		}
		for _, relAfterFirst := range []bool{false, true} {
			b := bufsBig[r.Intn(len(bufsBig))]
			if b < 100 && tot > 70000 {
				b = 1000
			}
			w.runRechunk(out, wl, []int{b}, nil, nil, relAfterFirst, true)
			out.Cover("noise.rechunk_corked")
		}
		w.runRechunk(out, wl, []int{70000}, nil, nil, false, false)
	}
	// the first released chunk ends d bytes after the end of handshake message 3
	for _, d := range []int{-1, 0, 1, 2, 3, 18, 19} {
		d := d
		wl := firstWrites[r.Intn(len(firstWrites))]
		w.runRechunk(out, wl, []int{70000, 1 + r.Intn(3000)}, c02ChunkPattern(r), &d, r.Bool(), true)
		out.Cover("noise.rechunk_boundary_delta")
	}
	n4 := 24
	if thorough {
		n4 = 600
	}
	for i := 0; i < n4; i++ {
		nw := 1 + r.Intn(3)
		wl := make([]int, nw)
		for j := range wl {
			switch r.Intn(5) {
			case 0:
				wl[j] = 1 + r.Intn(40)
			case 1:
				wl[j] = 65519*(1+r.Intn(2)) + r.Intn(5) - 2
			case 2:
				wl[j] = 1 + r.Intn(140000)
			default:
				wl[j] = 1 + r.Intn(5000)
			}
		}
		nb := 1 + r.Intn(3)
		bl := make([]int, nb)
		for j := range bl {
			switch r.Intn(3) {
			case 0:
				bl[j] = bufsBig[3+r.Intn(len(bufsBig)-3)]
			case 1:
				bl[j] = 200 + r.Intn(3000)
			default:
				bl[j] = 100 + r.Intn(140000)
			}
		}
		var dp *int
		if r.Intn(3) == 0 {
			d := r.Intn(40) - 3
			dp = &d
		}
		w.runRechunk(out, wl, bl, c02ChunkPattern(r), dp, r.Bool(), r.Intn(4) != 0)
		out.Cover("noise.rechunk_random")
	}
}

// ---------------------------------------------------------------------------
// re-chunked delivery
//
// c02Queue is one direction of an in-memory connection with an unbounded
// buffer: Writes never block, Reads return whatever the release policy and the
// chunk pattern allow, regardless of how the bytes were written.  The queue
// parses the length-prefixed messages that pass through it; messages from index
// `holdFrom` on are held back ("corked") until release() is called.  Everything
// is driven by explicit synchronisation; the only clock is a guard that turns a
// Read that would block forever into an error.

const c02BlockGuard = 20 * time.Second

type c02Queue struct {
	mu       sync.Mutex
	cond     *sync.Cond
	all      []byte // everything ever written
	parsed   int    // all[:parsed] consists of complete messages
	msgEnds  []int  // end offsets of the complete messages
	holdFrom int    // messages with index >= holdFrom are held until release (<0: nothing is held)
	released bool
	wclosed  bool // the writing side closed: EOF after the data
	rclosed  bool // the reading side closed
	rdoff    int  // bytes handed to the reader so far
	pat      []int
	pi       int
	hsMsgs   int  // number of handshake messages in this direction
	delta    *int // the Read that reaches the end of the handshake stops delta bytes after it
	// observations
	coalesced bool // one Read returned the tail of the last handshake message and transport bytes
	spans     bool // one Read returned bytes of more than one transport frame
}

func c02NewQueue(holdFrom, hsMsgs int, pat []int, delta *int) *c02Queue {
	q := &c02Queue{holdFrom: holdFrom, hsMsgs: hsMsgs, pat: pat, delta: delta}
	q.cond = sync.NewCond(&q.mu)
	return q
}

func (q *c02Queue) write(b []byte) (int, error) {
	q.mu.Lock()
	defer q.mu.Unlock()
	if q.wclosed || q.rclosed {
		return 0, io.ErrClosedPipe
	}
	q.all = append(q.all, b...)
	for q.parsed+2 <= len(q.all) {
		l := int(binary.BigEndian.Uint16(q.all[q.parsed:]))
		if q.parsed+2+l > len(q.all) {
			break
		}
		q.parsed += 2 + l
		q.msgEnds = append(q.msgEnds, q.parsed)
	}
	q.cond.Broadcast()
	return len(b), nil
}

func (q *c02Queue) releasable() int {
	if q.holdFrom < 0 || q.released {
		return len(q.all)
	}
	if q.holdFrom == 0 {
		return 0
	}
	if len(q.msgEnds) >= q.holdFrom {
		return q.msgEnds[q.holdFrom-1]
	}
	return q.parsed
}

func (q *c02Queue) release() {
	q.mu.Lock()
	q.released = true
	q.cond.Broadcast()
	q.mu.Unlock()
}

func (q *c02Queue) closeW() {
	q.mu.Lock()
	q.wclosed = true
	q.cond.Broadcast()
	q.mu.Unlock()
}

func (q *c02Queue) closeR() {
	q.mu.Lock()
	q.rclosed = true
	q.cond.Broadcast()
	q.mu.Unlock()
}

type c02GuardErr struct{}

func (c02GuardErr) Error() string   { return "verif: raw Read blocked (bytes lost?): i/o timeout" }
func (c02GuardErr) Timeout() bool   { return true }
func (c02GuardErr) Temporary() bool { return true }

func (q *c02Queue) read(b []byte) (int, error) {
	q.mu.Lock()
	defer q.mu.Unlock()
	if len(b) == 0 {
		return 0, nil
	}
	var guard *time.Timer
	var limit time.Time
	for {
		if q.rclosed {
			return 0, io.ErrClosedPipe
		}
		if q.releasable() > q.rdoff {
			break
		}
		if q.wclosed && q.rdoff == len(q.all) {
			return 0, io.EOF
		}
		if guard == nil {
			limit = time.Now().Add(c02BlockGuard)
			guard = time.AfterFunc(c02BlockGuard+50*time.Millisecond, func() {
				q.mu.Lock()
				q.cond.Broadcast()
				q.mu.Unlock()
			})
			defer guard.Stop()
		} else if !time.Now().Before(limit) {
			return 0, c02GuardErr{}
		}
		q.cond.Wait()
	}
	n := q.releasable() - q.rdoff
	if n > len(b) {
		n = len(b)
	}
	capped := false
	if q.delta != nil && len(q.msgEnds) >= q.hsMsgs {
		target := q.msgEnds[q.hsMsgs-1] + *q.delta
		if q.rdoff < target {
			capped = true
			if n > target-q.rdoff {
				n = target - q.rdoff
			}
		}
	}
	if !capped && len(q.pat) > 0 {
		k := q.pat[q.pi%len(q.pat)]
		q.pi++
		if k > 0 && k < n {
			n = k
		}
	}
	copy(b, q.all[q.rdoff:q.rdoff+n])
	if len(q.msgEnds) >= q.hsMsgs {
		hsEnd := q.msgEnds[q.hsMsgs-1]
		if q.rdoff < hsEnd && q.rdoff+n > hsEnd {
			q.coalesced = true
		}
		for _, e := range q.msgEnds {
			if e >= hsEnd && q.rdoff >= hsEnd && q.rdoff < e && e < q.rdoff+n {
				q.spans = true
			}
		}
	}
	q.rdoff += n
	return n, nil
}

type c02Addr struct{}

func (c02Addr) Network() string { return "verif" }
func (c02Addr) String() string  { return "verif-queue" }

// c02QConn: one end of a connection made of two queues
type c02QConn struct{ rd, wr *c02Queue }

func (c *c02QConn) Read(b []byte) (int, error)  { return c.rd.read(b) }
func (c *c02QConn) Write(b []byte) (int, error) { return c.wr.write(b) }
func (c *c02QConn) Close() error {
	c.wr.closeW()
	c.rd.closeR()
	return nil
}
func (c *c02QConn) LocalAddr() net.Addr              { return c02Addr{} }
func (c *c02QConn) RemoteAddr() net.Addr             { return c02Addr{} }
func (c *c02QConn) SetDeadline(time.Time) error      { return nil }
func (c *c02QConn) SetReadDeadline(time.Time) error  { return nil }
func (c *c02QConn) SetWriteDeadline(time.Time) error { return nil }

// a cyclic pattern of raw chunk sizes (0: everything that is available)
func c02ChunkPattern(r *verifh.Rand) []int {
	sizes := []int{0, 0, 1, 2, 3, 17, 18, 19, 100, 1000, 4095, 4096, 4097, 65537, 70000, 140000}
	p := make([]int, 1+r.Intn(5))
	for i := range p {
		if r.Intn(4) == 0 {
			p[i] = 1 + r.Intn(70000)
		} else {
			p[i] = sizes[r.Intn(len(sizes))]
		}
	}
	return p
}

// one untampered case over re-chunked delivery.  Everything the writer sends from
// the last handshake message of its direction on (initiator: message 3; responder:
// its first transport frame) is held in the queue and handed to the reader's raw
// conn only after the writer's first Write (relAfterFirst) or all its Writes and
// its Close have returned; then in chunks given by `pat` / `delta`, by default as
// much as the Read asks for.  With the initiator as the writer the responder thus
// finds message 3 and the first transport frame(s) in the same raw Read.
func (w *c02World) runRechunk(out *verifh.Out, wlens []int, blens []int, pat []int, delta *int, relAfterFirst bool, writerIsInit bool) {
	if c02HandshakeFailures >= 5 {
		out.Cover("noise.cases_skipped_after_handshake_failures")
		return
	}
	hsMsgs := 1 // responder -> initiator: message 2
	if writerIsInit {
		hsMsgs = 2 // messages 1 and 3
	}
	// message 0 of either direction (message 1 resp. 2) is needed by the peer to go on
	qwr := c02NewQueue(1, hsMsgs, pat, delta)  // writer -> reader
	qrw := c02NewQueue(-1, 3-hsMsgs, nil, nil) // reader -> writer: as written
	wraw := &c02QConn{rd: qrw, wr: qwr}
	rraw := &c02QConn{rd: qwr, wr: qrw}

	var wc, rc sec.SecureConn
	var werr, rerr error
	firstDone := make(chan struct{})
	allDone := make(chan struct{})
	readerHS := make(chan struct{})
	go func() {
		defer close(allDone)
		if writerIsInit {
			wc, werr = w.initTpt.SecureOutbound(context.Background(), wraw, w.respID)
		} else {
			wc, werr = w.respTpt.SecureInbound(context.Background(), wraw, "")
		}
		if werr != nil {
			wraw.Close()
			close(firstDone)
			return
		}
		off := 0
		for i, l := range wlens {
			_, err := wc.Write(c02Stream[off : off+l])
			if i == 0 {
				close(firstDone)
			}
			if err != nil {
				break
			}
			off += l
		}
		wc.Close()
	}()
	go func() {
		defer close(readerHS)
		if writerIsInit {
			rc, rerr = w.respTpt.SecureInbound(context.Background(), rraw, "")
		} else {
			rc, rerr = w.initTpt.SecureOutbound(context.Background(), rraw, w.respID)
		}
	}()
	if relAfterFirst {
		<-firstDone
	} else {
		<-allDone
	}
	qwr.release()
	<-readerHS

	line := []int64{1, 0, int64(len(wlens))}
	if !writerIsInit {
		line[1] = 1
	}
	for _, l := range wlens {
		line = append(line, int64(l))
	}
	line = append(line, ekNone, 0, 1)
	if rerr != nil {
		// nothing was altered: a handshake that fails here means the written bytes are never
		// delivered.  Recorded as a case whose first Read fails.
		wraw.Close()
		rraw.Close()
		<-allDone
		c02HandshakeFailures++
		out.Comment(fmt.Sprintf("rechunk: handshake failed: %v %v", werr, rerr))
		out.Cover("noise.handshake_failed")
		line = append(line, 1, int64(blens[0]), 2, 0, 1)
		out.Case(line)
		return
	}
	var reads []int64
	delivered, errs := 0, 0
	maxbuf := 0
	for _, b := range blens {
		if b > maxbuf {
			maxbuf = b
		}
	}
	buf := make([]byte, maxbuf)
	for i := 0; i < 400000; i++ {
		bl := blens[i%len(blens)]
		n, err := rc.Read(buf[:bl])
		res, ok := int64(0), int64(1)
		if n > 0 {
			if delivered+n > len(c02Stream) || !bytes.Equal(buf[:n], c02Stream[delivered:delivered+n]) {
				ok = 0
			}
			delivered += n
		}
		if err != nil {
			res = 2
			if errors.Is(err, io.EOF) {
				res = 1
			}
			if n > 0 {
				reads = append(reads, int64(bl), 0, int64(n), ok)
				n, ok = 0, 1
			}
		}
		reads = append(reads, int64(bl), res, int64(n), ok)
		if res != 0 {
			if res == 2 {
				errs++
				out.Comment(fmt.Sprintf("rechunk: read %d failed after %d bytes: %v", i, delivered, err))
			}
			break
		}
	}
	rc.Close()
	wraw.Close()
	rraw.Close()
	<-allDone
	line = append(line, int64(len(reads)/4))
	line = append(line, reads...)
	out.Case(line)
	out.Cover("noise.rechunked_sessions")
	qwr.mu.Lock()
	coalesced, spans := qwr.coalesced, qwr.spans
	qwr.mu.Unlock()
	if coalesced && writerIsInit {
		out.Cover("noise.coalesced_msg3_with_first_frame")
	}
	if spans {
		out.Cover("noise.rechunk_read_spans_frames")
	}
	total := 0
	for _, l := range wlens {
		total += l
	}
	if delivered == total {
		out.Cover("noise.delivered_everything")
	}
	if errs > 0 {
		out.Cover("noise.reader_saw_error")
	}
}

//go:build verif

package relay_test

import (
	"sort"
	"time"

	"github.com/libp2p/go-libp2p/core/network"
	"github.com/libp2p/go-libp2p/p2p/protocol/circuitv2/relay"
)

// snapshot at quiescence: tend mem sin sout, 12 ints per peer, circuits.
func (e *c11Env) snapshot() []int64 {
	e.settle()
	c := e.cfg
	var st network.ScopeStat
	e.rm.ViewService(relay.ServiceName, func(s network.ServiceScope) error { st = s.Stat(); return nil })
	sn := relay.VerifSnapshot(e.relay)
	res := []int64{e.nowMs(), st.Memory, int64(st.NumStreamsInbound), int64(st.NumStreamsOutbound)}
	ipid := func(key string) int64 {
		for id := 1; id <= 11; id++ {
			s, _, _ := c11IP(id)
			if s == key || "::ffff:"+s == key {
				return int64(id)
			}
		}
		return 99
	}
	for p := 1; p <= c.n; p++ {
		id := e.ids[p]
		v := make([]int64, 12)
		v[0] = -1
		if x, ok := sn.Rsvp[id]; ok {
			v[0] = x.Sub(e.t0).Milliseconds()
		}
		v[1] = int64(sn.Conns[id])
		v[3] = -1
		for _, pe := range sn.Total {
			if pe.Peer == id {
				v[2]++
				if v[3] < 0 {
					v[3] = pe.Expiry.Sub(e.t0).Milliseconds()
				}
			}
		}
		keys := make([]string, 0, len(sn.Ips))
		for k := range sn.Ips {
			keys = append(keys, k)
		}
		sort.Strings(keys)
		for _, k := range keys {
			for _, pe := range sn.Ips[k] {
				if pe.Peer == id {
					v[4]++
					if v[5] == 0 {
						v[5] = ipid(k)
					}
				}
			}
		}
		for cls, asn := range c11ASN {
			for _, pe := range sn.Asns[asn] {
				if pe.Peer == id {
					v[6]++
					v[7] = int64(cls)
				}
			}
		}
		for asn, l := range sn.Asns {
			if asn != c11ASN[1] && asn != c11ASN[2] && len(l) > 0 {
				v[7] = 99
			}
		}
		if ti := e.cm.GetTagInfo(id); ti != nil {
			if _, ok := ti.Tags["relay-reservation"]; ok {
				v[8] = 1
			}
			if _, ok := ti.Tags[relay.VerifHopTag]; ok {
				v[9] = 1
			}
		}
		for k := 0; k < 2; k++ {
			if cn := e.conns[p][k]; cn != nil && !cn.IsClosed() {
				v[10+k] = 1
			}
		}
		res = append(res, v...)
	}
	res = append(res, int64(len(e.circuits)))
	for _, ci := range e.circuits {
		ci.mu.Lock()
		b := func(x bool) int64 {
			if x {
				return 1
			}
			return 0
		}
		res = append(res, int64(ci.id), ci.rxAB, b(ci.eofAB), ci.rxBA, b(ci.eofBA))
		ci.mu.Unlock()
	}
	return res
}

// ---- circuit data ops ---------------------------------------------------------

func (e *c11Env) circuit(cid int) *c11Circuit {
	if cid >= 1 && cid <= len(e.circuits) {
		return e.circuits[cid-1]
	}
	return nil
}

func (e *c11Env) send(cid, dir int, n int64) {
	c := e.circuit(cid)
	if c == nil {
		return
	}
	s := c.ss
	if dir == 1 {
		s = c.ds
	}
	if s == nil {
		return
	}
	buf := make([]byte, 256)
	for n > 0 {
		k := int64(len(buf))
		if n < k {
			k = n
		}
		if _, err := s.Write(buf[:k]); err != nil {
			e.cover("send_write_error")
			return
		}
		n -= k
	}
}

func (e *c11Env) closeWrite(cid, dir int) {
	c := e.circuit(cid)
	if c == nil {
		return
	}
	s := c.ss
	if dir == 1 {
		s = c.ds
	}
	if s != nil {
		s.CloseWrite()
	}
}

func (e *c11Env) resetEnd(cid, side int) {
	c := e.circuit(cid)
	if c == nil {
		return
	}
	s := c.ss
	if side == 1 {
		s = c.ds
	}
	if s != nil {
		s.Reset()
	}
}

// avoidTick: do not start an operation within 20 ms before a gc tick of the
// relay's one-minute ticker (operations take a few virtual ms).
func (e *c11Env) avoidTick() {
	m := e.nowMs() % 60000
	if m >= 60000-20 {
		time.Sleep(time.Duration(60000-m+1) * time.Millisecond)
		e.settle()
	}
}

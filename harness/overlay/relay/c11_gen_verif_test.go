//go:build verif

package relay_test

import (
	"time"

	"github.com/libp2p/go-libp2p/internal/verifh"
)

type c11Op struct {
	code int
	args []int64 // for code 19: bm, then (kind p a dst) per request
}

func c11BatchOp(reqs []*c11BReq, bm int) c11Op {
	a := []int64{int64(bm)}
	for _, r := range reqs {
		a = append(a, int64(r.kind), int64(r.p), int64(r.a), int64(r.dst))
	}
	return c11Op{19, a}
}

func (o c11Op) batchReqs() ([]*c11BReq, int) {
	var reqs []*c11BReq
	for i := 1; i+3 < len(o.args); i += 4 {
		reqs = append(reqs, &c11BReq{kind: int(o.args[i]), p: int(o.args[i+1]), a: int(o.args[i+2]), dst: int(o.args[i+3])})
	}
	return reqs, int(o.args[0])
}

var c11NArgs = map[int]int{10: 2, 11: 2, 12: 4, 13: 7, 14: 3, 15: 2, 16: 2, 17: 1, 18: 0}
var c11NObs = map[int]int{12: 8, 13: 3}

func c11GenCfg(r *verifh.Rand) *c11Cfg {
	c := &c11Cfg{}
	c.n = 3 + r.Intn(3)
	c.ttl = []int64{90000, 150000, 600000}[r.Intn(3)]
	c.maxRsvp = 2 + r.Intn(3)
	c.maxCirc = 1 + r.Intn(2)
	c.maxIP = 1 + r.Intn(2)
	c.maxASN = 1 + r.Intn(3)
	c.buf = []int{1024, 2048}[r.Intn(2)]
	c.limited = r.Chance(3, 4)
	c.limData = []int64{100, 300, 1000}[r.Intn(3)]
	c.limDur = []int64{30000, 90000, 120000}[r.Intn(3)]
	c.memLimit = []int64{6144, 8192, 12288, 16384, 1 << 30, 1 << 30}[r.Intn(6)]
	c.svcOut = []int{1, 2, 100, 100}[r.Intn(4)]
	mk := func() c11Addr {
		var a c11Addr
		switch x := r.Intn(20); {
		case x < 9:
			a.ip = 1 + r.Intn(2)
		case x < 11:
			a.ip = 3 + r.Intn(2)
		case x < 15:
			a.ip = 5 + r.Intn(3)
		case x < 18:
			a.ip = 8 + r.Intn(2)
		default:
			a.ip = 10 + r.Intn(2)
		}
		_, _, a.asn = c11IP(a.ip)
		a.relayed = r.Chance(1, 10)
		a.noip = !a.relayed && r.Chance(1, 14)
		if a.noip {
			a.asn = 0
		}
		// the same IPv4 address in its IPv4-mapped IPv6 spelling (one IP, one per-IP bucket, no ASN)
		a.mapped = !a.noip && a.ip <= 4 && r.Chance(1, 3)
		return a
	}
	for i := 0; i < c.n; i++ {
		c.addrs = append(c.addrs, [2]c11Addr{mk(), mk()})
	}
	return c
}

func (e *c11Env) connected(p int) bool {
	for k := 0; k < 2; k++ {
		if c := e.conns[p][k]; c != nil && !c.IsClosed() {
			return true
		}
	}
	return false
}

func (e *c11Env) pickConn(r *verifh.Rand, p int) int {
	var ks []int
	for k := 0; k < 2; k++ {
		if c := e.conns[p][k]; c != nil && !c.IsClosed() {
			ks = append(ks, k)
		}
	}
	if len(ks) == 0 {
		return -1
	}
	return ks[r.Intn(len(ks))]
}

// safeToDrop: losing peer p's streams is noticed by the relay at once only when
// the relay is reading from p on every open circuit of p (a half-closed circuit
// whose remaining direction flows TOWARDS p lingers until the next write or the
// deadline: real behaviour, not generated, see the manifest's level_note).
func (e *c11Env) safeToDrop(p int) bool {
	for _, ci := range e.circuits {
		ci.mu.Lock()
		dead := ci.eofAB && ci.eofBA
		bad := !dead && ((ci.src == p && ci.eofAB) || (ci.dst == p && ci.eofBA))
		ci.mu.Unlock()
		if bad {
			return false
		}
	}
	return true
}

// genOp picks the next operation from the harness's view of the state.
func (e *c11Env) genOp(r *verifh.Rand, step, total int) c11Op {
	c := e.cfg
	var conn []int
	for p := 1; p <= c.n; p++ {
		if e.connected(p) {
			conn = append(conn, p)
		}
	}
	var open []*c11Circuit
	for _, ci := range e.circuits {
		ci.mu.Lock()
		if !(ci.eofAB && ci.eofBA) {
			open = append(open, ci)
		}
		ci.mu.Unlock()
	}
	b := func(x bool) int64 {
		if x {
			return 1
		}
		return 0
	}
	for tries := 0; tries < 50; tries++ {
		x := r.Intn(100)
		switch {
		case x < 2:
			// the relay host gains / loses a limited (relayed) connection to a peer
			p := 1 + r.Intn(c.n)
			if e.isLimited(e.ids[p]) {
				if r.Chance(1, 3) {
					return c11Op{11, []int64{int64(p), 2}}
				}
			} else {
				return c11Op{10, []int64{int64(p), 2}}
			}
		case x < 12 || len(conn) < 2 && x < 60:
			p, k := 1+r.Intn(c.n), r.Intn(4)/3
			if cn := e.conns[p][k]; cn == nil || cn.IsClosed() {
				return c11Op{10, []int64{int64(p), int64(k)}}
			}
		case x < 40:
			if len(conn) > 0 {
				p := conn[r.Intn(len(conn))]
				inj := int64(0)
				if r.Chance(1, 40) && e.safeToDrop(p) {
					inj = 2
				}
				return c11Op{12, []int64{int64(p), int64(e.pickConn(r, p)), b(!r.Chance(1, 10)), inj}}
			}
		case x < 62:
			if len(conn) > 0 {
				src := conn[r.Intn(len(conn))]
				dst := 1 + r.Intn(c.n)
				sn := e.lastRsvp
				if len(sn) > 0 && r.Chance(4, 5) {
					dst = sn[r.Intn(len(sn))]
				}
				dmode, smode := int64(0), int64(0)
				if r.Chance(3, 10) {
					dmode = int64(1 + r.Intn(7))
				}
				if r.Chance(3, 20) {
					smode = int64(1 + r.Intn(5))
				}
				if smode == 2 {
					smode = 3
				}
				if smode == 3 {
					dmode = 0
				}
				if smode == 3 && (!e.safeToDrop(src) || src == dst) {
					// (source == destination: the stop stream dies with the source's connections
					// and what the client still reads depends on the scheduler)
					smode = 0
				}
				return c11Op{13, []int64{int64(src), int64(e.pickConn(r, src)), int64(dst), b(!r.Chance(1, 12)), dmode, smode, 0}}
			}
		case x < 78:
			if len(open) > 0 {
				ci := open[r.Intn(len(open))]
				dir := r.Intn(2)
				ci.mu.Lock()
				f := ci.rxAB
				if dir == 1 {
					f = ci.rxBA
				}
				ci.mu.Unlock()
				rem := c.limData - f
				var n int64
				switch r.Intn(6) {
				case 0:
					n = 1
				case 1:
					n = rem - 1
				case 2:
					n = rem
				case 3:
					n = rem + 1
				case 4:
					n = rem + 50
				default:
					n = 1 + int64(r.Intn(int(c.limData)))
				}
				if n < 1 {
					n = 1
				}
				return c11Op{14, []int64{int64(ci.id), int64(dir), n}}
			}
		case x < 82:
			if len(open) > 0 {
				return c11Op{15, []int64{int64(open[r.Intn(len(open))].id), int64(r.Intn(2))}}
			}
		case x < 85:
			if len(open) > 0 {
				ci := open[r.Intn(len(open))]
				side := r.Intn(2)
				ci.mu.Lock()
				reading := (side == 0 && !ci.eofAB) || (side == 1 && !ci.eofBA)
				ci.mu.Unlock()
				if reading {
					return c11Op{16, []int64{int64(ci.id), int64(side)}}
				}
			}
		case x < 94:
			dts := []int64{1000, 30000, 61000, c.ttl - 1000, c.ttl + 61000, c.limDur, c.limDur - 5, 59000, 125000}
			return c11Op{17, []int64{dts[r.Intn(len(dts))]}}
		case x < 99:
			if len(conn) > 0 {
				p := conn[r.Intn(len(conn))]
				if e.safeToDrop(p) {
					return c11Op{11, []int64{int64(p), int64(e.pickConn(r, p))}}
				}
			}
		default:
			if step > total*2/3 && !e.relayClosed {
				return c11Op{18, nil}
			}
		}
	}
	return c11Op{17, []int64{1000}}
}

// exec runs one op, returns the tokens "code t args obs snapshot".
func (e *c11Env) exec(op c11Op) []int64 {
	e.avoidTick()
	t := e.nowMs()
	a := op.args
	var obs []int64
	switch op.code {
	case 10:
		if a[1] == 2 {
			e.setLimited(int(a[0]), true)
			e.cover("op_open_limited")
			break
		}
		if err := e.openConn(int(a[0]), int(a[1])); err != nil {
			e.t.Fatalf("openConn: %v", err)
		}
		e.cover("op_open_conn")
	case 11:
		if a[1] == 2 {
			e.setLimited(int(a[0]), false)
			e.cover("op_close_limited")
			break
		}
		if cn := e.conns[a[0]][a[1]]; cn != nil {
			cn.Close()
			e.conns[a[0]][a[1]] = nil
			if e.isLimited(e.ids[a[0]]) && !e.connected(int(a[0])) {
				e.cover("direct_closed_limited_remains")
			}
		}
		e.cover("op_close_conn")
	case 12:
		obs = e.reserve(int(a[0]), int(a[1]), a[2] != 0, int(a[3]))
		e.cover("op_reserve")
		e.cover("reserve_rstatus_" + itoa(obs[2]))
	case 13:
		var dconn int64
		obs, dconn = e.connect(int(a[0]), int(a[1]), int(a[2]), a[3] != 0, int(a[4]), int(a[5]))
		a = append([]int64{}, a...)
		a[6] = dconn
		e.cover("op_connect")
		e.cover("connect_rstatus_" + itoa(obs[1]))
		e.cover("connect_dmode_" + itoa(a[4]))
		e.cover("connect_smode_" + itoa(a[5]))
	case 14:
		e.send(int(a[0]), int(a[1]), a[2])
		e.cover("op_send")
	case 15:
		e.closeWrite(int(a[0]), int(a[1]))
		e.cover("op_close_write")
	case 16:
		e.resetEnd(int(a[0]), int(a[1]))
		e.cover("op_reset_end")
	case 17:
		time.Sleep(time.Duration(a[0]) * time.Millisecond)
		e.cover("op_advance")
	case 18:
		e.relay.Close()
		e.relayClosed = true
		e.cover("op_close_relay")
	}
	snap := e.snapshot()
	e.lastRsvp = e.lastRsvp[:0]
	for p := 1; p <= e.cfg.n; p++ {
		if snap[4+12*(p-1)] >= 0 {
			e.lastRsvp = append(e.lastRsvp, p)
		}
	}
	res := append([]int64{int64(op.code), t}, a...)
	res = append(res, obs...)
	return append(res, snap...)
}

func itoa(x int64) string {
	if x == 0 {
		return "0"
	}
	neg := x < 0
	if neg {
		x = -x
	}
	var d []byte
	for x > 0 {
		d = append([]byte{byte('0' + x%10)}, d...)
		x /= 10
	}
	if neg {
		return "-" + string(d)
	}
	return string(d)
}

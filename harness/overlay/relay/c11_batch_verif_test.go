//go:build verif

// C11 — a batch of CONCURRENT RESERVE/CONNECT requests racing on the relay's counters,
// judged at quiescence by the property monitor only (wire: Spec.v, code 19).
package relay_test

import (
	"sync"

	"github.com/libp2p/go-libp2p/core/network"
	"github.com/libp2p/go-libp2p/core/peer"
	"github.com/libp2p/go-libp2p/core/record"
	"github.com/libp2p/go-libp2p/internal/verifh"
	pbv2 "github.com/libp2p/go-libp2p/p2p/protocol/circuitv2/pb"
	"github.com/libp2p/go-libp2p/p2p/protocol/circuitv2/proto"
	"github.com/libp2p/go-libp2p/p2p/protocol/circuitv2/util"
)

type c11BReq struct {
	kind, p, a, dst int
	cs, x1, x2, x3  int64
	s               network.Stream
}

func (e *c11Env) batchReserve(r *c11BReq) {
	s, err := e.hopStream(r.p, r.a)
	if err != nil {
		return
	}
	defer s.Close()
	var msg pbv2.HopMessage
	msg.Type = pbv2.HopMessage_RESERVE.Enum()
	util.NewDelimitedWriter(s).WriteMsg(&msg)
	resp := <-c11ReadHop(s)
	if resp.err != nil || resp.msg.GetType() != pbv2.HopMessage_STATUS {
		return
	}
	r.cs = int64(resp.msg.GetStatus())
	rs := resp.msg.GetReservation()
	if resp.msg.GetStatus() != pbv2.Status_OK || rs == nil || rs.GetVoucher() == nil {
		return
	}
	env, rec, err := record.ConsumeEnvelope(rs.GetVoucher(), proto.RecordDomain)
	if err != nil {
		return
	}
	if v, ok := rec.(*proto.ReservationVoucher); ok {
		if signer, _ := peer.IDFromPublicKey(env.PublicKey); signer == e.rid {
			r.x1 = 1
		}
		if v.Relay == e.rid {
			r.x2 = 1
		}
		r.x3 = int64(e.peerIndex(v.Peer))
	}
}

func (e *c11Env) batchConnect(r *c11BReq) {
	s, err := e.hopStream(r.p, r.a)
	if err != nil {
		return
	}
	var msg pbv2.HopMessage
	msg.Type = pbv2.HopMessage_CONNECT.Enum()
	msg.Peer = util.PeerInfoToPeerV2(peer.AddrInfo{ID: e.ids[r.dst]})
	util.NewDelimitedWriter(s).WriteMsg(&msg)
	resp := <-c11ReadHop(s)
	if resp.err != nil || resp.msg.GetType() != pbv2.HopMessage_STATUS {
		s.Reset()
		return
	}
	r.cs = int64(resp.msg.GetStatus())
	if resp.msg.GetStatus() == pbv2.Status_OK {
		r.s = s
	} else {
		s.Close()
	}
}

// batch launches all requests at once and returns the tokens "19 t k bm reqs snapshot".
func (e *c11Env) batch(reqs []*c11BReq, bm int) []int64 {
	e.avoidTick()
	t := e.nowMs()
	e.aclAnswer, e.stopMode, e.failStopOpen = true, bm, false
	var wg sync.WaitGroup
	for _, r := range reqs {
		wg.Add(1)
		go func(r *c11BReq) {
			defer wg.Done()
			if r.kind == 12 {
				e.batchReserve(r)
			} else {
				e.batchConnect(r)
			}
		}(r)
	}
	wg.Wait()
	e.settle()
	var seens []*c11StopSeen
	for more := true; more; {
		select {
		case x := <-e.stopSeen:
			seens = append(seens, x)
		default:
			more = false
		}
	}
	for _, r := range reqs {
		if r.kind != 13 || r.s == nil {
			continue
		}
		for i, x := range seens {
			if x != nil && x.dst == r.dst && x.src == e.ids[r.p] {
				c := &c11Circuit{id: len(e.circuits) + 1, src: r.p, dst: r.dst, ss: r.s, ds: x.s}
				e.circuits = append(e.circuits, c)
				r.x1 = int64(c.id)
				go c.readLoop(x.s, false)
				go c.readLoop(r.s, true)
				seens[i] = nil
				e.cover("batch_circuit")
				break
			}
		}
	}
	for _, x := range seens {
		if x != nil {
			x.s.Reset()
		}
	}
	res := []int64{19, t, int64(len(reqs)), int64(bm)}
	for _, r := range reqs {
		if r.kind == 12 {
			res = append(res, 12, int64(r.p), int64(r.a), r.cs, r.x1, r.x2, r.x3)
			e.cover("batch_reserve_" + itoa(r.cs))
		} else {
			res = append(res, 13, int64(r.p), int64(r.a), int64(r.dst), r.cs, r.x1)
			e.cover("batch_connect_" + itoa(r.cs))
		}
	}
	e.cover("op_batch")
	return append(res, e.snapshot()...)
}

func (e *c11Env) genBatch(r *verifh.Rand) ([]*c11BReq, int) {
	c := e.cfg
	var conn []int
	for p := 1; p <= c.n; p++ {
		if e.connected(p) {
			conn = append(conn, p)
		}
	}
	if len(conn) < 2 || e.relayClosed {
		return nil, 0
	}
	k := 2 + r.Intn(4)
	var reqs []*c11BReq
	var reserving []int
	// focused: several sources race for circuits to ONE destination that holds a reservation
	var held []int
	for _, p := range e.lastRsvp {
		if e.connected(p) {
			held = append(held, p)
		}
	}
	if len(held) > 0 && r.Chance(1, 2) {
		dst := held[r.Intn(len(held))]
		for i := 0; i < k; i++ {
			p := conn[r.Intn(len(conn))]
			if p != dst {
				reqs = append(reqs, &c11BReq{kind: 13, p: p, a: e.pickConn(r, p), dst: dst})
			}
		}
		e.cover("batch_focused")
		return reqs, 0
	}
	for i := 0; i < k; i++ {
		p := conn[r.Intn(len(conn))]
		if r.Chance(3, 5) {
			reqs = append(reqs, &c11BReq{kind: 12, p: p, a: e.pickConn(r, p)})
			reserving = append(reserving, p)
			continue
		}
		cand := append(append([]int{}, e.lastRsvp...), reserving...)
		dst := conn[r.Intn(len(conn))]
		if len(cand) > 0 && r.Chance(4, 5) {
			dst = cand[r.Intn(len(cand))]
		}
		if dst == p || !e.connected(dst) {
			continue
		}
		reqs = append(reqs, &c11BReq{kind: 13, p: p, a: e.pickConn(r, p), dst: dst})
	}
	return reqs, []int{0, 0, 0, 1, 3}[r.Intn(5)]
}

//go:build verif

// White-box accessors for the C11 harness (external test package relay_test in
// the same directory; an in-package test cannot import mocknet: import cycle
// through basichost -> relaysvc -> relay).
package relay

import (
	"fmt"
	"time"

	"github.com/libp2p/go-libp2p/core/peer"
)

type VerifPE struct {
	Peer   peer.ID
	Expiry time.Time
}

type VerifSnap struct {
	Rsvp   map[peer.ID]time.Time
	Conns  map[peer.ID]int
	Total  []VerifPE
	Ips    map[string][]VerifPE
	Asns   map[uint32][]VerifPE
	Closed bool
}

func VerifSnapshot(r *Relay) VerifSnap {
	r.mx.Lock()
	defer r.mx.Unlock()
	s := VerifSnap{Rsvp: map[peer.ID]time.Time{}, Conns: map[peer.ID]int{},
		Ips: map[string][]VerifPE{}, Asns: map[uint32][]VerifPE{}, Closed: r.closed}
	for k, v := range r.rsvp {
		s.Rsvp[k] = v
	}
	for k, v := range r.conns {
		s.Conns[k] = v
	}
	c := r.constraints
	c.mutex.Lock()
	for _, pe := range c.total {
		s.Total = append(s.Total, VerifPE{pe.Peer, pe.Expiry})
	}
	for k, l := range c.ips {
		// whatever the key type is (string today), report its printed form
		ks := fmt.Sprint(k)
		for _, pe := range l {
			s.Ips[ks] = append(s.Ips[ks], VerifPE{pe.Peer, pe.Expiry})
		}
	}
	for k, l := range c.asns {
		for _, pe := range l {
			s.Asns[k] = append(s.Asns[k], VerifPE{pe.Peer, pe.Expiry})
		}
	}
	c.mutex.Unlock()
	return s
}

const (
	VerifMaxMessageSize     = maxMessageSize
	VerifHopTag             = relayHopTag
	VerifStreamTimeoutMs    = int64(StreamTimeout / time.Millisecond)
	VerifHandshakeTimeoutMs = int64(HandshakeTimeout / time.Millisecond)
)

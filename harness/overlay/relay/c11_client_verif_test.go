//go:build verif

// C11 — client side: the REAL client.Reserve against a scripted relay that answers
// RESERVE with hand-built messages and vouchers (each field wrong in turn).
// Wire format: coq/c11/SpecClient.v.
package relay_test

import (
	"context"
	"testing"
	"testing/synctest"
	"time"

	"github.com/libp2p/go-libp2p/core/crypto"
	"github.com/libp2p/go-libp2p/core/network"
	"github.com/libp2p/go-libp2p/core/peer"
	"github.com/libp2p/go-libp2p/core/record"
	"github.com/libp2p/go-libp2p/internal/verifh"
	mocknet "github.com/libp2p/go-libp2p/p2p/net/mock"
	"github.com/libp2p/go-libp2p/p2p/protocol/circuitv2/client"
	pbv2 "github.com/libp2p/go-libp2p/p2p/protocol/circuitv2/pb"
	"github.com/libp2p/go-libp2p/p2p/protocol/circuitv2/proto"
	"github.com/libp2p/go-libp2p/p2p/protocol/circuitv2/util"

	ma "github.com/multiformats/go-multiaddr"
)

// a record with a free choice of domain and payload type around voucher bytes
type c11Rec struct {
	domain  string
	codec   []byte
	payload []byte
}

func (r *c11Rec) Domain() string                 { return r.domain }
func (r *c11Rec) Codec() []byte                  { return r.codec }
func (r *c11Rec) MarshalRecord() ([]byte, error) { return r.payload, nil }
func (r *c11Rec) UnmarshalRecord(b []byte) error { r.payload = b; return nil }

type c11CDesc struct {
	typ, status, hasRsvp, expire, vkind, signer, dom, ptype, vrelay, vpeer, vexp, corrupt int64
}

func (d c11CDesc) toks() []int64 {
	return []int64{d.typ, d.status, d.hasRsvp, d.expire, d.vkind, d.signer, d.dom, d.ptype, d.vrelay, d.vpeer, d.vexp, d.corrupt}
}

type c11ClientEnv struct {
	t0   time.Time
	keys [4]crypto.PrivKey
	ids  [4]peer.ID
	cur  c11CDesc
}

func (e *c11ClientEnv) voucherBytes(d c11CDesc) []byte {
	switch d.vkind {
	case 0:
		return nil
	case 2:
		return []byte{0xff, 0xff, 0xff}
	}
	v := &proto.ReservationVoucher{Relay: e.ids[d.vrelay], Peer: e.ids[d.vpeer], Expiration: e.t0.Add(time.Duration(d.vexp) * time.Second)}
	payload, err := v.MarshalRecord()
	if err != nil {
		panic(err)
	}
	rec := &c11Rec{domain: proto.RecordDomain, codec: proto.RecordCodec, payload: payload}
	if d.dom != 1 {
		rec.domain = "libp2p-some-other-domain"
	}
	if d.ptype != 1 {
		rec.codec = peer.PeerRecordEnvelopePayloadType
	}
	env, err := record.Seal(rec, e.keys[d.signer])
	if err != nil {
		panic(err)
	}
	b, err := env.Marshal()
	if err != nil {
		panic(err)
	}
	if d.corrupt != 0 {
		b[len(b)-1] ^= 0x5a // the signature is the last field of the envelope
	}
	return b
}

func (e *c11ClientEnv) hopHandler(s network.Stream) {
	defer s.Close()
	rd := util.NewDelimitedReader(s, 4096)
	var req pbv2.HopMessage
	if err := rd.ReadMsg(&req); err != nil {
		s.Reset()
		return
	}
	d := e.cur
	var msg pbv2.HopMessage
	msg.Type = pbv2.HopMessage_Type(d.typ).Enum()
	msg.Status = pbv2.Status(d.status).Enum()
	if d.hasRsvp != 0 {
		exp := uint64(e.t0.Unix() + d.expire)
		msg.Reservation = &pbv2.Reservation{Expire: &exp, Voucher: e.voucherBytes(d)}
	}
	util.NewDelimitedWriter(s).WriteMsg(&msg)
}

func (e *c11ClientEnv) index(id peer.ID) int64 {
	for i := 1; i <= 3; i++ {
		if e.ids[i] == id {
			return int64(i)
		}
	}
	return -1
}

func c11ClientDirected() []c11CDesc {
	ok := c11CDesc{typ: 2, status: 100, hasRsvp: 1, expire: 5000, vkind: 1, signer: 1, dom: 1, ptype: 1, vrelay: 1, vpeer: 2, vexp: 5000}
	mod := func(f func(d *c11CDesc)) c11CDesc { d := ok; f(&d); return d }
	return []c11CDesc{
		ok,
		mod(func(d *c11CDesc) { d.signer = 3 }),              // wrong signer
		mod(func(d *c11CDesc) { d.vpeer = 3 }),               // wrong peer
		mod(func(d *c11CDesc) { d.vrelay = 3 }),              // wrong relay field
		mod(func(d *c11CDesc) { d.dom = 0 }),                 // sealed under another domain
		mod(func(d *c11CDesc) { d.ptype = 0 }),               // another record type
		mod(func(d *c11CDesc) { d.expire = 10 }),             // reservation expired
		mod(func(d *c11CDesc) { d.vexp = 10 }),               // only the voucher's own expiration is in the past
		mod(func(d *c11CDesc) { d.vkind = 0 }),               // no voucher
		mod(func(d *c11CDesc) { d.vkind = 2 }),               // garbage
		mod(func(d *c11CDesc) { d.corrupt = 1 }),             // damaged signature
		mod(func(d *c11CDesc) { d.signer, d.vrelay = 3, 3 }), // sealed by a third party naming itself as relay
		mod(func(d *c11CDesc) { d.signer, d.vrelay = 2, 2 }), // sealed by the client's own key
		mod(func(d *c11CDesc) { d.status = 200 }),            // refused
		mod(func(d *c11CDesc) { d.typ = 0 }),                 // not a STATUS message
		mod(func(d *c11CDesc) { d.hasRsvp = 0 }),             // no reservation info
		mod(func(d *c11CDesc) { d.vpeer, d.vrelay = 1, 2 }),  // fields swapped
	}
}

func c11ClientCase(t *testing.T, out *verifh.Out, descs []c11CDesc) []int64 {
	var line []int64
	synctest.Test(t, func(t *testing.T) {
		e := &c11ClientEnv{}
		mn := mocknet.New()
		var hosts [4]interface {
			ID() peer.ID
		}
		_ = hosts
		for i := 1; i <= 3; i++ {
			e.keys[i], e.ids[i] = c11Key()
		}
		rh, err := mn.AddPeer(e.keys[1], ma.StringCast("/ip4/9.9.9.9/tcp/4001"))
		if err != nil {
			t.Fatal(err)
		}
		ch, err := mn.AddPeer(e.keys[2], ma.StringCast("/ip4/7.0.0.1/tcp/4001"))
		if err != nil {
			t.Fatal(err)
		}
		rh.SetStreamHandler(proto.ProtoIDv2Hop, e.hopHandler)
		mn.LinkAll()
		if _, err := mn.ConnectPeers(ch.ID(), rh.ID()); err != nil {
			t.Fatal(err)
		}
		synctest.Wait()
		e.t0 = time.Now()
		time.Sleep(1000 * time.Second)
		now := int64(time.Since(e.t0) / time.Second)
		line = []int64{2, now}
		for _, d := range descs {
			e.cur = d
			rs, err := client.Reserve(context.Background(), ch, peer.AddrInfo{ID: rh.ID()})
			obs := make([]int64, 6)
			if err == nil {
				obs[0] = 1
				out.Cover("client_ok")
				if rs.Voucher != nil {
					obs[2] = 1
					obs[3], obs[4] = e.index(rs.Voucher.Relay), e.index(rs.Voucher.Peer)
					obs[5] = rs.Voucher.Expiration.Unix() - e.t0.Unix()
					out.Cover("client_voucher_accepted")
				}
			} else if re, ok := err.(client.ReservationError); ok {
				obs[1] = int64(re.Status)
				out.Cover("client_err_" + itoa(obs[1]))
			} else {
				obs[1] = -1
			}
			line = append(append(line, d.toks()...), obs...)
			synctest.Wait()
		}
		mn.Close()
		synctest.Wait()
	})
	return line
}

func c11ClientRandom(r *verifh.Rand, n int) []c11CDesc {
	var ds []c11CDesc
	for i := 0; i < n; i++ {
		d := c11CDesc{typ: 2, status: 100, hasRsvp: 1, expire: 5000, vkind: 1, signer: 1, dom: 1, ptype: 1, vrelay: 1, vpeer: 2, vexp: 5000}
		for k := r.Intn(4); k > 0; k-- {
			switch r.Intn(12) {
			case 0:
				d.typ = int64(r.Intn(3))
			case 1:
				d.status = []int64{100, 200, 201, 202, 400}[r.Intn(5)]
			case 2:
				d.hasRsvp = int64(r.Intn(2))
			case 3:
				d.expire = []int64{10, 999, 1000, 1001, 5000}[r.Intn(5)]
			case 4:
				d.vkind = int64(r.Intn(3))
			case 5:
				d.signer = int64(1 + r.Intn(3))
			case 6:
				d.dom = int64(r.Intn(2))
			case 7:
				d.ptype = int64(r.Intn(2))
			case 8:
				d.vrelay = int64(1 + r.Intn(3))
			case 9:
				d.vpeer = int64(1 + r.Intn(3))
			case 10:
				d.vexp = []int64{10, 1000, 5000}[r.Intn(3)]
			case 11:
				d.corrupt = int64(r.Intn(2))
			}
		}
		ds = append(ds, d)
	}
	return ds
}

//go:build verif

package relay_test

import (
	"context"
	"crypto/rand"
	"fmt"
	"net"
	"sync"
	"testing"
	"time"

	asnutil "github.com/libp2p/go-libp2p-asn-util"
	"github.com/libp2p/go-libp2p/core/crypto"
	"github.com/libp2p/go-libp2p/core/host"
	"github.com/libp2p/go-libp2p/core/network"
	"github.com/libp2p/go-libp2p/core/peer"
	"github.com/libp2p/go-libp2p/core/peerstore"
	"github.com/libp2p/go-libp2p/internal/verifh"
	rcmgr "github.com/libp2p/go-libp2p/p2p/host/resource-manager"
	"github.com/libp2p/go-libp2p/p2p/net/connmgr"
	mocknet "github.com/libp2p/go-libp2p/p2p/net/mock"
	"github.com/libp2p/go-libp2p/p2p/protocol/circuitv2/proto"
	"github.com/libp2p/go-libp2p/p2p/protocol/circuitv2/relay"

	ma "github.com/multiformats/go-multiaddr"
)

type c11Addr struct {
	ip, asn       int
	relayed, noip bool
	mapped        bool // textual form only: an IPv4 address written as /ip6/::ffff:a.b.c.d (same IP)
}

func (a c11Addr) flags() int64 {
	var f int64
	if a.relayed {
		f |= 1
	}
	if a.noip {
		f |= 2
	}
	if a.mapped {
		f |= 4
	}
	return f
}

type c11Cfg struct {
	ttl                                  int64 // ms
	maxRsvp, maxCirc, maxIP, maxASN, buf int
	limited                              bool
	limData, limDur                      int64 // bytes, ms
	memLimit                             int64
	svcOut                               int
	n                                    int
	addrs                                [][2]c11Addr
}

func (c *c11Cfg) header() []int64 {
	b := func(x bool) int64 {
		if x {
			return 1
		}
		return 0
	}
	h := []int64{1, c.ttl, int64(c.maxRsvp), int64(c.maxCirc), int64(c.maxIP), int64(c.maxASN), int64(c.buf),
		b(c.limited), c.limData, c.limDur, c.memLimit, int64(c.svcOut), int64(c.n)}
	for i := 0; i < c.n; i++ {
		for k := 0; k < 2; k++ {
			a := c.addrs[i][k]
			h = append(h, int64(a.ip), int64(a.asn), a.flags())
		}
	}
	return h
}

// ip id -> (textual IP, asn class); the class is cross-checked against asnutil.
func c11IP(id int) (string, bool, int) {
	switch {
	case id >= 1 && id <= 4:
		return fmt.Sprintf("7.0.0.%d", id), false, 0
	case id >= 5 && id <= 7:
		return fmt.Sprintf("2a03:2880:f003:c07:face:b00c:0:%x", id), true, 1
	case id >= 8 && id <= 9:
		return fmt.Sprintf("2001:4860:4860::%x", id), true, 2
	default:
		return fmt.Sprintf("fd00::%x", id), true, 0
	}
}

var c11ASN = map[int]uint32{1: 32934, 2: 15169}

func c11CheckASNTable() error {
	for id := 1; id <= 11; id++ {
		s, v6, cls := c11IP(id)
		if !v6 {
			continue
		}
		got := asnutil.AsnForIPv6(net.ParseIP(s))
		if got != c11ASN[cls] {
			return fmt.Errorf("asn table drifted: %s -> %d, want class %d (%d)", s, got, cls, c11ASN[cls])
		}
	}
	return nil
}

type c11Circuit struct {
	id       int
	src, dst int
	ss, ds   network.Stream // endpoint streams at the source / destination host
	mu       sync.Mutex
	rxAB     int64 // bytes received by dst
	rxBA     int64 // bytes received by src
	eofAB    bool
	eofBA    bool
}

type c11Env struct {
	t   *testing.T
	out *verifh.Out
	cfg *c11Cfg

	mn    mocknet.Mocknet
	rhost host.Host // raw mocknet host of the relay
	rid   peer.ID
	hosts []host.Host // index 1..n
	ids   []peer.ID
	conns [][2]network.Conn // as seen from the peer's side
	rm    network.ResourceManager
	cm    *connmgr.BasicConnMgr
	relay *relay.Relay
	met   *c11Metrics
	t0    time.Time
	dummy peer.ID // relay id used inside "relayed" addresses

	aclAnswer    bool
	aclHook      func()
	failStopOpen bool
	lastStopConn network.Conn

	// script for the destination's stop handler (one request at a time)
	stopMode int
	stopHook func()
	stopSeen chan *c11StopSeen

	circuits    []*c11Circuit
	limMu       sync.Mutex
	limited     map[peer.ID]bool // relay host holds a limited connection to the peer
	lastRsvp    []int
	relayClosed bool
}

type c11StopSeen struct {
	s       network.Stream
	srcOK   bool
	limitOK bool
	src     peer.ID // source named in the stop message
	dst     int     // destination host that got the stop stream
}

func (e *c11Env) cover(name string) { e.out.Cover(name) }

func (e *c11Env) isLimited(p peer.ID) bool {
	e.limMu.Lock()
	defer e.limMu.Unlock()
	return e.limited[p]
}

func (e *c11Env) setLimited(p int, on bool) {
	e.limMu.Lock()
	if e.limited == nil {
		e.limited = map[peer.ID]bool{}
	}
	e.limited[e.ids[p]] = on
	e.limMu.Unlock()
}

func (e *c11Env) nowMs() int64 { return time.Since(e.t0).Milliseconds() }

func (e *c11Env) addrOf(p int, k int) ma.Multiaddr {
	a := e.cfg.addrs[p-1][k]
	var base string
	if a.noip {
		base = fmt.Sprintf("/dns4/h%d.example/tcp/%d", a.ip, 1000+p*2+k)
	} else {
		s, v6, _ := c11IP(a.ip)
		if v6 {
			base = fmt.Sprintf("/ip6/%s/tcp/%d", s, 1000+p*2+k)
		} else if a.mapped {
			base = fmt.Sprintf("/ip6/::ffff:%s/tcp/%d", s, 1000+p*2+k)
		} else {
			base = fmt.Sprintf("/ip4/%s/tcp/%d", s, 1000+p*2+k)
		}
	}
	if a.relayed {
		base += "/p2p/" + e.dummy.String() + "/p2p-circuit"
	}
	return ma.StringCast(base)
}

func c11Key() (crypto.PrivKey, peer.ID) {
	sk, _, err := crypto.GenerateEd25519Key(rand.Reader)
	if err != nil {
		panic(err)
	}
	id, _ := peer.IDFromPrivateKey(sk)
	return sk, id
}

func (e *c11Env) peerIndex(id peer.ID) int {
	for i := 1; i <= e.cfg.n; i++ {
		if e.ids[i] == id {
			return i
		}
	}
	return 0
}

// setup builds the network, the wrapped relay host and the relay itself.
func (e *c11Env) setup() error {
	c := e.cfg
	e.mn = mocknet.New()
	_, e.dummy = c11Key()
	rk, _ := c11Key()
	rh, err := e.mn.AddPeer(rk, ma.StringCast("/ip4/9.9.9.9/tcp/4001"))
	if err != nil {
		return err
	}
	e.rhost, e.rid = rh, rh.ID()
	e.hosts = make([]host.Host, c.n+1)
	e.ids = make([]peer.ID, c.n+1)
	e.conns = make([][2]network.Conn, c.n+1)
	e.stopSeen = make(chan *c11StopSeen, 64)
	for i := 1; i <= c.n; i++ {
		k, _ := c11Key()
		h, err := e.mn.AddPeer(k, e.addrOf(i, 0))
		if err != nil {
			return err
		}
		e.hosts[i], e.ids[i] = h, h.ID()
		h.SetStreamHandler(proto.ProtoIDv2Stop, e.stopHandler(i))
	}
	if err := e.mn.LinkAll(); err != nil {
		return err
	}
	lim := rcmgr.PartialLimitConfig{Service: map[string]rcmgr.ResourceLimits{
		relay.ServiceName: {Memory: rcmgr.LimitVal64(c.memLimit), StreamsOutbound: rcmgr.LimitVal(c.svcOut)},
	}}.Build(rcmgr.InfiniteLimits)
	e.rm, err = rcmgr.NewResourceManager(rcmgr.NewFixedLimiter(lim))
	if err != nil {
		return err
	}
	e.cm, err = connmgr.NewConnManager(1000, 2000, connmgr.WithGracePeriod(time.Hour))
	if err != nil {
		return err
	}
	rh.Network().Notify(e.cm.Notifee())
	wh := &c11Host{Host: rh, nw: &c11Net{Network: rh.Network(), rm: e.rm, env: e}, cm: e.cm, env: e}
	e.met = &c11Metrics{}
	rc := relay.Resources{
		ReservationTTL: time.Duration(c.ttl) * time.Millisecond, MaxReservations: c.maxRsvp, MaxCircuits: c.maxCirc,
		BufferSize: c.buf, MaxReservationsPerPeer: 1, MaxReservationsPerIP: c.maxIP, MaxReservationsPerASN: c.maxASN,
	}
	if c.limited {
		rc.Limit = &relay.RelayLimit{Duration: time.Duration(c.limDur) * time.Millisecond, Data: c.limData}
	}
	e.t0 = time.Now()
	if e.t0.UnixMilli()%1000 != 0 {
		return fmt.Errorf("relay epoch not on a second boundary")
	}
	e.relay, err = relay.New(wh, relay.WithResources(rc), relay.WithACL(&c11ACL{env: e}), relay.WithMetricsTracer(e.met))
	return err
}

func (e *c11Env) teardown() {
	for _, c := range e.circuits {
		if c.ss != nil {
			c.ss.Reset()
		}
		if c.ds != nil {
			c.ds.Reset()
		}
	}
	e.relay.Close()
	e.mn.Close()
	e.cm.Close()
	e.rm.Close()
}

// openConn opens connection (p,k): p reaches the relay from its k-th address.
func (e *c11Env) openConn(p, k int) error {
	ps := e.hosts[p].Peerstore()
	ps.ClearAddrs(e.ids[p])
	ps.AddAddr(e.ids[p], e.addrOf(p, k), peerstore.PermanentAddrTTL)
	c, err := mocknet.VerifOpenConn(e.mn, e.ids[p], e.rid)
	if err != nil {
		return err
	}
	e.conns[p][k] = c
	return nil
}

var _ = context.Background

//go:build verif

package relay_test

import (
	"context"
	"testing/synctest"
	"time"

	"github.com/libp2p/go-libp2p/core/network"
	"github.com/libp2p/go-libp2p/core/peer"
	"github.com/libp2p/go-libp2p/core/record"
	pbv2 "github.com/libp2p/go-libp2p/p2p/protocol/circuitv2/pb"
	"github.com/libp2p/go-libp2p/p2p/protocol/circuitv2/proto"
	"github.com/libp2p/go-libp2p/p2p/protocol/circuitv2/relay"
	"github.com/libp2p/go-libp2p/p2p/protocol/circuitv2/util"

	msmux "github.com/multiformats/go-multistream"
)

// ---- destination side: scripted stop handler -------------------------------------

func (e *c11Env) stopHandler(self int) network.StreamHandler {
	return func(s network.Stream) {
		mode, hook := e.stopMode, e.stopHook
		e.stopHook = nil
		e.cover("stop_handler")
		if mode == 1 {
			s.Reset()
			return
		}
		rd := util.NewDelimitedReader(s, 4096)
		var msg pbv2.StopMessage
		if err := rd.ReadMsg(&msg); err != nil {
			s.Reset()
			return
		}
		seen := &c11StopSeen{s: s, dst: self}
		if pi, err := util.PeerToPeerInfoV2(msg.GetPeer()); err == nil && msg.GetType() == pbv2.StopMessage_CONNECT {
			seen.srcOK = true
			seen.src = pi.ID
		}
		if hook != nil {
			hook()
		}
		wr := util.NewDelimitedWriter(s)
		switch mode {
		case 0:
			var r pbv2.StopMessage
			r.Type = pbv2.StopMessage_STATUS.Enum()
			r.Status = pbv2.Status_OK.Enum()
			wr.WriteMsg(&r)
			e.stopSeen <- seen
		case 2:
			s.Write([]byte{0x06, 0xff, 0xff, 0xff, 0xff, 0xff, 0xff})
			s.CloseWrite()
		case 3:
			var r pbv2.StopMessage
			r.Type = pbv2.StopMessage_STATUS.Enum()
			r.Status = pbv2.Status_PERMISSION_DENIED.Enum()
			wr.WriteMsg(&r)
			s.Close()
		case 4:
			var r pbv2.StopMessage
			r.Type = pbv2.StopMessage_CONNECT.Enum()
			wr.WriteMsg(&r)
			s.Close()
		case 5:
			// never answer; the relay gives up at HandshakeTimeout and resets
			buf := make([]byte, 16)
			s.Read(buf)
			s.Reset()
		case 7:
			s.Close()
		default:
			s.Reset()
		}
	}
}

// hopStream opens a hop stream from peer p over its k-th connection.
func (e *c11Env) hopStream(p, k int) (network.Stream, error) {
	c := e.conns[p][k]
	if c == nil {
		return nil, network.ErrNoConn
	}
	s, err := c.NewStream(context.Background())
	if err != nil {
		return nil, err
	}
	if err := msmux.SelectProtoOrFail(proto.ProtoIDv2Hop, s); err != nil {
		s.Reset()
		return nil, err
	}
	s.SetProtocol(proto.ProtoIDv2Hop)
	return s, nil
}

func (e *c11Env) closePeer(p int) {
	for k := 0; k < 2; k++ {
		if c := e.conns[p][k]; c != nil {
			c.Close()
			e.conns[p][k] = nil
		}
	}
}

type c11Resp struct {
	msg pbv2.HopMessage
	err error
}

func c11ReadHop(s network.Stream) chan c11Resp {
	ch := make(chan c11Resp, 1)
	go func() {
		var r c11Resp
		rd := util.NewDelimitedReader(s, 4096)
		r.err = rd.ReadMsg(&r.msg)
		ch <- r
	}()
	return ch
}

// reserve: RESERVE from p over connection k.  Returns the observation tokens.
func (e *c11Env) reserve(p, k int, acl bool, inj int) []int64 {
	e.aclAnswer = acl
	a0, s0 := e.met.allowed, len(e.met.rsvStatus)
	obs := make([]int64, 8) // cstatus allowed rstatus vok vrelay vpeer vexp rexp
	s, err := e.hopStream(p, k)
	if err != nil {
		e.cover("reserve_stream_failed")
		return obs
	}
	switch inj {
	case 1:
		e.aclHook = func() { s.Reset(); time.Sleep(time.Millisecond) }
	case 2:
		e.aclHook = func() { e.closePeer(p); time.Sleep(time.Millisecond) }
	}
	var msg pbv2.HopMessage
	msg.Type = pbv2.HopMessage_RESERVE.Enum()
	util.NewDelimitedWriter(s).WriteMsg(&msg)
	r := <-c11ReadHop(s)
	e.settle()
	s.Close()
	e.aclHook = nil
	e.met.mu.Lock()
	obs[1] = int64(e.met.allowed - a0)
	if len(e.met.rsvStatus) > s0 {
		obs[2] = int64(e.met.rsvStatus[len(e.met.rsvStatus)-1])
	}
	e.met.mu.Unlock()
	if r.err != nil {
		e.cover("reserve_no_response")
		return obs
	}
	obs[0] = int64(r.msg.GetStatus())
	if r.msg.GetType() != pbv2.HopMessage_STATUS {
		obs[0] = -1
	}
	rs := r.msg.GetReservation()
	if r.msg.GetStatus() == pbv2.Status_OK && rs != nil {
		obs[7] = int64(rs.GetExpire())*1000 - e.t0.UnixMilli()
		if vb := rs.GetVoucher(); vb != nil {
			env, rec, err := record.ConsumeEnvelope(vb, proto.RecordDomain)
			if err == nil {
				if v, ok := rec.(*proto.ReservationVoucher); ok {
					signer, _ := peer.IDFromPublicKey(env.PublicKey)
					if signer == e.rid {
						obs[3] = 1
					}
					if v.Relay == e.rid {
						obs[4] = 1
					}
					obs[5] = int64(e.peerIndex(v.Peer))
					obs[6] = v.Expiration.UnixMilli() - e.t0.UnixMilli()
				}
			}
		}
	}
	return obs
}

// connect: CONNECT src -> dst over src's connection sa.  Returns (obs, dconn).
func (e *c11Env) connect(src, sa, dst int, acl bool, dmode, smode int) ([]int64, int64) {
	e.aclAnswer = acl
	e.stopMode = dmode
	e.failStopOpen = dmode == 6
	e.lastStopConn = nil
	c0 := len(e.met.connStatus)
	obs := make([]int64, 3) // cstatus rstatus cid
	s, err := e.hopStream(src, sa)
	if err != nil {
		e.cover("connect_stream_failed")
		return obs, 0
	}
	if dmode == 0 {
		switch smode {
		case 2:
			e.stopHook = func() { s.Reset(); time.Sleep(time.Millisecond) }
		case 3:
			e.stopHook = func() { e.closePeer(src); time.Sleep(time.Millisecond) }
		}
	}
	var msg pbv2.HopMessage
	msg.Type = pbv2.HopMessage_CONNECT.Enum()
	msg.Peer = util.PeerInfoToPeerV2(peer.AddrInfo{ID: e.ids[dst]})
	switch smode {
	case 1:
		msg.Peer = &pbv2.Peer{Id: []byte{0xff, 0x01, 0x02}}
	case 4:
		msg.Type = pbv2.HopMessage_STATUS.Enum()
	}
	if smode != 5 {
		util.NewDelimitedWriter(s).WriteMsg(&msg)
	}
	r := <-c11ReadHop(s)
	e.settle()
	e.stopHook = nil
	e.failStopOpen = false
	e.met.mu.Lock()
	if len(e.met.connStatus) > c0 {
		obs[1] = int64(e.met.connStatus[len(e.met.connStatus)-1])
	}
	e.met.mu.Unlock()
	var dconn int64
	if lc := e.lastStopConn; lc != nil {
		for k := 0; k < 2; k++ {
			// conns[dst][k] is the destination's side; compare by the pair's id
			if c := e.conns[dst][k]; c != nil && c11SameConn(c, lc) {
				dconn = int64(k + 1)
			}
		}
	}
	var seen *c11StopSeen
	select {
	case seen = <-e.stopSeen:
	default:
	}
	if r.err != nil {
		e.cover("connect_no_response")
		s.Reset()
		if seen != nil {
			// the relay answered OK towards a source that is gone: circuit opened and died
			if obs[1] == int64(pbv2.Status_OK) {
				c := &c11Circuit{id: len(e.circuits) + 1, src: src, dst: dst, ds: seen.s, eofBA: true}
				e.circuits = append(e.circuits, c)
				obs[2] = int64(c.id)
				go c.readLoop(seen.s, false)
				e.settle()
			} else {
				seen.s.Reset()
			}
		}
		return obs, dconn
	}
	obs[0] = int64(r.msg.GetStatus())
	if r.msg.GetType() != pbv2.HopMessage_STATUS {
		obs[0] = -1
	}
	if r.msg.GetStatus() == pbv2.Status_OK && seen != nil {
		c := &c11Circuit{id: len(e.circuits) + 1, src: src, dst: dst, ss: s, ds: seen.s}
		e.circuits = append(e.circuits, c)
		obs[2] = int64(c.id)
		go c.readLoop(seen.s, false)
		go c.readLoop(s, true)
		if !seen.srcOK {
			e.cover("stop_msg_bad_source")
		}
	} else {
		s.Close()
		if seen != nil {
			seen.s.Reset()
		}
	}
	return obs, dconn
}

// settle: quiescence, past the 1 ms sleeps of the injection hooks.
func (e *c11Env) settle() {
	synctest.Wait()
	time.Sleep(3 * time.Millisecond)
	synctest.Wait()
}

func c11SameConn(peerSide, relaySide network.Conn) bool {
	// mocknet conn ids are allocated in pairs (local, remote) by newConnPair
	return peerSide.RemotePeer() == relaySide.LocalPeer() && peerSide.LocalPeer() == relaySide.RemotePeer() &&
		peerSide.LocalMultiaddr().Equal(relaySide.RemoteMultiaddr())
}

func (c *c11Circuit) readLoop(s network.Stream, atSrc bool) {
	buf := make([]byte, 1024)
	for {
		n, err := s.Read(buf)
		c.mu.Lock()
		if atSrc {
			c.rxBA += int64(n)
		} else {
			c.rxAB += int64(n)
		}
		if err != nil {
			if atSrc {
				c.eofBA = true
			} else {
				c.eofAB = true
			}
			c.mu.Unlock()
			return
		}
		c.mu.Unlock()
	}
}

var _ = relay.ServiceName

//go:build verif

package relay_test

import (
	"sync"
	"testing"
	"testing/synctest"

	"github.com/libp2p/go-libp2p/internal/verifh"
)

// runCase executes one history in its own synctest bubble and returns the case line.
func c11RunCase(t *testing.T, out *verifh.Out, cfg *c11Cfg, next func(e *c11Env, step int) (c11Op, bool)) []int64 {
	var line []int64
	synctest.Test(t, func(t *testing.T) {
		e := &c11Env{t: t, out: out, cfg: cfg}
		if err := e.setup(); err != nil {
			t.Fatalf("setup: %v", err)
		}
		line = cfg.header()
		for step := 0; ; step++ {
			op, ok := next(e, step)
			if !ok {
				break
			}
			if op.code == 19 {
				reqs, bm := op.batchReqs()
				line = append(line, e.batch(reqs, bm)...)
				break
			}
			line = append(line, e.exec(op)...)
		}
		e.teardown()
		synctest.Wait()
	})
	return line
}

func c11Scripted(ops []c11Op) func(e *c11Env, step int) (c11Op, bool) {
	return func(e *c11Env, step int) (c11Op, bool) {
		if step >= len(ops) {
			return c11Op{}, false
		}
		return ops[step], true
	}
}

// directed histories (also the corpus for the findings of DESIGN.md section 9)
func c11Directed() []struct {
	cfg *c11Cfg
	ops []c11Op
} {
	base := func() *c11Cfg {
		return &c11Cfg{ttl: 600000, maxRsvp: 4, maxCirc: 2, maxIP: 1, maxASN: 2, buf: 1024, limited: true,
			limData: 100, limDur: 30000, memLimit: 1 << 30, svcOut: 100, n: 3}
	}
	ip := func(i int) c11Addr { _, _, a := c11IP(i); return c11Addr{ip: i, asn: a} }
	var res []struct {
		cfg *c11Cfg
		ops []c11Op
	}
	add := func(c *c11Cfg, ops []c11Op) {
		res = append(res, struct {
			cfg *c11Cfg
			ops []c11Op
		}{c, ops})
	}
	// (a) refused refresh from a second address whose IP is full, then another peer on the first IP
	c := base()
	c.addrs = [][2]c11Addr{{ip(1), ip(2)}, {ip(1), ip(3)}, {ip(2), ip(4)}}
	add(c, []c11Op{{10, []int64{1, 0}}, {10, []int64{1, 1}}, {10, []int64{2, 0}}, {10, []int64{3, 0}},
		{12, []int64{3, 0, 1, 0}}, {12, []int64{1, 0, 1, 0}}, {12, []int64{1, 1, 1, 0}}, {12, []int64{2, 0, 1, 0}},
		{13, []int64{3, 0, 1, 1, 0, 0, 0}}, {13, []int64{3, 0, 2, 1, 0, 0, 0}}})
	// (b) same through the per-ASN cap
	c = base()
	c.maxIP, c.maxASN = 2, 1
	c.addrs = [][2]c11Addr{{ip(5), ip(8)}, {ip(6), ip(3)}, {ip(9), ip(4)}}
	add(c, []c11Op{{10, []int64{1, 0}}, {10, []int64{1, 1}}, {10, []int64{2, 0}}, {10, []int64{3, 0}},
		{12, []int64{3, 0, 1, 0}}, {12, []int64{1, 0, 1, 0}}, {12, []int64{1, 1, 1, 0}}, {12, []int64{2, 0, 1, 0}}})
	// (c) happy path with data around the limit, then the duration limit
	c = base()
	c.addrs = [][2]c11Addr{{ip(1), ip(2)}, {ip(2), ip(3)}, {ip(3), ip(4)}}
	add(c, []c11Op{{10, []int64{1, 0}}, {10, []int64{2, 0}}, {12, []int64{2, 0, 1, 0}},
		{13, []int64{1, 0, 2, 1, 0, 0, 0}}, {14, []int64{1, 0, 99}}, {14, []int64{1, 0, 5}}, {14, []int64{1, 1, 100}},
		{13, []int64{1, 0, 2, 1, 0, 0, 0}}, {14, []int64{2, 0, 10}}, {17, []int64{29000}}, {17, []int64{2000}}})
	// (d) reservation granted to a peer that disconnected while the request was being handled
	c = base()
	c.addrs = [][2]c11Addr{{ip(1), ip(2)}, {ip(2), ip(3)}, {ip(3), ip(4)}}
	add(c, []c11Op{{10, []int64{1, 0}}, {10, []int64{2, 0}}, {12, []int64{2, 0, 1, 2}},
		{13, []int64{1, 0, 2, 1, 0, 0, 0}}, {17, []int64{61000}}, {17, []int64{600000}}})
	// (e) the relay host also holds a limited connection to the reserving peer; the direct one closes
	c = base()
	c.addrs = [][2]c11Addr{{ip(1), ip(2)}, {ip(2), ip(3)}, {ip(3), ip(4)}}
	add(c, []c11Op{{10, []int64{1, 0}}, {10, []int64{2, 0}}, {12, []int64{2, 0, 1, 0}}, {10, []int64{2, 2}},
		{11, []int64{2, 0}}, {13, []int64{1, 0, 2, 1, 0, 0, 0}}, {12, []int64{2, 0, 1, 0}}, {11, []int64{2, 2}}, {17, []int64{1000}}})
	return res
}

func TestVerifC11(t *testing.T) {
	out, err := verifh.Open()
	if err != nil {
		t.Fatal(err)
	}
	defer out.Close()
	if err := c11CheckASNTable(); err != nil {
		t.Fatal(err)
	}
	for _, d := range c11Directed() {
		out.Case(c11RunCase(t, out, d.cfg, c11Scripted(d.ops)))
		out.Cover("cases_directed")
	}
	out.Case(c11ClientCase(t, out, c11ClientDirected()))
	out.Cover("cases_client")
	{
		rr := verifh.NewRand(verifh.Seed() + 77)
		nc := 6
		if verifh.Tier() == "thorough" {
			nc = 40
		}
		for i := 0; i < nc; i++ {
			out.Case(c11ClientCase(t, out, c11ClientRandom(rr, 60)))
			out.Cover("cases_client")
		}
	}
	ncases, nops := 600, 40
	if verifh.Tier() == "thorough" {
		ncases, nops = 2400, 60
	}
	root := verifh.NewRand(verifh.Seed())
	seeds := make([]*verifh.Rand, ncases)
	for i := range seeds {
		seeds[i] = root.Fork()
	}
	var wg sync.WaitGroup
	jobs := make(chan int)
	for w := 0; w < 8; w++ {
		wg.Add(1)
		go func() {
			defer wg.Done()
			for i := range jobs {
				r := seeds[i]
				cfg := c11GenCfg(r)
				total := nops/2 + r.Intn(nops)
				line := c11RunCase(t, out, cfg, func(e *c11Env, step int) (c11Op, bool) {
					if step >= total {
						if step == total && i%2 == 0 {
							if reqs, bm := e.genBatch(r); len(reqs) >= 2 {
								return c11BatchOp(reqs, bm), true
							}
						}
						return c11Op{}, false
					}
					return e.genOp(r, step, total), true
				})
				out.Case(line)
				out.Cover("cases_random")
			}
		}()
	}
	for i := 0; i < ncases; i++ {
		jobs <- i
	}
	close(jobs)
	wg.Wait()
}

func TestVerifNothing(t *testing.T) {}

// TestVerifC11Replay re-executes the operations of a recorded case line
// ($VERIF_REPLAY_CASE) on the current tree and writes the new trace.
func TestVerifC11Replay(t *testing.T) {
	toks := verifh.ReplayCase()
	out, err := verifh.Open()
	if err != nil {
		t.Fatal(err)
	}
	defer out.Close()
	if len(toks) >= 2 && toks[0] == 2 {
		// a client case: re-run the scripted answers against the real client.Reserve
		var ds []c11CDesc
		for i := 2; i+17 < len(toks)+0 && i+18 <= len(toks); i += 18 {
			ds = append(ds, c11CDesc{toks[i], toks[i+1], toks[i+2], toks[i+3], toks[i+4], toks[i+5], toks[i+6], toks[i+7], toks[i+8], toks[i+9], toks[i+10], toks[i+11]})
		}
		out.Case(c11ClientCase(t, out, ds))
		return
	}
	if len(toks) < 13 || toks[0] != 1 {
		t.Fatal("no case")
	}
	c := &c11Cfg{ttl: toks[1], maxRsvp: int(toks[2]), maxCirc: int(toks[3]), maxIP: int(toks[4]), maxASN: int(toks[5]),
		buf: int(toks[6]), limited: toks[7] != 0, limData: toks[8], limDur: toks[9], memLimit: toks[10], svcOut: int(toks[11]), n: int(toks[12])}
	i := 13
	for p := 0; p < c.n; p++ {
		var pr [2]c11Addr
		for k := 0; k < 2; k++ {
			pr[k] = c11Addr{ip: int(toks[i]), asn: int(toks[i+1]), relayed: toks[i+2]&1 != 0, noip: toks[i+2]&2 != 0, mapped: toks[i+2]&4 != 0}
			i += 3
		}
		c.addrs = append(c.addrs, pr)
	}
	var ops []c11Op
	for i < len(toks) {
		code := int(toks[i])
		if code == 19 {
			k, bm := int(toks[i+2]), int(toks[i+3])
			j := i + 4
			var reqs []*c11BReq
			for ; k > 0; k-- {
				if toks[j] == 12 {
					reqs = append(reqs, &c11BReq{kind: 12, p: int(toks[j+1]), a: int(toks[j+2])})
					j += 7
				} else {
					reqs = append(reqs, &c11BReq{kind: 13, p: int(toks[j+1]), a: int(toks[j+2]), dst: int(toks[j+3])})
					j += 6
				}
			}
			ops = append(ops, c11BatchOp(reqs, bm))
			break
		}
		na, ok := c11NArgs[code]
		if !ok {
			t.Fatalf("bad op code %d at %d", code, i)
		}
		args := append([]int64{}, toks[i+2:i+2+na]...)
		j := i + 2 + na + c11NObs[code]
		nc := int(toks[j+4+12*c.n])
		ops = append(ops, c11Op{code, args})
		i = j + 4 + 12*c.n + 1 + 5*nc
	}
	out.Case(c11RunCase(t, out, c, c11Scripted(ops)))
}

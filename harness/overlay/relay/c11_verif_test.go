//go:build verif

// C11 — circuit relay v2: correspondence harness.
//
// The REAL relay.Relay runs on a mocknet host inside a testing/synctest bubble
// (virtual time: reservation TTLs, the relay's one-minute gc ticker, handshake
// timeouts, circuit duration limits).  The relay's host is wrapped so that
//   - Network().ResourceManager() is a real rcmgr with a small limit on the
//     relay service scope (mocknet has a null resource manager),
//   - ConnManager() is a real BasicConnMgr notified by the mocknet network,
//   - streams handed to / opened by the relay carry a real rcmgr stream scope
//     and honour Set(Read)Deadline (mocknet streams ignore deadlines),
//   - NewStream honours network.WithNoDial (mocknet would silently redial).
//
// Sources and destinations are scripted by the harness with hand-written
// hop/stop messages (reset, malformed, non-OK status, wrong type, timeout ...).
// One stimulus at a time, synctest.Wait() before the snapshot, so the order of
// events is the harness's.  Wire format: see coq/c11/Spec.v.
package relay_test

import (
	"context"
	"errors"
	"io"
	"os"
	"sync"
	"time"

	coreconnmgr "github.com/libp2p/go-libp2p/core/connmgr"
	"github.com/libp2p/go-libp2p/core/host"
	"github.com/libp2p/go-libp2p/core/network"
	"github.com/libp2p/go-libp2p/core/peer"
	"github.com/libp2p/go-libp2p/core/protocol"
	"github.com/libp2p/go-libp2p/p2p/net/connmgr"
	pbv2 "github.com/libp2p/go-libp2p/p2p/protocol/circuitv2/pb"

	ma "github.com/multiformats/go-multiaddr"
)

// ---- relay-side host wrapper ------------------------------------------------

type c11Host struct {
	host.Host
	nw  *c11Net
	cm  *connmgr.BasicConnMgr
	env *c11Env
}

type c11Net struct {
	network.Network
	rm  network.ResourceManager
	env *c11Env
	mu  sync.Mutex
	nfs map[network.Notifiee]network.Notifiee
}

func (n *c11Net) ResourceManager() network.ResourceManager { return n.rm }

// Connectedness: a peer to which the relay host holds only a LIMITED connection (it reaches
// the peer through another relay; faked by the harness, op 10/11 with k = 2) is Limited.
func (n *c11Net) Connectedness(p peer.ID) network.Connectedness {
	c := n.Network.Connectedness(p)
	if c == network.NotConnected && n.env.isLimited(p) {
		n.env.cover("connectedness_limited")
		return network.Limited
	}
	return c
}

// notifiees see this network (and its Connectedness), not the raw mocknet one
type c11Notif struct {
	network.Notifiee
	nw *c11Net
}

func (f *c11Notif) Connected(_ network.Network, c network.Conn)    { f.Notifiee.Connected(f.nw, c) }
func (f *c11Notif) Disconnected(_ network.Network, c network.Conn) { f.Notifiee.Disconnected(f.nw, c) }

func (n *c11Net) Notify(f network.Notifiee) {
	w := &c11Notif{Notifiee: f, nw: n}
	n.mu.Lock()
	if n.nfs == nil {
		n.nfs = map[network.Notifiee]network.Notifiee{}
	}
	n.nfs[f] = w
	n.mu.Unlock()
	n.Network.Notify(w)
}

func (n *c11Net) StopNotify(f network.Notifiee) {
	n.mu.Lock()
	w := n.nfs[f]
	delete(n.nfs, f)
	n.mu.Unlock()
	if w != nil {
		n.Network.StopNotify(w)
	}
}

func (h *c11Host) Network() network.Network             { return h.nw }
func (h *c11Host) ConnManager() coreconnmgr.ConnManager { return h.cm }

func (h *c11Host) SetStreamHandler(pid protocol.ID, f network.StreamHandler) {
	h.Host.SetStreamHandler(pid, func(s network.Stream) {
		ws := h.env.wrap(s, pid)
		if ws == nil {
			s.Reset()
			return
		}
		f(ws)
	})
}

func (h *c11Host) NewStream(ctx context.Context, p peer.ID, pids ...protocol.ID) (network.Stream, error) {
	h.env.cover("relay_newstream")
	if nodial, _ := network.GetNoDial(ctx); nodial && h.Host.Network().Connectedness(p) != network.Connected {
		// what the real swarm does under WithNoDial; mocknet would redial
		h.env.cover("relay_newstream_nodial_refused")
		return nil, network.ErrNoConn
	}
	if h.env.failStopOpen {
		h.env.cover("relay_newstream_injected_failure")
		return nil, errors.New("c11: injected stop stream failure")
	}
	s, err := h.Host.NewStream(ctx, p, pids...)
	if err != nil {
		return nil, err
	}
	h.env.lastStopConn = s.Conn()
	ws := h.env.wrap(s, pids[0])
	if ws == nil {
		s.Reset()
		return nil, errors.New("c11: stream scope refused")
	}
	return ws, nil
}

// ---- stream wrapper: real rcmgr stream scope + deadlines ---------------------

type c11Stream struct {
	network.Stream
	scope network.StreamManagementScope
	done  sync.Once

	mu   sync.Mutex
	rdl  time.Time
	dlch chan struct{}

	ch   chan []byte
	perr error
	left []byte
	quit chan struct{}
	qonc sync.Once
}

func (e *c11Env) wrap(s network.Stream, pid protocol.ID) *c11Stream {
	sc, err := e.rm.OpenStream(s.Conn().RemotePeer(), s.Stat().Direction)
	if err != nil {
		return nil
	}
	if err := sc.SetProtocol(pid); err != nil {
		sc.Done()
		return nil
	}
	ws := &c11Stream{Stream: s, scope: sc, dlch: make(chan struct{}), ch: make(chan []byte), quit: make(chan struct{})}
	go ws.pump()
	return ws
}

func (s *c11Stream) pump() {
	defer close(s.ch)
	for {
		b := make([]byte, 4096)
		n, err := s.Stream.Read(b)
		if n > 0 {
			select {
			case s.ch <- b[:n]:
			case <-s.quit:
				return
			}
		}
		if err != nil {
			s.perr = err
			return
		}
	}
}

func (s *c11Stream) Read(p []byte) (int, error) {
	for {
		if len(s.left) > 0 {
			n := copy(p, s.left)
			s.left = s.left[n:]
			return n, nil
		}
		s.mu.Lock()
		dl, dlch := s.rdl, s.dlch
		s.mu.Unlock()
		var tc <-chan time.Time
		var tm *time.Timer
		if !dl.IsZero() {
			d := time.Until(dl)
			if d <= 0 {
				return 0, os.ErrDeadlineExceeded
			}
			tm = time.NewTimer(d)
			tc = tm.C
		}
		select {
		case b, ok := <-s.ch:
			if tm != nil {
				tm.Stop()
			}
			if !ok {
				if s.perr != nil {
					return 0, s.perr
				}
				return 0, io.EOF
			}
			s.left = b
		case <-tc:
			return 0, os.ErrDeadlineExceeded
		case <-dlch:
			if tm != nil {
				tm.Stop()
			}
		case <-s.quit:
			if tm != nil {
				tm.Stop()
			}
			return 0, network.ErrReset
		}
	}
}

func (s *c11Stream) setRDL(t time.Time) {
	s.mu.Lock()
	s.rdl = t
	close(s.dlch)
	s.dlch = make(chan struct{})
	s.mu.Unlock()
}

func (s *c11Stream) SetDeadline(t time.Time) error      { s.setRDL(t); return nil }
func (s *c11Stream) SetReadDeadline(t time.Time) error  { s.setRDL(t); return nil }
func (s *c11Stream) SetWriteDeadline(t time.Time) error { return nil }
func (s *c11Stream) Scope() network.StreamScope         { return s.scope }

func (s *c11Stream) finish() {
	s.qonc.Do(func() { close(s.quit) })
	s.done.Do(func() { s.scope.Done() })
}

func (s *c11Stream) CloseRead() error {
	err := s.Stream.CloseRead()
	s.qonc.Do(func() { close(s.quit) })
	return err
}
func (s *c11Stream) Close() error { err := s.Stream.Close(); s.finish(); return err }
func (s *c11Stream) Reset() error { err := s.Stream.Reset(); s.finish(); return err }
func (s *c11Stream) ResetWithError(c network.StreamErrorCode) error {
	err := s.Stream.ResetWithError(c)
	s.finish()
	return err
}

// ---- ACL stub and metrics recorder -------------------------------------------

type c11ACL struct{ env *c11Env }

func (a *c11ACL) AllowReserve(p peer.ID, addr ma.Multiaddr) bool {
	a.env.cover("acl_reserve")
	if f := a.env.aclHook; f != nil {
		a.env.aclHook = nil
		f()
	}
	return a.env.aclAnswer
}

func (a *c11ACL) AllowConnect(src peer.ID, srcAddr ma.Multiaddr, dest peer.ID) bool {
	a.env.cover("acl_connect")
	return a.env.aclAnswer
}

type c11Metrics struct {
	mu         sync.Mutex
	allowed    int
	renewal    int
	rsvStatus  []pbv2.Status
	connStatus []pbv2.Status
	opened     int
	closedN    int
	bytes      int64
	rsvClosed  int
}

func (m *c11Metrics) RelayStatus(bool)               {}
func (m *c11Metrics) ConnectionOpened()              { m.mu.Lock(); m.opened++; m.mu.Unlock() }
func (m *c11Metrics) ConnectionClosed(time.Duration) { m.mu.Lock(); m.closedN++; m.mu.Unlock() }
func (m *c11Metrics) ConnectionRequestHandled(s pbv2.Status) {
	m.mu.Lock()
	m.connStatus = append(m.connStatus, s)
	m.mu.Unlock()
}
func (m *c11Metrics) ReservationAllowed(isRenewal bool) {
	m.mu.Lock()
	m.allowed++
	if isRenewal {
		m.renewal++
	}
	m.mu.Unlock()
}
func (m *c11Metrics) ReservationClosed(cnt int) { m.mu.Lock(); m.rsvClosed += cnt; m.mu.Unlock() }
func (m *c11Metrics) ReservationRequestHandled(s pbv2.Status) {
	m.mu.Lock()
	m.rsvStatus = append(m.rsvStatus, s)
	m.mu.Unlock()
}
func (m *c11Metrics) BytesTransferred(cnt int) { m.mu.Lock(); m.bytes += int64(cnt); m.mu.Unlock() }

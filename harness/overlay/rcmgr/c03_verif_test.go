//go:build verif

package rcmgr

// C03 correspondence harness (injected with `go test -overlay`; not part of
// /repo).  Drives the REAL resource manager through its API (gc() and the
// unexported counters are read in-package) with generated histories and writes
// one case per line in the wire format documented in /verif/coq/c03/Spec.v.

import (
	"errors"
	"fmt"
	"math"
	"net/netip"
	"os"
	"runtime"
	"sort"
	"strings"
	"sync"
	"sync/atomic"
	"testing"

	"github.com/libp2p/go-libp2p/core/network"
	"github.com/libp2p/go-libp2p/core/peer"
	"github.com/libp2p/go-libp2p/core/protocol"
	"github.com/libp2p/go-libp2p/internal/verifh"
	"github.com/libp2p/go-libp2p/x/rate"
	ma "github.com/multiformats/go-multiaddr"
	mh "github.com/multiformats/go-multihash"
)

// ---- configuration -----------------------------------------------------------

type c03Prefix struct {
	v6  bool
	w   [4]uint32 // v4 address in w[0]
	len int
}

type c03Allow struct {
	p    c03Prefix
	peer int // -1 none
}

type c03PreLim struct {
	p   c03Prefix
	cap int
}

type c03Over struct {
	kind, id int
	lim      BaseLimit
}

type c03Cfg struct {
	lims  [11]BaseLimit // system transient asystem atransient svc svcpeer proto protopeer peer conn stream
	over  []c03Over
	allow []c03Allow
	sub4  [][2]int
	sub6  [][2]int
	pre4  []c03PreLim
	pre6  []c03PreLim
}

func c03PeerID(n int) peer.ID {
	h, err := mh.Sum([]byte(fmt.Sprintf("verif-c03-peer-%d", n)), mh.SHA2_256, -1)
	if err != nil {
		panic(err)
	}
	return peer.ID(h)
}
func c03Proto(n int) protocol.ID { return protocol.ID(fmt.Sprintf("/verif/%d", n)) }
func c03Svc(n int) string        { return fmt.Sprintf("svc%d", n) }

func (p c03Prefix) addr() netip.Addr {
	if !p.v6 {
		return netip.AddrFrom4([4]byte{byte(p.w[0] >> 24), byte(p.w[0] >> 16), byte(p.w[0] >> 8), byte(p.w[0])})
	}
	var b [16]byte
	for i := 0; i < 4; i++ {
		b[4*i], b[4*i+1], b[4*i+2], b[4*i+3] = byte(p.w[i]>>24), byte(p.w[i]>>16), byte(p.w[i]>>8), byte(p.w[i])
	}
	return netip.AddrFrom16(b)
}

func (p c03Prefix) prefix() netip.Prefix { return netip.PrefixFrom(p.addr(), p.len).Masked() }

func (p c03Prefix) wire() []int64 {
	v := int64(0)
	if p.v6 {
		v = 1
	}
	return []int64{v, int64(p.w[0]), int64(p.w[1]), int64(p.w[2]), int64(p.w[3]), int64(p.len)}
}

func c03Lim64(x int64) int64 {
	if x == math.MaxInt64 {
		return -1
	}
	return x
}

func c03LimWire(l BaseLimit) []int64 {
	return []int64{c03Lim64(l.Memory), c03Lim64(int64(l.Streams)), c03Lim64(int64(l.StreamsInbound)), c03Lim64(int64(l.StreamsOutbound)),
		c03Lim64(int64(l.Conns)), c03Lim64(int64(l.ConnsInbound)), c03Lim64(int64(l.ConnsOutbound)), c03Lim64(int64(l.FD))}
}

func (c *c03Cfg) wire(flags int64) []int64 {
	out := []int64{3, flags}
	for _, l := range c.lims {
		out = append(out, c03LimWire(l)...)
	}
	out = append(out, int64(len(c.over)))
	for _, o := range c.over {
		out = append(out, int64(o.kind), int64(o.id))
		out = append(out, c03LimWire(o.lim)...)
	}
	out = append(out, int64(len(c.allow)))
	for _, a := range c.allow {
		out = append(out, a.p.wire()...)
		out = append(out, int64(a.peer))
	}
	out = append(out, int64(len(c.sub4)))
	for _, s := range c.sub4 {
		out = append(out, int64(s[0]), c03Lim64(int64(s[1])))
	}
	out = append(out, int64(len(c.sub6)))
	for _, s := range c.sub6 {
		out = append(out, int64(s[0]), c03Lim64(int64(s[1])))
	}
	out = append(out, int64(len(c.pre4)))
	for _, p := range c.pre4 {
		out = append(out, p.p.wire()...)
		out = append(out, c03Lim64(int64(p.cap)))
	}
	out = append(out, int64(len(c.pre6)))
	for _, p := range c.pre6 {
		out = append(out, p.p.wire()...)
		out = append(out, c03Lim64(int64(p.cap)))
	}
	return out
}

func (c *c03Cfg) limiter() Limiter {
	cc := ConcreteLimitConfig{
		system: c.lims[0], transient: c.lims[1], allowlistedSystem: c.lims[2], allowlistedTransient: c.lims[3],
		serviceDefault: c.lims[4], servicePeerDefault: c.lims[5], protocolDefault: c.lims[6], protocolPeerDefault: c.lims[7],
		peerDefault: c.lims[8], conn: c.lims[9], stream: c.lims[10],
		service: map[string]BaseLimit{}, servicePeer: map[string]BaseLimit{},
		protocol: map[protocol.ID]BaseLimit{}, protocolPeer: map[protocol.ID]BaseLimit{},
		peer: map[peer.ID]BaseLimit{},
	}
	for _, o := range c.over {
		switch o.kind {
		case 4:
			cc.service[c03Svc(o.id)] = o.lim
		case 5:
			cc.protocol[c03Proto(o.id)] = o.lim
		case 6:
			cc.peer[c03PeerID(o.id)] = o.lim
		case 7:
			cc.servicePeer[c03Svc(o.id)] = o.lim
		case 8:
			cc.protocolPeer[c03Proto(o.id)] = o.lim
		}
	}
	return &fixedLimiter{cc}
}

func (c *c03Cfg) manager(t testing.TB) *resourceManager { return c.managerWith(t, c.limiter()) }

func (c *c03Cfg) managerWith(t testing.TB, lim Limiter) *resourceManager {
	var mas []ma.Multiaddr
	for _, a := range c.allow {
		fam := "ip4"
		if a.p.v6 {
			fam = "ip6"
		}
		s := fmt.Sprintf("/%s/%s/ipcidr/%d", fam, a.p.prefix().Addr().String(), a.p.len)
		if a.peer >= 0 {
			s += "/p2p/" + c03PeerID(a.peer).String()
		}
		mas = append(mas, ma.StringCast(s))
	}
	sub4 := []ConnLimitPerSubnet{}
	for _, s := range c.sub4 {
		sub4 = append(sub4, ConnLimitPerSubnet{PrefixLength: s[0], ConnCount: s[1]})
	}
	sub6 := []ConnLimitPerSubnet{}
	for _, s := range c.sub6 {
		sub6 = append(sub6, ConnLimitPerSubnet{PrefixLength: s[0], ConnCount: s[1]})
	}
	pre4 := []NetworkPrefixLimit{}
	for _, p := range c.pre4 {
		pre4 = append(pre4, NetworkPrefixLimit{Network: p.p.prefix(), ConnCount: p.cap})
	}
	pre6 := []NetworkPrefixLimit{}
	for _, p := range c.pre6 {
		pre6 = append(pre6, NetworkPrefixLimit{Network: p.p.prefix(), ConnCount: p.cap})
	}
	rm, err := NewResourceManager(lim,
		WithMetricsDisabled(),
		WithConnRateLimiters(&rate.Limiter{}), // rate limiting is not part of C03
		WithAllowlistedMultiaddrs(mas),
		WithLimitPerSubnet(sub4, sub6),
		WithNetworkPrefixLimit(pre4, pre6))
	if err != nil {
		t.Fatalf("NewResourceManager: %v", err)
	}
	return rm.(*resourceManager)
}

// ---- operations ------------------------------------------------------------------

type c03Sid struct{ k, a, b int }

type c03Ep struct {
	hasIP bool
	v6    bool
	w     [4]uint32
}

func (e c03Ep) multiaddr() ma.Multiaddr {
	if !e.hasIP {
		return ma.StringCast("/dns4/verif.example/tcp/4001")
	}
	p := c03Prefix{v6: e.v6, w: e.w}
	if e.v6 {
		return ma.StringCast("/ip6/" + p.addr().String() + "/tcp/4001")
	}
	return ma.StringCast("/ip4/" + p.addr().String() + "/tcp/4001")
}

type c03Op struct {
	code    int // 1..10 as in Spec.v
	i, q    int // conn/stream id, peer/proto/svc id
	inb, fd bool
	ep      c03Ep
	t       c03Sid
	sz      int64
	prio    int
	k       int // span id
}

func b2i(b bool) int64 {
	if b {
		return 1
	}
	return 0
}

func (o c03Op) wire() []int64 {
	switch o.code {
	case 1:
		return []int64{1, int64(o.i), b2i(o.inb), b2i(o.fd), b2i(o.ep.hasIP), b2i(o.ep.v6), int64(o.ep.w[0]), int64(o.ep.w[1]), int64(o.ep.w[2]), int64(o.ep.w[3])}
	case 2, 4, 5:
		return []int64{int64(o.code), int64(o.i), int64(o.q)}
	case 3:
		return []int64{3, int64(o.i), int64(o.q), b2i(o.inb)}
	case 6:
		return []int64{6, int64(o.t.k), int64(o.t.a), int64(o.t.b), o.sz, int64(o.prio)}
	case 7:
		return []int64{7, int64(o.t.k), int64(o.t.a), int64(o.t.b), o.sz}
	case 8:
		return []int64{8, int64(o.t.k), int64(o.t.a), int64(o.t.b), int64(o.k)}
	case 9:
		return []int64{9, int64(o.t.k), int64(o.t.a), int64(o.t.b)}
	default:
		return []int64{10}
	}
}

// ---- one run against the real manager -------------------------------------------------

type c03Entry struct {
	st   network.ScopeStat
	ref  int
	done int
}

type c03Run struct {
	t       testing.TB
	cfg     *c03Cfg
	rm      *resourceManager
	conns   map[int]*connectionScope
	streams map[int]*streamScope
	spans   map[int]*resourceScope
	peerIdx map[peer.ID]int
	protIdx map[protocol.ID]int
	svcIdx  map[string]int
	last    map[c03Sid]c03Entry
	line    []int64
	out     *verifh.Out
	// what the callers hold directly (harness-side bookkeeping, used by the
	// generator only: release at most what was reserved)
	own map[c03Sid]int64
	// last error text, for coverage
	lastErr string
	nops    int
}

func c03NewRun(t testing.TB, out *verifh.Out, cfg *c03Cfg, flags int64) *c03Run {
	r := &c03Run{t: t, cfg: cfg, rm: cfg.manager(t), out: out,
		conns: map[int]*connectionScope{}, streams: map[int]*streamScope{}, spans: map[int]*resourceScope{},
		peerIdx: map[peer.ID]int{}, protIdx: map[protocol.ID]int{}, svcIdx: map[string]int{},
		last: map[c03Sid]c03Entry{}, own: map[c03Sid]int64{}}
	for i := 0; i < 64; i++ {
		r.peerIdx[c03PeerID(i)] = i
		r.protIdx[c03Proto(i)] = i
		r.svcIdx[c03Svc(i)] = i
	}
	r.line = cfg.wire(flags)
	return r
}

func (r *c03Run) close() { r.rm.Close() }

func c03Read(s *resourceScope) c03Entry {
	s.Lock()
	defer s.Unlock()
	d := 0
	if s.done {
		d = 1
	}
	return c03Entry{st: s.rc.stat(), ref: s.refCnt, done: d}
}

// snapshot of every scope reachable from the manager's maps and the handles
func (r *c03Run) snapshot() map[c03Sid]c03Entry {
	m := map[c03Sid]c03Entry{}
	rm := r.rm
	m[c03Sid{0, 0, 0}] = c03Read(rm.system.resourceScope)
	m[c03Sid{1, 0, 0}] = c03Read(rm.transient.resourceScope)
	m[c03Sid{2, 0, 0}] = c03Read(rm.allowlistedSystem.resourceScope)
	m[c03Sid{3, 0, 0}] = c03Read(rm.allowlistedTransient.resourceScope)
	rm.mx.Lock()
	svcs := make([]*serviceScope, 0)
	for _, s := range rm.svc {
		svcs = append(svcs, s)
	}
	protos := make([]*protocolScope, 0)
	for _, s := range rm.proto {
		protos = append(protos, s)
	}
	peers := make([]*peerScope, 0)
	for _, s := range rm.peer {
		peers = append(peers, s)
	}
	rm.mx.Unlock()
	for _, s := range svcs {
		si := r.svcIdx[s.service]
		m[c03Sid{4, si, 0}] = c03Read(s.resourceScope)
		s.Lock()
		subs := map[peer.ID]*resourceScope{}
		for p, ps := range s.peers {
			subs[p] = ps
		}
		s.Unlock()
		for p, ps := range subs {
			m[c03Sid{7, si, r.peerIdx[p]}] = c03Read(ps)
		}
	}
	for _, s := range protos {
		pi := r.protIdx[s.proto]
		m[c03Sid{5, pi, 0}] = c03Read(s.resourceScope)
		s.Lock()
		subs := map[peer.ID]*resourceScope{}
		for p, ps := range s.peers {
			subs[p] = ps
		}
		s.Unlock()
		for p, ps := range subs {
			m[c03Sid{8, pi, r.peerIdx[p]}] = c03Read(ps)
		}
	}
	for _, s := range peers {
		m[c03Sid{6, r.peerIdx[s.peer], 0}] = c03Read(s.resourceScope)
	}
	for i, c := range r.conns {
		m[c03Sid{9, i, 0}] = c03Read(c.resourceScope)
	}
	for i, s := range r.streams {
		m[c03Sid{10, i, 0}] = c03Read(s.resourceScope)
	}
	for i, s := range r.spans {
		m[c03Sid{11, i, 0}] = c03Read(s)
	}
	return m
}

func c03Class(err error) int64 {
	switch {
	case err == nil:
		return 0
	case errors.Is(err, network.ErrResourceLimitExceeded):
		return 1
	case errors.Is(err, network.ErrResourceScopeClosed):
		return 2
	case strings.Contains(err.Error(), "connections per ip limit exceeded"):
		return 4
	default:
		return 3
	}
}

// scope named in a refusal: "conn-3: transient: cannot reserve ..."
func c03Refuser(err error) string {
	if err == nil {
		return ""
	}
	parts := strings.Split(err.Error(), ": ")
	pick := parts[0]
	if len(parts) >= 3 {
		for _, p := range parts[1 : len(parts)-1] {
			if strings.HasPrefix(p, "cannot reserve") || strings.HasPrefix(p, "resource") {
				break
			}
			pick = p
		}
	}
	switch {
	case strings.Contains(pick, ".span-"):
		return "span"
	case strings.Contains(pick, ".peer:"):
		return "subpeer"
	case strings.HasPrefix(pick, "conn-"):
		return "conn"
	case strings.HasPrefix(pick, "stream-"):
		return "stream"
	case strings.HasPrefix(pick, "peer:"):
		return "peer"
	case strings.HasPrefix(pick, "protocol:"):
		return "protocol"
	case strings.HasPrefix(pick, "service:"):
		return "service"
	case pick == "system", pick == "transient", pick == "allowlistedSystem", pick == "allowlistedTransient":
		return pick
	}
	return "other"
}

// the scope object behind a sid (View* for the manager's scopes)
func (r *c03Run) withScope(t c03Sid, f func(s network.ResourceScope) error) error {
	switch t.k {
	case 0:
		return r.rm.ViewSystem(f)
	case 1:
		return r.rm.ViewTransient(f)
	case 4:
		return r.rm.ViewService(c03Svc(t.a), func(s network.ServiceScope) error { return f(s) })
	case 5:
		return r.rm.ViewProtocol(c03Proto(t.a), func(s network.ProtocolScope) error { return f(s) })
	case 6:
		return r.rm.ViewPeer(c03PeerID(t.a), func(s network.PeerScope) error { return f(s) })
	case 9:
		if c, ok := r.conns[t.a]; ok {
			return f(c)
		}
	case 10:
		if s, ok := r.streams[t.a]; ok {
			return f(s)
		}
	case 11:
		if s, ok := r.spans[t.a]; ok {
			return f(s)
		}
	}
	return errors.New("verif: no such handle")
}

func (r *c03Run) hasHandle(t c03Sid) bool {
	switch t.k {
	case 9:
		_, ok := r.conns[t.a]
		return ok
	case 10:
		_, ok := r.streams[t.a]
		return ok
	case 11:
		_, ok := r.spans[t.a]
		return ok
	}
	return t.k == 0 || t.k == 1 || t.k == 4 || t.k == 5 || t.k == 6
}

// do executes one operation on the real manager and appends op + observation.
// Returns the error class, or -1 when the operation cannot be issued (no handle).
func (r *c03Run) do(o c03Op) int64 {
	var err error
	aflag := int64(0)
	switch o.code {
	case 1:
		if _, dup := r.conns[o.i]; dup {
			return -1
		}
		dir := network.DirOutbound
		if o.inb {
			dir = network.DirInbound
		}
		var cs network.ConnManagementScope
		cs, err = r.rm.OpenConnection(dir, o.fd, o.ep.multiaddr())
		if err == nil {
			c := cs.(*connectionScope)
			r.conns[o.i] = c
			if c.isAllowlisted {
				aflag = 1
			}
		}
	case 2:
		c, ok := r.conns[o.i]
		if !ok {
			return -1
		}
		err = c.SetPeer(c03PeerID(o.q))
	case 3:
		if _, dup := r.streams[o.i]; dup {
			return -1
		}
		dir := network.DirOutbound
		if o.inb {
			dir = network.DirInbound
		}
		var ss network.StreamManagementScope
		ss, err = r.rm.OpenStream(c03PeerID(o.q), dir)
		if err == nil {
			r.streams[o.i] = ss.(*streamScope)
		}
	case 4:
		s, ok := r.streams[o.i]
		if !ok {
			return -1
		}
		err = s.SetProtocol(c03Proto(o.q))
	case 5:
		s, ok := r.streams[o.i]
		if !ok {
			return -1
		}
		err = s.SetService(c03Svc(o.q))
	case 6:
		if !r.hasHandle(o.t) {
			return -1
		}
		err = r.withScope(o.t, func(s network.ResourceScope) error { return s.ReserveMemory(int(o.sz), uint8(o.prio)) })
		if err == nil {
			r.own[o.t] += o.sz
		}
	case 7:
		if !r.hasHandle(o.t) {
			return -1
		}
		err = r.withScope(o.t, func(s network.ResourceScope) error { s.ReleaseMemory(int(o.sz)); return nil })
		r.own[o.t] -= o.sz
		if r.own[o.t] < 0 {
			r.own[o.t] = 0
		}
	case 8:
		if !r.hasHandle(o.t) {
			return -1
		}
		if _, dup := r.spans[o.k]; dup {
			return -1
		}
		err = r.withScope(o.t, func(s network.ResourceScope) error {
			sp, e := s.BeginSpan()
			if e == nil {
				r.spans[o.k] = sp.(*resourceScope)
			}
			return e
		})
	case 9:
		switch o.t.k {
		case 9:
			c, ok := r.conns[o.t.a]
			if !ok {
				return -1
			}
			c.Done()
		case 10:
			s, ok := r.streams[o.t.a]
			if !ok {
				return -1
			}
			s.Done()
		case 11:
			s, ok := r.spans[o.t.a]
			if !ok {
				return -1
			}
			s.Done()
		default:
			return -1
		}
		r.own[o.t] = 0
	case 10:
		r.rm.gc()
	default:
		return -1
	}
	cls := c03Class(err)
	r.lastErr = ""
	if err != nil {
		r.lastErr = err.Error()
	}
	r.line = append(r.line, o.wire()...)
	r.line = append(r.line, cls, aflag)
	r.appendDelta()
	r.nops++
	if r.out != nil {
		r.out.Cover(fmt.Sprintf("op.%d.class%d", o.code, cls))
		if cls == 1 {
			r.out.Cover(fmt.Sprintf("refused.op%d.by.%s", o.code, c03Refuser(err)))
		}
	}
	return cls
}

func (r *c03Run) appendDelta() { r.appendDeltaSnap(r.snapshot()) }

func (r *c03Run) appendDeltaSnap(snap map[c03Sid]c03Entry) {
	keys := make([]c03Sid, 0, len(snap)+len(r.last))
	seen := map[c03Sid]bool{}
	for k := range snap {
		keys = append(keys, k)
		seen[k] = true
	}
	for k := range r.last {
		if !seen[k] {
			keys = append(keys, k)
		}
	}
	sort.Slice(keys, func(i, j int) bool {
		a, b := keys[i], keys[j]
		if a.k != b.k {
			return a.k < b.k
		}
		if a.a != b.a {
			return a.a < b.a
		}
		return a.b < b.b
	})
	var ents []int64
	n := 0
	for _, k := range keys {
		e, ok := snap[k]
		if !ok {
			e = c03Entry{done: 2}
		}
		old, had := r.last[k]
		if had && old == e {
			continue
		}
		if !had && !ok {
			continue
		}
		r.last[k] = e
		ents = append(ents, int64(k.k), int64(k.a), int64(k.b), e.st.Memory, int64(e.st.NumStreamsInbound), int64(e.st.NumStreamsOutbound),
			int64(e.st.NumConnsInbound), int64(e.st.NumConnsOutbound), int64(e.st.NumFD), int64(e.ref), int64(e.done))
		n++
	}
	r.line = append(r.line, int64(n))
	r.line = append(r.line, ents...)
}

func (r *c03Run) emit() {
	r.out.Case(r.line)
}

// ---- generators --------------------------------------------------------------------

var c03CountChoices = []int{0, 1, 2, 3}

func c03GenCount(rd *verifh.Rand, tight bool) int {
	if !tight {
		switch rd.Intn(4) {
		case 0:
			return math.MaxInt
		case 1:
			return 16 + rd.Intn(16)
		default:
			return 6 + rd.Intn(6)
		}
	}
	switch rd.Intn(8) {
	case 0:
		return 0
	case 1, 2:
		return 1
	case 3, 4:
		return 2
	case 5:
		return 3
	case 6:
		return 4 + rd.Intn(3)
	default:
		return math.MaxInt
	}
}

func c03GenMem(rd *verifh.Rand, tight bool) int64 {
	if !tight {
		switch rd.Intn(3) {
		case 0:
			return math.MaxInt64
		case 1:
			return 1 << 40
		default:
			return 1 << 20
		}
	}
	switch rd.Intn(8) {
	case 0:
		return 0
	case 1:
		return 1
	case 2:
		return 100
	case 3:
		return 256
	case 4:
		return 1000
	case 5:
		return 4096
	case 6:
		return 1<<62 - 1 // huge but finite (wire values stay below 2^62)
	default:
		return math.MaxInt64
	}
}

func c03GenLimit(rd *verifh.Rand, tight bool) BaseLimit {
	l := BaseLimit{}
	// each field independently tight with probability 1/2 when the kind is tight
	f := func() bool { return tight && rd.Chance(1, 2) }
	l.Streams = c03GenCount(rd, f())
	l.StreamsInbound = c03GenCount(rd, f())
	l.StreamsOutbound = c03GenCount(rd, f())
	l.Conns = c03GenCount(rd, f())
	l.ConnsInbound = c03GenCount(rd, f())
	l.ConnsOutbound = c03GenCount(rd, f())
	l.FD = c03GenCount(rd, f())
	l.Memory = c03GenMem(rd, f())
	return l
}

type c03Profile struct {
	allowlist   bool // configure an allow-list
	tightCaps   bool // small per-subnet caps
	capOnAllow  bool // small caps also on allow-listed addresses (reaches DESIGN 9 item 7)
	viewPeerMem bool // direct View reservations on peer/protocol scopes
	gc          bool
	malformed   bool // caller errors: over-release, negative sizes
}

// a small fixed address plan so that subnets are shared
//
//	v4 hosts 10.1.N.H (N in 0..2, H in 1..3)      /24 subnets 10.1.N.0
//	v6 hosts fd00:0:0:N00::H (N in 0..1)           /56 subnets
//	allow-listed networks: 10.1.0.0/24 (any peer), 10.1.1.0/24 (peer-bound), fd00::/56 (any peer)
//	v4-mapped v6 form ::ffff:10.1.N.H of the v4 hosts: an IPv6 key for the conn limiter
//	(netip), an IPv4 address for the allow-list (net.IPNet.Contains unmaps)
func c03Mapped(n, h int) c03Ep {
	return c03Ep{hasIP: true, v6: true, w: [4]uint32{0, 0, 0xffff, 10<<24 | 1<<16 | uint32(n)<<8 | uint32(h)}}
}

func c03GenEp(rd *verifh.Rand) c03Ep {
	switch rd.Intn(10) {
	case 0:
		return c03Ep{}
	case 1, 2, 3:
		n, h := rd.Intn(2), 1+rd.Intn(3)
		return c03Ep{hasIP: true, v6: true, w: [4]uint32{0xfd000000, uint32(n) << 8, 0, uint32(h)}}
	case 4:
		return c03Mapped(rd.Intn(3), 1+rd.Intn(3))
	default:
		n, h := rd.Intn(3), 1+rd.Intn(3)
		return c03Ep{hasIP: true, w: [4]uint32{10<<24 | 1<<16 | uint32(n)<<8 | uint32(h)}}
	}
}

func c03GenCfg(rd *verifh.Rand, pf c03Profile) *c03Cfg {
	c := &c03Cfg{}
	// one to three scope kinds are tight, the others generous, so that the
	// refusing scope moves through every edge position
	tight := map[int]bool{}
	nt := 1 + rd.Intn(3)
	for i := 0; i < nt; i++ {
		tight[rd.Intn(11)] = true
	}
	if rd.Chance(1, 10) {
		for i := 0; i < 11; i++ {
			tight[i] = true
		}
	}
	for i := 0; i < 11; i++ {
		c.lims[i] = c03GenLimit(rd, tight[i])
	}
	if pf.allowlist && rd.Chance(1, 2) {
		// make the standard system/transient tight for connections so that the
		// allow-list retry is taken
		k := rd.Intn(2)
		c.lims[k].Conns = rd.Intn(3)
	}
	if rd.Chance(1, 3) {
		n := 1 + rd.Intn(2)
		seen := map[[2]int]bool{}
		for i := 0; i < n; i++ {
			o := c03Over{kind: 4 + rd.Intn(5), id: rd.Intn(3), lim: c03GenLimit(rd, true)}
			if !seen[[2]int{o.kind, o.id}] { // the limiter's tables are maps: one entry per key
				seen[[2]int{o.kind, o.id}] = true
				c.over = append(c.over, o)
			}
		}
	}
	capv := func(tightCap bool) int {
		if tightCap {
			return rd.Intn(4)
		}
		if rd.Chance(1, 3) {
			return math.MaxInt
		}
		return 64 + rd.Intn(8)
	}
	// subnet rules
	switch rd.Intn(4) {
	case 0:
		c.sub4 = [][2]int{{32, capv(pf.tightCaps)}}
	case 1:
		c.sub4 = [][2]int{{32, capv(pf.tightCaps)}, {24, capv(pf.tightCaps)}}
	case 2:
		c.sub4 = [][2]int{{24, capv(pf.tightCaps)}}
	default:
		// nested: a /24 within a /16 (every v4 host of the address plan is in 10.1.0.0/16)
		c.sub4 = [][2]int{{24, 1 + rd.Intn(3)}, {16, 1 + rd.Intn(4)}}
	}
	if rd.Chance(1, 2) {
		c.sub6 = [][2]int{{56, capv(pf.tightCaps)}, {48, capv(pf.tightCaps)}}
	} else {
		c.sub6 = [][2]int{{64, capv(pf.tightCaps)}}
	}
	net4 := func(n int, l int) c03Prefix {
		return c03Prefix{w: [4]uint32{10<<24 | 1<<16 | uint32(n)<<8}, len: l}
	}
	net6 := c03Prefix{v6: true, w: [4]uint32{0xfd000000, 0, 0, 0}, len: 56}
	if pf.allowlist {
		c.allow = append(c.allow, c03Allow{p: net4(0, 24), peer: -1})
		if rd.Chance(2, 3) {
			c.allow = append(c.allow, c03Allow{p: net4(1, 24), peer: rd.Intn(3)})
		}
		if rd.Chance(1, 2) {
			c.allow = append(c.allow, c03Allow{p: net6, peer: -1})
		}
		if rd.Chance(1, 4) {
			c.allow = append(c.allow, c03Allow{p: c03Prefix{w: [4]uint32{10<<24 | 1<<16 | 2<<8 | 1}, len: 32}, peer: rd.Intn(3)})
		}
	}
	// explicit network prefix limits
	if pf.allowlist && pf.capOnAllow {
		if rd.Chance(2, 3) {
			c.pre4 = append(c.pre4, c03PreLim{p: net4(0, 24), cap: rd.Intn(3)})
		}
		if rd.Chance(1, 3) {
			c.pre6 = append(c.pre6, c03PreLim{p: net6, cap: rd.Intn(3)})
		}
	} else if pf.allowlist {
		// keep every allow-listed address under a generous explicit cap
		c.pre4 = append(c.pre4, c03PreLim{p: net4(1, 24), cap: 64}, c03PreLim{p: c03Prefix{w: [4]uint32{10<<24 | 1<<16 | 2<<8 | 1}, len: 32}, cap: 64})
		if rd.Chance(1, 2) {
			c.pre4 = append(c.pre4, c03PreLim{p: net4(0, 24), cap: 64})
		}
	}
	if !pf.allowlist || pf.capOnAllow {
		if rd.Chance(1, 2) {
			c.pre4 = append(c.pre4, c03PreLim{p: c03Prefix{w: [4]uint32{10<<24 | 1<<16 | 2<<8}, len: 24}, cap: capv(pf.tightCaps)})
		}
		if rd.Chance(1, 3) {
			c.pre4 = append(c.pre4, c03PreLim{p: c03Prefix{w: [4]uint32{10<<24 | 1<<16}, len: 16}, cap: capv(pf.tightCaps)})
		}
		if rd.Chance(1, 3) {
			c.pre6 = append(c.pre6, c03PreLim{p: c03Prefix{v6: true, w: [4]uint32{0xfd000000, 1 << 8, 0, 0}, len: 56}, cap: capv(pf.tightCaps)})
		}
	}
	return c
}

type c03Gen struct {
	rd       *verifh.Rand
	pf       c03Profile
	r        *c03Run
	nextConn int
	nextStr  int
	nextSpan int
	connPeer map[int]bool
	strProto map[int]bool
	strSvc   map[int]bool
	doneH    map[c03Sid]bool
	memLeft  int64 // budget so that the total stays far below 2^63
}

func (g *c03Gen) pickHandle(kinds ...int) (c03Sid, bool) {
	var cands []c03Sid
	for _, k := range kinds {
		switch k {
		case 9:
			for i := range g.r.conns {
				cands = append(cands, c03Sid{9, i, 0})
			}
		case 10:
			for i := range g.r.streams {
				cands = append(cands, c03Sid{10, i, 0})
			}
		case 11:
			for i := range g.r.spans {
				cands = append(cands, c03Sid{11, i, 0})
			}
		}
	}
	if len(cands) == 0 {
		return c03Sid{}, false
	}
	sort.Slice(cands, func(i, j int) bool {
		if cands[i].k != cands[j].k {
			return cands[i].k < cands[j].k
		}
		return cands[i].a < cands[j].a
	})
	// prefer handles that are still open
	var open []c03Sid
	for _, c := range cands {
		if !g.doneH[c] {
			open = append(open, c)
		}
	}
	if len(open) > 0 && !g.rd.Chance(1, 6) {
		return open[g.rd.Intn(len(open))], true
	}
	return cands[g.rd.Intn(len(cands))], true
}

func (g *c03Gen) memTarget() c03Sid {
	x := g.rd.Intn(20)
	switch {
	case x < 12:
		if h, ok := g.pickHandle(9, 10, 11); ok {
			return h
		}
	case x < 14:
		return c03Sid{g.rd.Intn(2), 0, 0}
	case x < 16:
		return c03Sid{4, g.rd.Intn(2), 0}
	default:
		if g.pf.viewPeerMem {
			if g.rd.Bool() {
				return c03Sid{6, g.rd.Intn(4), 0}
			}
			return c03Sid{5, g.rd.Intn(3), 0}
		}
	}
	if h, ok := g.pickHandle(9, 10, 11); ok {
		return h
	}
	return c03Sid{0, 0, 0}
}

func (g *c03Gen) genSize(t c03Sid) int64 {
	switch g.rd.Intn(9) {
	case 0:
		return 0
	case 1:
		return 1
	case 2:
		return int64(1 + g.rd.Intn(100))
	case 3:
		return int64(100 + g.rd.Intn(200))
	case 4:
		return int64(1000 + g.rd.Intn(4000))
	case 5:
		return 1 << 20
	case 6:
		return 1<<40 + int64(g.rd.Intn(1000))
	case 7:
		if g.memLeft >= 1<<61 {
			return 1<<61 - int64(g.rd.Intn(3)) // huge: near the int64 range, still below it in total
		}
		return 7
	default:
		// aim at a boundary of the tightest finite memory limit
		lims := []int64{}
		for _, l := range g.r.cfg.lims {
			if l.Memory > 0 && l.Memory < 1<<50 {
				lims = append(lims, l.Memory)
			}
		}
		if len(lims) == 0 {
			return 64
		}
		l := lims[g.rd.Intn(len(lims))]
		return l - int64(g.rd.Intn(3)) + 1 - int64(g.rd.Intn(2))
	}
}

var c03Prios = []int{0, 1, 127, 128, 200, 254, 255}

func (g *c03Gen) reserve(t c03Sid, sz int64) {
	if sz > g.memLeft {
		sz = 5
	}
	if g.r.do(c03Op{code: 6, t: t, sz: sz, prio: 255}) == 0 && sz > 0 {
		g.memLeft -= sz
	}
}

// directed: nested spans (a span of a span, sometimes three levels) closed
// OUTER first while the inner one still holds memory and the owner keeps
// holdings of its own, so that a release that reaches the owner twice is not
// hidden by the clamp at zero
func (g *c03Gen) nestedSpans() {
	rd, r := g.rd, g.r
	owner := g.memTarget()
	if h, ok := g.pickHandle(9, 10, 11); ok && !g.doneH[h] && rd.Chance(3, 4) {
		owner = h
	}
	small := func() int64 { return int64(1 + rd.Intn(3000)) }
	if rd.Chance(4, 5) {
		g.reserve(owner, small()+int64(rd.Intn(3))*1000)
	}
	newSpan := func(t c03Sid) (c03Sid, bool) {
		k := g.nextSpan
		g.nextSpan++
		if r.do(c03Op{code: 8, t: t, k: k}) != 0 {
			return c03Sid{}, false
		}
		return c03Sid{11, k, 0}, true
	}
	a, ok := newSpan(owner)
	if !ok {
		return
	}
	if rd.Chance(1, 2) {
		g.reserve(a, small())
	}
	b, ok := newSpan(a)
	if !ok {
		return
	}
	g.reserve(b, small())
	inner := []c03Sid{b}
	if rd.Chance(1, 3) {
		if c, ok := newSpan(b); ok {
			g.reserve(c, small())
			inner = append(inner, c)
		}
	}
	if rd.Chance(1, 3) {
		if s2, ok := newSpan(owner); ok { // a sibling of the outer span keeps the owner busy
			g.reserve(s2, small())
		}
	}
	r.out.Cover("scenario.nested_spans")
	// outer first
	r.do(c03Op{code: 9, t: a})
	g.doneH[a] = true
	if rd.Chance(1, 3) && r.own[b] > 1 {
		r.do(c03Op{code: 7, t: b, sz: 1 + int64(rd.Uint64()%uint64(r.own[b]))})
	}
	for i := len(inner) - 1; i >= 0; i-- {
		if rd.Chance(3, 4) { // otherwise it is closed later by the ordinary steps / the drain
			if r.own[inner[i]] > 0 {
				r.out.Cover("scenario.nested_spans.inner_closed_holding_after_outer")
			}
			r.do(c03Op{code: 9, t: inner[i]})
			g.doneH[inner[i]] = true
		}
	}
}

// directed: connections from one v4 host in plain and in v4-mapped v6 form, opened
// up to and over the per-subnet / per-prefix caps and closed in between (the two
// forms are different keys for the conn limiter)
func (g *c03Gen) mappedMix() {
	rd, r := g.rd, g.r
	n, h := rd.Intn(3), 1+rd.Intn(3)
	plain := c03Ep{hasIP: true, w: [4]uint32{10<<24 | 1<<16 | uint32(n)<<8 | uint32(h)}}
	var opened []int
	open := func(ep c03Ep) {
		i := g.nextConn
		g.nextConn++
		if r.do(c03Op{code: 1, i: i, inb: rd.Bool(), fd: rd.Bool(), ep: ep}) == 0 {
			opened = append(opened, i)
		}
	}
	r.out.Cover("scenario.mapped_mix")
	for k := 1 + rd.Intn(3); k > 0; k-- {
		open(plain)
	}
	var mapped []int
	for k := 1 + rd.Intn(2); k > 0; k-- {
		before := len(opened)
		open(c03Mapped(n, h))
		if len(opened) > before {
			mapped = append(mapped, opened[len(opened)-1])
		}
	}
	for _, i := range mapped { // close the mapped ones, keep the plain ones open
		if rd.Chance(4, 5) {
			r.do(c03Op{code: 9, t: c03Sid{9, i, 0}})
			g.doneH[c03Sid{9, i, 0}] = true
		}
	}
	for k := 1 + rd.Intn(4); k > 0; k-- {
		open(plain)
	}
}

// directed: a peer leaves completely and is collected by gc while a protocol
// (and sometimes a service) scope it used survives through another peer; then the
// same peer comes back on that protocol / service.  Peers 4..6 are used by this
// routine only, so that nothing else keeps their scopes alive.
func (g *c03Gen) peerReturns() {
	rd, r := g.rd, g.r
	qa, qb := 4+rd.Intn(3), rd.Intn(4)
	p, sv := rd.Intn(3), rd.Intn(2)
	withSvc := rd.Chance(1, 2)
	visit := func(q int, closeIt bool) {
		j := g.nextStr
		g.nextStr++
		if r.do(c03Op{code: 3, i: j, q: q, inb: rd.Bool()}) != 0 {
			return
		}
		if r.do(c03Op{code: 4, i: j, q: p}) == 0 {
			g.strProto[j] = true
			if withSvc && r.do(c03Op{code: 5, i: j, q: sv}) == 0 {
				g.strSvc[j] = true
			}
		}
		if rd.Chance(1, 3) {
			g.reserve(c03Sid{10, j, 0}, int64(1+rd.Intn(500)))
		}
		if closeIt {
			r.do(c03Op{code: 9, t: c03Sid{10, j, 0}})
			g.doneH[c03Sid{10, j, 0}] = true
		}
	}
	visit(qb, false) // keeps the protocol / service scope alive
	visit(qa, true)
	r.do(c03Op{code: 10})
	visit(qa, rd.Chance(1, 2)) // the same peer again
	if rd.Chance(1, 2) {
		r.do(c03Op{code: 10})
		visit(qa, true)
	}
	g.r.out.Cover("directed.peer_returns_after_gc")
}

// endpoints of the address plan: v4 10.1.n.h, v6 fd00:0:0:n00::h (the /56s n = 0..3
// lie in one /48, the /24s in one /16)
func c03PlanEp(v6 bool, n, h int) c03Ep {
	if v6 {
		return c03Ep{hasIP: true, v6: true, w: [4]uint32{0xfd000000, uint32(n) << 8, 0, uint32(h)}}
	}
	return c03Ep{hasIP: true, w: [4]uint32{10<<24 | 1<<16 | uint32(n)<<8 | uint32(h)}}
}

// directed: nested subnet limits.  The wider subnet (/48, /16) is filled through one
// narrower subnet, connections from ANOTHER narrower subnet that still has room are
// attempted (refused by the wider limit: nothing may be counted), then the wider one is
// emptied and the second subnet must be admitted up to its own cap again.
func (g *c03Gen) nestedSubnets() {
	rd, r := g.rd, g.r
	v6 := rd.Bool()
	na, nb := rd.Intn(4), rd.Intn(4)
	if na == nb {
		nb = (na + 1) % 4
	}
	open := func(n, tries int) []int {
		var got []int
		for k := 0; k < tries; k++ {
			i := g.nextConn
			g.nextConn++
			if r.do(c03Op{code: 1, i: i, inb: rd.Bool(), fd: false, ep: c03PlanEp(v6, n, 1+rd.Intn(3))}) == 0 {
				got = append(got, i)
			}
		}
		return got
	}
	closeAll := func(l []int) {
		for _, i := range l {
			r.do(c03Op{code: 9, t: c03Sid{9, i, 0}})
			g.doneH[c03Sid{9, i, 0}] = true
		}
	}
	a := open(na, 2+rd.Intn(3))
	b := open(nb, 1+rd.Intn(2))
	closeAll(a)
	b = append(b, open(nb, 1+rd.Intn(3))...)
	closeAll(b)
	if rd.Chance(1, 2) {
		closeAll(open(nb, 1+rd.Intn(2)))
	}
	r.out.Cover("directed.nested_subnets")
}

// final probe of the conn limiter: with everything released every subnet must admit
// connections again (a refusal is judged by the monitor: only at a cap)
func (g *c03Gen) probeLimiter() {
	rd, r := g.rd, g.r
	for k := 0; k < 2; k++ {
		v6, n := rd.Bool(), rd.Intn(4)
		var got []int
		for j := 0; j < 2; j++ {
			i := g.nextConn
			g.nextConn++
			if r.do(c03Op{code: 1, i: i, inb: true, fd: false, ep: c03PlanEp(v6, n, 1+rd.Intn(3))}) == 0 {
				got = append(got, i)
			}
		}
		for _, i := range got {
			r.do(c03Op{code: 9, t: c03Sid{9, i, 0}})
		}
	}
	r.out.Cover("directed.final_limiter_probe")
}

func (g *c03Gen) step() {
	rd, r := g.rd, g.r
	if rd.Chance(1, 25) {
		g.nestedSpans()
		return
	}
	if rd.Chance(1, 30) {
		g.nestedSubnets()
		return
	}
	if rd.Chance(1, 30) {
		g.peerReturns()
		return
	}
	if rd.Chance(1, 40) {
		g.mappedMix()
		return
	}
	x := rd.Intn(100)
	switch {
	case x < 17:
		o := c03Op{code: 1, i: g.nextConn, inb: rd.Bool(), fd: rd.Chance(2, 3), ep: c03GenEp(rd)}
		g.nextConn++
		r.do(o)
	case x < 27:
		if h, ok := g.pickHandle(9); ok {
			if g.connPeer[h.a] && !rd.Chance(1, 8) {
				return
			}
			if r.do(c03Op{code: 2, i: h.a, q: rd.Intn(4)}) == 0 {
				g.connPeer[h.a] = true
			}
		}
	case x < 41:
		o := c03Op{code: 3, i: g.nextStr, q: rd.Intn(4), inb: rd.Bool()}
		g.nextStr++
		r.do(o)
	case x < 50:
		if h, ok := g.pickHandle(10); ok {
			if g.strProto[h.a] && !rd.Chance(1, 8) {
				return
			}
			if r.do(c03Op{code: 4, i: h.a, q: rd.Intn(3)}) == 0 {
				g.strProto[h.a] = true
			}
		}
	case x < 57:
		if h, ok := g.pickHandle(10); ok {
			if (!g.strProto[h.a] || g.strSvc[h.a]) && !rd.Chance(1, 6) {
				return
			}
			if r.do(c03Op{code: 5, i: h.a, q: rd.Intn(2)}) == 0 {
				g.strSvc[h.a] = true
			}
		}
	case x < 72:
		t := g.memTarget()
		sz := g.genSize(t)
		if g.pf.malformed && rd.Chance(1, 12) {
			sz = -int64(1 + rd.Intn(5))
		}
		if sz > g.memLeft {
			sz = 5
		}
		if r.do(c03Op{code: 6, t: t, sz: sz, prio: c03Prios[rd.Intn(len(c03Prios))]}) == 0 && sz > 0 {
			g.memLeft -= sz
		}
	case x < 82:
		// release part or all of what is held directly on some scope
		var held []c03Sid
		for t, v := range r.own {
			if v > 0 {
				held = append(held, t)
			}
		}
		sort.Slice(held, func(i, j int) bool {
			a, b := held[i], held[j]
			if a.k != b.k {
				return a.k < b.k
			}
			if a.a != b.a {
				return a.a < b.a
			}
			return a.b < b.b
		})
		if len(held) == 0 {
			if g.pf.malformed && rd.Chance(1, 2) {
				t := g.memTarget()
				r.do(c03Op{code: 7, t: t, sz: int64(1 + rd.Intn(50))})
			}
			return
		}
		t := held[rd.Intn(len(held))]
		sz := r.own[t]
		if rd.Chance(1, 2) && sz > 1 {
			sz = 1 + int64(rd.Uint64()%uint64(sz))
		}
		if g.pf.malformed && rd.Chance(1, 6) {
			sz += int64(1 + rd.Intn(10))
		}
		r.do(c03Op{code: 7, t: t, sz: sz})
	case x < 88:
		t := g.memTarget()
		if t.k == 11 && rd.Chance(1, 2) {
			// nesting is wanted, but not only nesting
			t = g.memTarget()
		}
		o := c03Op{code: 8, t: t, k: g.nextSpan}
		g.nextSpan++
		r.do(o)
	case x < 97:
		if h, ok := g.pickHandle(9, 10, 11); ok {
			r.do(c03Op{code: 9, t: h})
			g.doneH[h] = true
		}
	default:
		if g.pf.gc {
			r.do(c03Op{code: 10})
		}
	}
}

// close everything in a random order and check that the run ends at zero
func (g *c03Gen) drain() {
	rd, r := g.rd, g.r
	var hs []c03Sid
	for i := range r.conns {
		hs = append(hs, c03Sid{9, i, 0})
	}
	for i := range r.streams {
		hs = append(hs, c03Sid{10, i, 0})
	}
	for i := range r.spans {
		hs = append(hs, c03Sid{11, i, 0})
	}
	sort.Slice(hs, func(i, j int) bool {
		if hs[i].k != hs[j].k {
			return hs[i].k < hs[j].k
		}
		return hs[i].a < hs[j].a
	})
	for i := len(hs) - 1; i > 0; i-- {
		j := rd.Intn(i + 1)
		hs[i], hs[j] = hs[j], hs[i]
	}
	for _, h := range hs {
		r.do(c03Op{code: 9, t: h})
	}
	var held []c03Sid
	for t, v := range r.own {
		if v > 0 && t.k < 9 {
			held = append(held, t)
		}
	}
	sort.Slice(held, func(i, j int) bool {
		a, b := held[i], held[j]
		if a.k != b.k {
			return a.k < b.k
		}
		return a.a < b.a
	})
	for _, t := range held {
		r.do(c03Op{code: 7, t: t, sz: r.own[t]})
	}
	if g.pf.gc {
		r.do(c03Op{code: 10})
	}
	if g.rd.Chance(1, 2) {
		g.probeLimiter()
	}
}

func c03Profiles(rd *verifh.Rand) c03Profile {
	pf := c03Profile{}
	x := rd.Intn(100)
	switch {
	case x < 35:
		pf.tightCaps = rd.Chance(2, 3)
	case x < 75:
		pf.allowlist = true
	default:
		pf.allowlist, pf.tightCaps, pf.capOnAllow = true, true, true
	}
	pf.viewPeerMem = rd.Chance(1, 2)
	pf.gc = rd.Chance(1, 2)
	pf.malformed = rd.Chance(1, 10)
	return pf
}

func c03OneCase(t testing.TB, out *verifh.Out, rd *verifh.Rand, pf c03Profile, nops int, drain bool) {
	cfg := c03GenCfg(rd, pf)
	flags := int64(0)
	if pf.malformed {
		flags = 1
	}
	r := c03NewRun(t, out, cfg, flags)
	defer r.close()
	g := &c03Gen{rd: rd, pf: pf, r: r, connPeer: map[int]bool{}, strProto: map[int]bool{}, strSvc: map[int]bool{},
		doneH: map[c03Sid]bool{}, memLeft: 1<<62 - 1<<50}
	for i := 0; i < nops; i++ {
		g.step()
	}
	if drain {
		g.drain()
		out.Cover("case.drained")
		// at the end everything reads zero unless a known defect was hit; the
		// verdict is the monitor's, this is only a counter
		allZero := true
		for _, e := range r.snapshot() {
			if e.st != (network.ScopeStat{}) {
				allZero = false
			}
		}
		if allZero {
			out.Cover("case.drained.all_zero")
		}
	}
	out.Cover("cases")
	out.CoverN("ops", int64(r.nops))
	if pf.allowlist {
		out.Cover("profile.allowlist")
	}
	if pf.capOnAllow {
		out.Cover("profile.cap_on_allowlisted")
	}
	if pf.viewPeerMem && pf.gc {
		out.Cover("profile.view_peer_mem_and_gc")
	}
	if pf.malformed {
		out.Cover("profile.caller_errors")
	}
	r.emit()
}

// ---- directed histories (corpus): the shapes of DESIGN section 9 items 6 and 7 and
// the multi-edge refusals, always run first --------------------------------------------

func c03Generous() BaseLimit {
	return BaseLimit{Streams: 100, StreamsInbound: 100, StreamsOutbound: 100, Conns: 100, ConnsInbound: 100, ConnsOutbound: 100, FD: 100, Memory: 1 << 30}
}

func c03BaseCfg() *c03Cfg {
	c := &c03Cfg{}
	for i := range c.lims {
		c.lims[i] = c03Generous()
	}
	c.sub4 = [][2]int{{32, 8}}
	c.sub6 = [][2]int{{56, 8}, {48, 64}}
	return c
}

func c03Corpus(t testing.TB, out *verifh.Out) {
	v4 := func(n, h int) c03Ep {
		return c03Ep{hasIP: true, w: [4]uint32{10<<24 | 1<<16 | uint32(n)<<8 | uint32(h)}}
	}
	run := func(name string, cfg *c03Cfg, ops []c03Op) {
		r := c03NewRun(t, out, cfg, 0)
		defer r.close()
		for _, o := range ops {
			r.do(o)
		}
		out.Comment("corpus " + name)
		out.Cover("corpus.cases")
		r.emit()
	}
	// nested spans closed outer-first: the inner span still holds memory, the
	// connection holds memory of its own and a sibling span
	run("nested-spans-outer-first", c03BaseCfg(), []c03Op{
		{code: 1, i: 0, inb: true, fd: true, ep: v4(2, 2)},
		{code: 2, i: 0, q: 1},
		{code: 6, t: c03Sid{9, 0, 0}, sz: 2000, prio: 255},
		{code: 8, t: c03Sid{9, 0, 0}, k: 0},
		{code: 6, t: c03Sid{11, 0, 0}, sz: 96, prio: 255},
		{code: 8, t: c03Sid{11, 0, 0}, k: 1},
		{code: 6, t: c03Sid{11, 1, 0}, sz: 1000, prio: 255},
		{code: 8, t: c03Sid{11, 1, 0}, k: 2},
		{code: 6, t: c03Sid{11, 2, 0}, sz: 500, prio: 255},
		{code: 8, t: c03Sid{9, 0, 0}, k: 3},
		{code: 6, t: c03Sid{11, 3, 0}, sz: 500, prio: 255},
		{code: 9, t: c03Sid{11, 0, 0}}, // outer first
		{code: 7, t: c03Sid{11, 1, 0}, sz: 100},
		{code: 9, t: c03Sid{11, 2, 0}},
		{code: 9, t: c03Sid{11, 1, 0}},
		{code: 9, t: c03Sid{11, 3, 0}},
		{code: 9, t: c03Sid{9, 0, 0}},
	})
	// the same on a View scope (peer), then gc
	run("nested-spans-outer-first-view", c03BaseCfg(), []c03Op{
		{code: 6, t: c03Sid{6, 2, 0}, sz: 700, prio: 255},
		{code: 8, t: c03Sid{6, 2, 0}, k: 0},
		{code: 8, t: c03Sid{11, 0, 0}, k: 1},
		{code: 6, t: c03Sid{11, 1, 0}, sz: 300, prio: 255},
		{code: 9, t: c03Sid{11, 0, 0}},
		{code: 10},
		{code: 9, t: c03Sid{11, 1, 0}},
		{code: 10},
		{code: 7, t: c03Sid{6, 2, 0}, sz: 700},
		{code: 10},
	})
	// one v4 host in plain and in v4-mapped v6 form against a /32 cap of 2 (and a
	// v6 /64 rule): the mapped form is an IPv6 key when opened AND when closed
	{
		c := c03BaseCfg()
		c.sub4 = [][2]int{{32, 2}}
		c.sub6 = [][2]int{{64, 3}}
		ops := []c03Op{
			{code: 1, i: 0, inb: true, fd: true, ep: v4(2, 3)},
			{code: 1, i: 1, inb: true, fd: true, ep: v4(2, 3)},
			{code: 1, i: 2, inb: true, fd: true, ep: c03Mapped(2, 3)},
			{code: 1, i: 3, inb: true, fd: true, ep: c03Mapped(2, 3)},
			{code: 9, t: c03Sid{9, 2, 0}},
			{code: 9, t: c03Sid{9, 3, 0}},
			{code: 1, i: 4, inb: true, fd: true, ep: v4(2, 3)}, // still two open plain ones: refused
			{code: 1, i: 5, inb: false, fd: false, ep: v4(2, 3)},
			{code: 9, t: c03Sid{9, 0, 0}},
			{code: 1, i: 6, inb: true, fd: true, ep: v4(2, 3)},
			{code: 1, i: 7, inb: true, fd: true, ep: c03Mapped(2, 3)},
			{code: 1, i: 8, inb: true, fd: true, ep: c03Mapped(2, 2)},
			{code: 1, i: 9, inb: true, fd: true, ep: c03Mapped(2, 1)},
			{code: 1, i: 10, inb: true, fd: true, ep: c03Mapped(1, 1)}, // same /64: over the v6 cap
		}
		run("mapped-v4-in-v6-vs-subnet-cap", c, ops)
	}
	// a v4-mapped endpoint inside an allow-listed v4 network: the allow-list sees
	// the v4 address, the allow-listed network's prefix limit (netip) does not
	{
		c := c03BaseCfg()
		c.lims[0].Conns = 0
		c.allow = []c03Allow{{p: c03Prefix{w: [4]uint32{10<<24 | 1<<16}, len: 24}, peer: -1},
			{p: c03Prefix{w: [4]uint32{10<<24 | 1<<16 | 1<<8}, len: 24}, peer: 1}}
		c.pre4 = []c03PreLim{{p: c03Prefix{w: [4]uint32{10<<24 | 1<<16}, len: 24}, cap: 2}}
		run("mapped-endpoint-allow-listed", c, []c03Op{
			{code: 1, i: 0, inb: true, fd: true, ep: c03Mapped(0, 1)},
			{code: 1, i: 1, inb: true, fd: true, ep: c03Mapped(0, 2)},
			{code: 1, i: 2, inb: true, fd: true, ep: c03Mapped(0, 3)},
			{code: 1, i: 3, inb: true, fd: true, ep: c03Mapped(1, 1)},
			{code: 2, i: 3, q: 2}, // not the allowed peer: transfer to the standard scopes, refused
			{code: 2, i: 0, q: 2},
			{code: 9, t: c03Sid{9, 1, 0}},
			{code: 9, t: c03Sid{9, 3, 0}},
			{code: 9, t: c03Sid{9, 0, 0}},
			{code: 9, t: c03Sid{9, 2, 0}},
		})
	}
	// item 6: View reservation on a peer and a protocol scope, then gc
	run("gc-memory-only-peer", c03BaseCfg(), []c03Op{
		{code: 6, t: c03Sid{6, 0, 0}, sz: 300, prio: 255},
		{code: 6, t: c03Sid{5, 0, 0}, sz: 300, prio: 255},
		{code: 10},
		{code: 7, t: c03Sid{6, 0, 0}, sz: 300},
		{code: 7, t: c03Sid{5, 0, 0}, sz: 300},
	})
	// same, but a span keeps the peer scope referenced: nothing may be collected
	run("gc-span-keeps-peer", c03BaseCfg(), []c03Op{
		{code: 8, t: c03Sid{6, 0, 0}, k: 0},
		{code: 6, t: c03Sid{11, 0, 0}, sz: 300, prio: 255},
		{code: 10},
		{code: 9, t: c03Sid{11, 0, 0}},
		{code: 10},
	})
	// item 7: allow-listed /24 with an explicit prefix cap of 2, system conns 0
	{
		c := c03BaseCfg()
		c.lims[0].Conns = 0
		c.allow = []c03Allow{{p: c03Prefix{w: [4]uint32{10<<24 | 1<<16}, len: 24}, peer: -1}}
		c.pre4 = []c03PreLim{{p: c03Prefix{w: [4]uint32{10<<24 | 1<<16}, len: 24}, cap: 2}}
		var ops []c03Op
		for i := 0; i < 4; i++ {
			ops = append(ops, c03Op{code: 1, i: i, inb: true, fd: true, ep: v4(0, 1+i%3)})
		}
		for i := 0; i < 4; i++ {
			ops = append(ops, c03Op{code: 9, t: c03Sid{9, i, 0}})
		}
		run("allowlist-retry-drops-limiter-count", c, ops)
	}
	// allow-list transfer on SetPeer with a peer that is not allowed, refused by the peer scope,
	// then attached to the allowed peer
	{
		c := c03BaseCfg()
		c.lims[1].Conns = 0 // transient refuses: retry through the allow-listed scopes
		c.allow = []c03Allow{{p: c03Prefix{w: [4]uint32{10<<24 | 1<<16 | 1<<8}, len: 24}, peer: 1}}
		c.pre4 = []c03PreLim{{p: c03Prefix{w: [4]uint32{10<<24 | 1<<16 | 1<<8}, len: 24}, cap: 64}}
		run("allowlist-setpeer-transfer-refused", c, []c03Op{
			{code: 1, i: 0, inb: true, fd: true, ep: v4(1, 1)},
			{code: 6, t: c03Sid{9, 0, 0}, sz: 100, prio: 255},
			{code: 2, i: 0, q: 2}, // not the allowed peer: transfer, transient refuses
			{code: 9, t: c03Sid{9, 0, 0}},
			{code: 1, i: 1, inb: false, fd: false, ep: v4(1, 2)},
			{code: 2, i: 1, q: 1}, // allowed peer: stays allow-listed
			{code: 9, t: c03Sid{9, 1, 0}},
		})
	}
	// SetPeer again after a refused allow-list transfer (fixed by e9a9a54): refused again while
	// transient has no room; accepted, and charged to system, once a slot is free
	{
		c := c03BaseCfg()
		c.lims[1].Conns = 1
		c.allow = []c03Allow{{p: c03Prefix{w: [4]uint32{10<<24 | 1<<16 | 1<<8}, len: 24}, peer: 1}}
		c.pre4 = []c03PreLim{{p: c03Prefix{w: [4]uint32{10<<24 | 1<<16 | 1<<8}, len: 24}, cap: 64}}
		run("setpeer-after-refused-transfer", c, []c03Op{
			{code: 1, i: 0, inb: true, fd: true, ep: v4(2, 1)}, // takes transient's only slot
			{code: 1, i: 1, inb: true, fd: true, ep: v4(1, 1)}, // retried through the allow-listed scopes
			{code: 2, i: 1, q: 2},                              // not the allowed peer: transfer refused by transient
			{code: 2, i: 1, q: 2},                              // refused again
			{code: 9, t: c03Sid{9, 0, 0}},
			{code: 2, i: 1, q: 2}, // now accepted: peer + system
			{code: 9, t: c03Sid{9, 1, 0}},
		})
	}
	// the same, but the peer scope refuses after system + transient were charged again:
	// the connection stays charged to system + transient (found by the thorough tier)
	{
		c := c03BaseCfg()
		c.lims[1].Conns = 1
		c.lims[8].Conns = 0
		c.allow = []c03Allow{{p: c03Prefix{w: [4]uint32{10<<24 | 1<<16 | 1<<8}, len: 24}, peer: 1}}
		c.pre4 = []c03PreLim{{p: c03Prefix{w: [4]uint32{10<<24 | 1<<16 | 1<<8}, len: 24}, cap: 64}}
		run("setpeer-recharged-then-refused-by-peer", c, []c03Op{
			{code: 1, i: 0, inb: true, fd: true, ep: v4(2, 1)},
			{code: 1, i: 1, inb: true, fd: true, ep: v4(1, 1)},
			{code: 2, i: 1, q: 2}, // transfer refused by transient: charged nowhere
			{code: 9, t: c03Sid{9, 0, 0}},
			{code: 2, i: 1, q: 2}, // charged to system + transient again, refused by the peer scope
			{code: 2, i: 1, q: 2}, // refused by the peer scope again
			{code: 6, t: c03Sid{9, 1, 0}, sz: 10, prio: 255},
			{code: 9, t: c03Sid{9, 1, 0}},
		})
	}
	// nested subnet limits: the /48 is filled through one /56; attempts from another /56
	// that has room are refused by the /48 and must leave nothing behind; after the /48
	// is emptied the second /56 is admitted up to its own cap, and again after closing
	{
		c := c03BaseCfg()
		c.sub6 = [][2]int{{56, 2}, {48, 2}}
		c.sub4 = [][2]int{{24, 2}, {16, 2}}
		var ops []c03Op
		for _, v6 := range []bool{true, false} {
			b := len(ops) * 100
			ops = append(ops,
				c03Op{code: 1, i: b + 0, inb: true, ep: c03PlanEp(v6, 0, 1)},
				c03Op{code: 1, i: b + 1, inb: true, ep: c03PlanEp(v6, 0, 2)},
				c03Op{code: 1, i: b + 2, inb: true, ep: c03PlanEp(v6, 1, 1)}, // refused by the wider limit
				c03Op{code: 1, i: b + 3, inb: true, ep: c03PlanEp(v6, 1, 2)}, // refused
				c03Op{code: 1, i: b + 4, inb: true, ep: c03PlanEp(v6, 1, 3)}, // refused
				c03Op{code: 9, t: c03Sid{9, b + 0, 0}},
				c03Op{code: 9, t: c03Sid{9, b + 1, 0}},
				c03Op{code: 1, i: b + 5, inb: true, ep: c03PlanEp(v6, 1, 1)}, // admitted
				c03Op{code: 1, i: b + 6, inb: true, ep: c03PlanEp(v6, 1, 2)}, // admitted
				c03Op{code: 1, i: b + 7, inb: true, ep: c03PlanEp(v6, 1, 3)}, // at the cap
				c03Op{code: 9, t: c03Sid{9, b + 5, 0}},
				c03Op{code: 9, t: c03Sid{9, b + 6, 0}},
				c03Op{code: 1, i: b + 8, inb: true, ep: c03PlanEp(v6, 1, 1)}, // admitted again
				c03Op{code: 9, t: c03Sid{9, b + 8, 0}},
			)
		}
		run("nested-subnet-limits", c, ops)
	}
	// a peer is collected by gc while the protocol and service scopes it used survive
	// through another peer; the same peer then returns on that protocol and service
	run("peer-returns-after-gc", c03BaseCfg(), []c03Op{
		{code: 3, i: 0, q: 1, inb: true}, {code: 4, i: 0, q: 0}, {code: 5, i: 0, q: 0},
		{code: 3, i: 1, q: 0, inb: true}, {code: 4, i: 1, q: 0}, {code: 5, i: 1, q: 0},
		{code: 9, t: c03Sid{10, 1, 0}},
		{code: 10},
		{code: 3, i: 2, q: 0, inb: false}, {code: 4, i: 2, q: 0}, {code: 5, i: 2, q: 0},
		{code: 6, t: c03Sid{10, 2, 0}, sz: 77, prio: 255},
		{code: 9, t: c03Sid{10, 2, 0}},
		{code: 10},
		{code: 3, i: 3, q: 0, inb: true}, {code: 4, i: 3, q: 0},
		{code: 9, t: c03Sid{10, 3, 0}}, {code: 9, t: c03Sid{10, 0, 0}},
		{code: 10},
	})
	// refusal at each edge of a stream with protocol and service attached
	for edge := 0; edge < 6; edge++ {
		c := c03BaseCfg()
		// memory limit 100 on: 0 peer, 1 protopeer, 2 svcpeer, 3 proto, 4 svc, 5 system
		kind := []int{8, 7, 5, 6, 4, 0}[edge]
		c.lims[kind].Memory = 100
		run(fmt.Sprintf("stream-memory-refused-at-edge-%d", edge), c, []c03Op{
			{code: 3, i: 0, q: 0, inb: true},
			{code: 4, i: 0, q: 0},
			{code: 5, i: 0, q: 0},
			{code: 6, t: c03Sid{10, 0, 0}, sz: 60, prio: 255},
			{code: 8, t: c03Sid{10, 0, 0}, k: 0},
			{code: 8, t: c03Sid{11, 0, 0}, k: 1},
			{code: 6, t: c03Sid{11, 1, 0}, sz: 41, prio: 255}, // refused at the tight edge, undone everywhere
			{code: 6, t: c03Sid{11, 1, 0}, sz: 40, prio: 255},
			{code: 6, t: c03Sid{11, 1, 0}, sz: 0, prio: 0}, // zero bytes at priority 0: over the scaled limit
			{code: 9, t: c03Sid{10, 0, 0}},                 // owner closed under its spans
			{code: 6, t: c03Sid{11, 1, 0}, sz: 1, prio: 255},
			{code: 7, t: c03Sid{11, 1, 0}, sz: 40},
			{code: 9, t: c03Sid{11, 1, 0}},
			{code: 9, t: c03Sid{11, 0, 0}},
			{code: 9, t: c03Sid{11, 1, 0}},
		})
	}
}

// ---- concurrent run: totals at quiescence --------------------------------------------------
// Each goroutine owns its connections/streams/spans and works on the shared
// manager; when all are done the harness replays, sequentially on a FRESH
// manager, nothing: instead it emits a case whose history is the sequential
// drain of what every goroutine still holds, preceded by one synthetic
// observation of the quiescent state.  The monitor then checks usage = sum of
// holders for that state and for every step of the drain.  (Testing, not
// proof: the interleaving itself is not modelled.)

type c03Held struct {
	conns   []*connectionScope
	streams []*streamScope
}

func c03Concurrent(t testing.TB, out *verifh.Out, rd *verifh.Rand, workers, steps int) {
	cfg := c03BaseCfg()
	// tight enough that refusals and undo paths run concurrently
	cfg.lims[0].Conns, cfg.lims[0].ConnsInbound, cfg.lims[0].ConnsOutbound = 6+rd.Intn(6), 100, 100
	cfg.lims[1].Conns = 3 + rd.Intn(3)
	cfg.lims[0].Memory = 4000
	cfg.lims[8].Streams = 4 + rd.Intn(4)
	cfg.lims[0].Streams = 10 + rd.Intn(10)
	cfg.lims[1].Streams = 5
	rm := cfg.manager(t)
	defer rm.Close()
	held := make([]c03Held, workers)
	heldMem := make([]map[*resourceScope]int, workers)
	var over sync.Mutex
	violations := 0
	var wg sync.WaitGroup
	stop := make(chan struct{})
	// sampler: limits must never be exceeded while the workers run
	var swg sync.WaitGroup
	swg.Add(1)
	go func() {
		defer swg.Done()
		for {
			select {
			case <-stop:
				return
			default:
			}
			st := rm.system.Stat()
			tr := rm.transient.Stat()
			if st.NumConnsInbound+st.NumConnsOutbound > cfg.lims[0].Conns || st.Memory > cfg.lims[0].Memory || st.Memory < 0 ||
				tr.NumConnsInbound+tr.NumConnsOutbound > cfg.lims[1].Conns || st.NumStreamsInbound+st.NumStreamsOutbound > cfg.lims[0].Streams {
				over.Lock()
				violations++
				over.Unlock()
			}
		}
	}()
	for w := 0; w < workers; w++ {
		wg.Add(1)
		wr := rd.Fork()
		heldMem[w] = map[*resourceScope]int{}
		go func(w int, rd *verifh.Rand) {
			defer wg.Done()
			h := &held[w]
			for s := 0; s < steps; s++ {
				switch rd.Intn(8) {
				case 0, 1:
					ep := c03Ep{hasIP: true, w: [4]uint32{10<<24 | 2<<16 | uint32(w)<<8 | uint32(1+rd.Intn(200))}}
					dir := network.DirInbound
					if rd.Bool() {
						dir = network.DirOutbound
					}
					c, err := rm.OpenConnection(dir, rd.Bool(), ep.multiaddr())
					if err == nil {
						h.conns = append(h.conns, c.(*connectionScope))
					}
				case 2:
					if len(h.conns) > 0 {
						c := h.conns[rd.Intn(len(h.conns))]
						c.SetPeer(c03PeerID(rd.Intn(3)))
					}
				case 3, 4:
					dir := network.DirInbound
					if rd.Bool() {
						dir = network.DirOutbound
					}
					st, err := rm.OpenStream(c03PeerID(rd.Intn(3)), dir)
					if err == nil {
						h.streams = append(h.streams, st.(*streamScope))
					}
				case 5:
					if len(h.streams) > 0 {
						st := h.streams[rd.Intn(len(h.streams))]
						if st.SetProtocol(c03Proto(rd.Intn(2))) == nil && rd.Bool() {
							st.SetService(c03Svc(0))
						}
					}
				case 6:
					var sc *resourceScope
					if len(h.conns) > 0 && rd.Bool() {
						sc = h.conns[rd.Intn(len(h.conns))].resourceScope
					} else if len(h.streams) > 0 {
						sc = h.streams[rd.Intn(len(h.streams))].resourceScope
					}
					if sc != nil {
						n := 1 + rd.Intn(500)
						if sc.ReserveMemory(n, uint8(rd.Intn(256))) == nil {
							heldMem[w][sc] += n
						}
					}
				default:
					if len(h.conns) > 0 && rd.Bool() {
						i := rd.Intn(len(h.conns))
						delete(heldMem[w], h.conns[i].resourceScope)
						h.conns[i].Done()
						h.conns = append(h.conns[:i], h.conns[i+1:]...)
					} else if len(h.streams) > 0 {
						i := rd.Intn(len(h.streams))
						delete(heldMem[w], h.streams[i].resourceScope)
						h.streams[i].Done()
						h.streams = append(h.streams[:i], h.streams[i+1:]...)
					}
				}
			}
		}(w, wr)
	}
	wg.Wait()
	close(stop)
	swg.Wait()
	// quiescence: totals must equal what the goroutines report they hold
	var want network.ScopeStat
	for w := range held {
		for _, c := range held[w].conns {
			if c.dir == network.DirInbound {
				want.NumConnsInbound++
			} else {
				want.NumConnsOutbound++
			}
			if c.usefd {
				want.NumFD++
			}
			want.Memory += int64(heldMem[w][c.resourceScope])
		}
		for _, s := range held[w].streams {
			if s.dir == network.DirInbound {
				want.NumStreamsInbound++
			} else {
				want.NumStreamsOutbound++
			}
			want.Memory += int64(heldMem[w][s.resourceScope])
		}
	}
	got := rm.system.Stat()
	// case kind 4: quiescent totals  [4 ; want(6) ; got(6) ; sampled limit violations ; after-drain system(6)]
	line := []int64{4, want.Memory, int64(want.NumStreamsInbound), int64(want.NumStreamsOutbound), int64(want.NumConnsInbound), int64(want.NumConnsOutbound), int64(want.NumFD),
		got.Memory, int64(got.NumStreamsInbound), int64(got.NumStreamsOutbound), int64(got.NumConnsInbound), int64(got.NumConnsOutbound), int64(got.NumFD), int64(violations)}
	for w := range held {
		for _, c := range held[w].conns {
			c.Done()
		}
		for _, s := range held[w].streams {
			s.Done()
		}
	}
	end := rm.system.Stat()
	tend := rm.transient.Stat()
	line = append(line, end.Memory, int64(end.NumStreamsInbound+end.NumStreamsOutbound), int64(end.NumConnsInbound+end.NumConnsOutbound), int64(end.NumFD),
		tend.Memory, int64(tend.NumStreamsInbound+tend.NumStreamsOutbound), int64(tend.NumConnsInbound+tend.NumConnsOutbound), int64(tend.NumFD))
	out.Cover("concurrent.runs")
	out.CoverN("concurrent.worker_steps", int64(workers*steps))
	out.Case(line)
}

// ---- concurrent BURSTS on the conn limiter, reported as a sequential history ---------------------
//
// The per-subnet cap "executed from many goroutines at once": n goroutines, released together by
// a barrier, call OpenConnection with endpoints of the SAME subnet rule (same address, or hosts of
// one /24, or one network prefix) whose cap is 1..3.  When all have returned (quiescence; every
// admitted connection is still open, so they ARE simultaneously open) the burst is written into
// an ordinary sequential case (kind 3) as the history "the admitted calls first, then the refused
// ones" - with a correct limiter that is a legal linearisation (no connection is closed during a
// burst, so under the limiter's lock every admission precedes every refusal) - and judged by the
// proved sequential monitor: CL_CAP (open connections of the governing rule <= cap, c03_subnet_cap),
// the justification of the refusals (cap reached) and conformance with the model.
// What is observed: every answer, every admitted connection's own scope, and the snapshot at
// quiescence (reported with the LAST admitted call).  What is NOT observed but computed by the
// harness: the entries of system / transient for the admitted calls before the last one (there is
// no "between two calls" inside a burst) - they are the pre-burst entry plus the own vectors of
// the connections listed so far (refcnt + 1 each).  Limits are generous: only the limiter refuses.
func (r *c03Run) burst(ops []c03Op) (admitted []int) {
	type res struct {
		c   *connectionScope
		err error
	}
	n := len(ops)
	out := make([]res, n)
	base := r.snapshot()
	var ready, wg sync.WaitGroup
	start := make(chan struct{})
	for g := 0; g < n; g++ {
		ready.Add(1)
		wg.Add(1)
		go func(g int) {
			defer wg.Done()
			o := ops[g]
			dir := network.DirOutbound
			if o.inb {
				dir = network.DirInbound
			}
			addr := o.ep.multiaddr()
			ready.Done()
			<-start
			cs, err := r.rm.OpenConnection(dir, o.fd, addr)
			if err == nil {
				out[g].c = cs.(*connectionScope)
			}
			out[g].err = err
		}(g)
	}
	ready.Wait()
	close(start)
	wg.Wait()
	var order []int
	for g := 0; g < n; g++ {
		if out[g].err == nil {
			order = append(order, g)
		}
	}
	m := len(order)
	for g := 0; g < n; g++ {
		if out[g].err != nil {
			order = append(order, g)
		}
	}
	shared := []c03Sid{{0, 0, 0}, {1, 0, 0}}
	var sum network.ScopeStat
	for k, g := range order {
		o := ops[g]
		aflag := int64(0)
		if out[g].err == nil {
			c := out[g].c
			r.conns[o.i] = c
			admitted = append(admitted, o.i)
			if c.isAllowlisted {
				aflag = 1
			}
		}
		cls := c03Class(out[g].err)
		r.line = append(r.line, o.wire()...)
		r.line = append(r.line, cls, aflag)
		snap := r.snapshot()
		if k < m-1 {
			own := c03Read(out[g].c.resourceScope).st
			sum.Memory += own.Memory
			sum.NumStreamsInbound += own.NumStreamsInbound
			sum.NumStreamsOutbound += own.NumStreamsOutbound
			sum.NumConnsInbound += own.NumConnsInbound
			sum.NumConnsOutbound += own.NumConnsOutbound
			sum.NumFD += own.NumFD
			for _, sid := range shared {
				e := base[sid]
				e.st.Memory += sum.Memory
				e.st.NumStreamsInbound += sum.NumStreamsInbound
				e.st.NumStreamsOutbound += sum.NumStreamsOutbound
				e.st.NumConnsInbound += sum.NumConnsInbound
				e.st.NumConnsOutbound += sum.NumConnsOutbound
				e.st.NumFD += sum.NumFD
				e.ref += k + 1
				snap[sid] = e
			}
		}
		r.appendDeltaSnap(snap)
		r.nops++
		r.out.Cover(fmt.Sprintf("burst.op.class%d", cls))
	}
	r.out.Cover("burst.rounds")
	r.out.Cover(fmt.Sprintf("burst.admitted.%d", m))
	if m < n {
		r.out.Cover("burst.some_refused_by_cap")
	}
	return admitted
}

func c03SubnetBurst(t testing.TB, out *verifh.Out, rd *verifh.Rand, rounds int) {
	cfg := c03BaseCfg()
	for i := range cfg.lims {
		cfg.lims[i].Conns, cfg.lims[i].ConnsInbound, cfg.lims[i].ConnsOutbound, cfg.lims[i].FD = 1000, 1000, 1000, 1000
	}
	cp := 1 + rd.Intn(3)
	mode := rd.Intn(3)
	switch mode {
	case 0: // one address, /32 rule
		cfg.sub4 = [][2]int{{32, cp}}
	case 1: // hosts of one /24
		cfg.sub4 = [][2]int{{24, cp}}
	default: // a network prefix limit (takes precedence over the subnet rules)
		cfg.sub4 = [][2]int{{32, 8}}
		cfg.pre4 = []c03PreLim{{p: c03Prefix{w: [4]uint32{10<<24 | 9<<16}, len: 16}, cap: cp}}
	}
	r := c03NewRun(t, out, cfg, 0)
	defer r.close()
	next := 0
	open := map[int][]int{} // subnet -> open conn ids
	for round := 0; round < rounds; round++ {
		sn := rd.Intn(2)
		n := 2 + rd.Intn(7)
		ops := make([]c03Op, n)
		for g := range ops {
			var w uint32
			switch mode {
			case 0:
				w = 10<<24 | 8<<16 | uint32(sn)<<8 | 1
			case 1:
				w = 10<<24 | 8<<16 | uint32(sn)<<8 | uint32(1+rd.Intn(200))
			default:
				w = 10<<24 | 9<<16 | uint32(rd.Intn(4))<<8 | uint32(1+rd.Intn(200))
				sn = 0
			}
			ops[g] = c03Op{code: 1, i: next, inb: rd.Bool(), fd: rd.Bool(), ep: c03Ep{hasIP: true, w: [4]uint32{w}}}
			next++
		}
		open[sn] = append(open[sn], r.burst(ops)...)
		// close some (sometimes all) of the subnet's connections one by one, so that the next
		// burst starts from 0 .. cap open connections
		ids := open[sn]
		keep := ids[:0]
		all := rd.Chance(1, 3)
		for _, i := range ids {
			if all || rd.Bool() {
				r.do(c03Op{code: 9, t: c03Sid{9, i, 0}})
			} else {
				keep = append(keep, i)
			}
		}
		open[sn] = keep
	}
	for _, ids := range open {
		for _, i := range ids {
			r.do(c03Op{code: 9, t: c03Sid{9, i, 0}})
		}
	}
	out.Cover("burst.cases")
	out.Cover(fmt.Sprintf("burst.mode%d.cap%d", mode, cp))
	r.emit()
}

// ---- case kind 5: concurrent run with MID-FLIGHT samples (Conc.v) ----------------------------
//
// Operations run in real goroutines against the real manager while a sampler goroutine reads
// Stat() of the shared scopes.  Every Limit getter yields the processor (c5Limit), i.e. INSIDE
// the critical section of the scope whose limit is being checked, so that goroutines really
// interleave at the granularity of the single-lock sections of scope.go.
// Each worker owns its connections / streams and keeps, from the answers it gets, what each of
// them holds (own vector, edge list).  Around every operation it bumps its sequence counter
// (2p+1 before operation p, 2p+2 after); the sampler reads all counters before and after the
// Stat().  After the run, for every sample and worker the window [a, b] of operations that can
// overlap the Stat() gives
//   lo = componentwise min over p in [a..b] of S_p(scope)
//   hi = componentwise max over p in [a..b] of S_p(scope), and of S_p(scope)+T_p(scope) for p in [a..b)
// where S_p = what the worker's holders have committed to the scope before operation p and T_p =
// what operation p may charge to it transiently (a reservation on every scope it tries).

type c5Vec [6]int64 // mem sin sout cin cout fd

func (a c5Vec) add(b c5Vec) c5Vec {
	for i := range a {
		a[i] += b[i]
	}
	return a
}
func (a c5Vec) neg() c5Vec {
	for i := range a {
		a[i] = -a[i]
	}
	return a
}
func c5Min(a, b c5Vec) c5Vec {
	for i := range a {
		if b[i] < a[i] {
			a[i] = b[i]
		}
	}
	return a
}
func c5Max(a, b c5Vec) c5Vec {
	for i := range a {
		if b[i] > a[i] {
			a[i] = b[i]
		}
	}
	return a
}
func c5Stat(st network.ScopeStat) c5Vec {
	return c5Vec{st.Memory, int64(st.NumStreamsInbound), int64(st.NumStreamsOutbound), int64(st.NumConnsInbound), int64(st.NumConnsOutbound), int64(st.NumFD)}
}

// a Limit whose getters yield: the yield happens while the scope's mutex is held
type c5Limit struct{ in Limit }

func (l c5Limit) GetMemoryLimit() int64 { runtime.Gosched(); return l.in.GetMemoryLimit() }
func (l c5Limit) GetStreamLimit(d network.Direction) int {
	runtime.Gosched()
	return l.in.GetStreamLimit(d)
}
func (l c5Limit) GetStreamTotalLimit() int { return l.in.GetStreamTotalLimit() }
func (l c5Limit) GetConnLimit(d network.Direction) int {
	runtime.Gosched()
	return l.in.GetConnLimit(d)
}
func (l c5Limit) GetConnTotalLimit() int { return l.in.GetConnTotalLimit() }
func (l c5Limit) GetFDLimit() int        { return l.in.GetFDLimit() }

type c5Limiter struct{ in Limiter }

func (l c5Limiter) GetSystemLimits() Limit    { return c5Limit{l.in.GetSystemLimits()} }
func (l c5Limiter) GetTransientLimits() Limit { return c5Limit{l.in.GetTransientLimits()} }
func (l c5Limiter) GetAllowlistedSystemLimits() Limit {
	return c5Limit{l.in.GetAllowlistedSystemLimits()}
}
func (l c5Limiter) GetAllowlistedTransientLimits() Limit {
	return c5Limit{l.in.GetAllowlistedTransientLimits()}
}
func (l c5Limiter) GetServiceLimits(s string) Limit       { return c5Limit{l.in.GetServiceLimits(s)} }
func (l c5Limiter) GetServicePeerLimits(s string) Limit   { return c5Limit{l.in.GetServicePeerLimits(s)} }
func (l c5Limiter) GetProtocolLimits(p protocol.ID) Limit { return c5Limit{l.in.GetProtocolLimits(p)} }
func (l c5Limiter) GetProtocolPeerLimits(p protocol.ID) Limit {
	return c5Limit{l.in.GetProtocolPeerLimits(p)}
}
func (l c5Limiter) GetPeerLimits(p peer.ID) Limit   { return c5Limit{l.in.GetPeerLimits(p)} }
func (l c5Limiter) GetStreamLimits(p peer.ID) Limit { return c5Limit{l.in.GetStreamLimits(p)} }
func (l c5Limiter) GetConnLimits() Limit            { return c5Limit{l.in.GetConnLimits()} }

const (
	c5NPeers  = 3
	c5NProtos = 2
)

// the table of shared scopes: index -> (K, a, limit index of c03Cfg.lims)
type c5Scope struct {
	k, a, lim int
	read      func() network.ScopeStat
}

func c5IPeer(q int) int  { return 4 + q }
func c5IProto(p int) int { return 4 + c5NPeers + p }
func c5ISvc() int        { return 4 + c5NPeers + c5NProtos }
func c5IPP(p, q int) int { return c5ISvc() + 1 + p*c5NPeers + q }
func c5ISP(q int) int    { return c5ISvc() + 1 + c5NProtos*c5NPeers + q }
func c5NScopes() int     { return c5ISvc() + 1 + c5NProtos*c5NPeers + c5NPeers }
func c5Scopes(rm *resourceManager) []c5Scope {
	t := make([]c5Scope, c5NScopes())
	t[0] = c5Scope{0, 0, 0, func() network.ScopeStat { return rm.system.Stat() }}
	t[1] = c5Scope{1, 0, 1, func() network.ScopeStat { return rm.transient.Stat() }}
	t[2] = c5Scope{2, 0, 2, func() network.ScopeStat { return rm.allowlistedSystem.Stat() }}
	t[3] = c5Scope{3, 0, 3, func() network.ScopeStat { return rm.allowlistedTransient.Stat() }}
	for q := 0; q < c5NPeers; q++ {
		q := q
		t[c5IPeer(q)] = c5Scope{6, q, 8, func() (st network.ScopeStat) {
			rm.ViewPeer(c03PeerID(q), func(s network.PeerScope) error { st = s.Stat(); return nil })
			return
		}}
		t[c5ISP(q)] = c5Scope{7, q, 5, func() network.ScopeStat {
			sv := rm.getServiceScope(c03Svc(0))
			sub := sv.getPeerScope(c03PeerID(q))
			st := sub.Stat()
			sub.DecRef()
			sv.DecRef()
			return st
		}}
		for p := 0; p < c5NProtos; p++ {
			p := p
			t[c5IPP(p, q)] = c5Scope{8, p*4096 + q, 7, func() network.ScopeStat {
				ps := rm.getProtocolScope(c03Proto(p))
				sub := ps.getPeerScope(c03PeerID(q))
				st := sub.Stat()
				sub.DecRef()
				ps.DecRef()
				return st
			}}
		}
	}
	for p := 0; p < c5NProtos; p++ {
		p := p
		t[c5IProto(p)] = c5Scope{5, p, 6, func() (st network.ScopeStat) {
			rm.ViewProtocol(c03Proto(p), func(s network.ProtocolScope) error { st = s.Stat(); return nil })
			return
		}}
	}
	t[c5ISvc()] = c5Scope{4, 0, 4, func() (st network.ScopeStat) {
		rm.ViewService(c03Svc(0), func(s network.ServiceScope) error { st = s.Stat(); return nil })
		return
	}}
	return t
}

type c5Span struct {
	sp  network.ResourceScopeSpan
	mem int64
}

type c5Holder struct {
	id       int
	conn     *connectionScope
	strm     *streamScope
	own      c5Vec
	edges    []int
	allow    bool // connection admitted through the allow-listed scopes
	net      int  // 0 ordinary endpoint, 1 allow-listed for every peer, 2 allow-listed for peer 0 only
	hasPeer  bool
	peer     int
	hasProto bool
	proto    int
	hasSvc   bool
	spans    []c5Span
}

func (h *c5Holder) scope() *resourceScope {
	if h.conn != nil {
		return h.conn.resourceScope
	}
	return h.strm.resourceScope
}

// one logged operation: the change of the committed charges and the transient attempt
type c5Ev struct{ delta, touch map[int]c5Vec }

type c5Worker struct {
	seq     atomic.Int64
	log     []c5Ev
	holders []*c5Holder
	cur     c5Ev
}

func (w *c5Worker) begin() {
	w.cur = c5Ev{delta: map[int]c5Vec{}, touch: map[int]c5Vec{}}
}
func (w *c5Worker) attempt(scopes []int, v c5Vec) {
	for _, s := range scopes {
		w.cur.touch[s] = w.cur.touch[s].add(v)
	}
}
func (w *c5Worker) commit(scopes []int, v c5Vec) {
	for _, s := range scopes {
		w.cur.delta[s] = w.cur.delta[s].add(v)
	}
}

// run f as operation number len(w.log): the attempt is declared before, the outcome after
func (w *c5Worker) op(declare func(), f func()) {
	w.begin()
	declare()
	p := int64(len(w.log))
	w.log = append(w.log, w.cur)
	w.seq.Store(2*p + 1)
	f()
	w.seq.Store(2*p + 2)
}

type c5Sample struct {
	scope  int
	obs    c5Vec
	c1, c2 []int64
}

func c5Fits(l BaseLimit, v c5Vec) bool {
	for _, x := range v {
		if x < 0 {
			return false
		}
	}
	return v[0] <= l.Memory && v[1] <= int64(l.StreamsInbound) && v[2] <= int64(l.StreamsOutbound) && v[1]+v[2] <= int64(l.Streams) &&
		v[3] <= int64(l.ConnsInbound) && v[4] <= int64(l.ConnsOutbound) && v[3]+v[4] <= int64(l.Conns) && v[5] <= int64(l.FD)
}

var c5Replay bool

func c03Sampled(t testing.TB, out *verifh.Out, rd *verifh.Rand, workers, steps int) {
	cfg := c03BaseCfg()
	// tight enough that every kind of scope refuses now and then, so that the undo of a charged
	// prefix and the rollbacks of the re-parenting steps run while other goroutines charge
	cfg.lims[0].Conns, cfg.lims[0].Memory, cfg.lims[0].Streams = 8+rd.Intn(8), int64(3000+rd.Intn(3000)), 10+rd.Intn(10)
	cfg.lims[0].FD = 4 + rd.Intn(6)
	cfg.lims[1].Conns, cfg.lims[1].Streams, cfg.lims[1].Memory = 3+rd.Intn(3), 4+rd.Intn(3), int64(1500+rd.Intn(1500))
	cfg.lims[2].Conns, cfg.lims[2].Memory = 3+rd.Intn(4), int64(1500+rd.Intn(1500))
	cfg.lims[3].Conns = 2 + rd.Intn(3)
	cfg.lims[8].Streams, cfg.lims[8].Conns, cfg.lims[8].Memory = 3+rd.Intn(4), 2+rd.Intn(3), int64(1000+rd.Intn(1500))
	cfg.lims[6].Streams, cfg.lims[6].Memory = 4+rd.Intn(4), int64(1000+rd.Intn(1000))
	cfg.lims[7].Streams = 2 + rd.Intn(2)
	cfg.lims[4].Streams, cfg.lims[4].Memory = 3+rd.Intn(3), int64(800+rd.Intn(800))
	cfg.lims[5].Streams = 1 + rd.Intn(2)
	cfg.allow = []c03Allow{
		{p: c03Prefix{w: [4]uint32{10<<24 | 9<<16}, len: 16}, peer: -1},
		{p: c03Prefix{w: [4]uint32{10<<24 | 8<<16}, len: 16}, peer: 0},
	}
	rm := cfg.managerWith(t, c5Limiter{cfg.limiter()})
	defer rm.Close()
	table := c5Scopes(rm)
	ws := make([]*c5Worker, workers)
	for i := range ws {
		ws[i] = &c5Worker{}
	}
	var nextID atomic.Int64
	nextID.Store(1000)
	var wg sync.WaitGroup
	var stop atomic.Bool
	var samples []c5Sample
	var swg sync.WaitGroup
	swg.Add(1)
	go func() {
		defer swg.Done()
		for i := 0; !stop.Load() && len(samples) < 150000; i++ {
			s := i % len(table)
			sm := c5Sample{scope: s, c1: make([]int64, workers), c2: make([]int64, workers)}
			for w := range ws {
				sm.c1[w] = ws[w].seq.Load()
			}
			sm.obs = c5Stat(table[s].read())
			for w := range ws {
				sm.c2[w] = ws[w].seq.Load()
			}
			samples = append(samples, sm)
			runtime.Gosched()
		}
	}()
	var cov [16]atomic.Int64
	for wi := 0; wi < workers; wi++ {
		wg.Add(1)
		go func(wi int, rd *verifh.Rand) {
			defer wg.Done()
			w := ws[wi]
			pick := func(f func(h *c5Holder) bool) *c5Holder {
				var c []*c5Holder
				for _, h := range w.holders {
					if f(h) {
						c = append(c, h)
					}
				}
				if len(c) == 0 {
					return nil
				}
				return c[rd.Intn(len(c))]
			}
			drop := func(h *c5Holder) {
				for i, x := range w.holders {
					if x == h {
						w.holders = append(w.holders[:i], w.holders[i+1:]...)
						return
					}
				}
			}
			for s := 0; s < steps; s++ {
				switch rd.Intn(14) {
				case 0, 1: // OpenConnection
					net := rd.Intn(3)
					ep := c03Ep{hasIP: true, w: [4]uint32{10<<24 | uint32([]int{2, 9, 8}[net])<<16 | uint32(wi)<<8 | uint32(1+rd.Intn(200))}}
					dir, usefd := network.DirInbound, rd.Bool()
					if rd.Bool() {
						dir = network.DirOutbound
					}
					d := c5Vec{0, 0, 0, b2i(dir == network.DirInbound), b2i(dir == network.DirOutbound), b2i(usefd)}
					w.op(func() {
						w.attempt([]int{1, 0}, d)
						if net != 0 {
							w.attempt([]int{3, 2}, d)
						}
					}, func() {
						c, err := rm.OpenConnection(dir, usefd, ep.multiaddr())
						if err != nil {
							cov[0].Add(1)
							return
						}
						h := &c5Holder{id: int(nextID.Add(1)), conn: c.(*connectionScope), own: d, net: net}
						h.allow = h.conn.isAllowlisted
						if h.allow {
							h.edges = []int{3, 2}
							cov[1].Add(1)
						} else {
							h.edges = []int{1, 0}
						}
						w.commit(h.edges, d)
						w.holders = append(w.holders, h)
					})
				case 2, 3: // SetPeer
					h := pick(func(h *c5Holder) bool { return h.conn != nil && !h.hasPeer })
					if h == nil {
						continue
					}
					q := rd.Intn(c5NPeers)
					okFor := h.net == 1 || (h.net == 2 && q == 0)
					transfer := (h.allow && !okFor) || (!h.allow && len(h.edges) == 0)
					w.op(func() {
						w.attempt([]int{c5IPeer(q)}, h.own)
						if transfer {
							w.attempt([]int{0, 1}, h.own)
						}
					}, func() {
						err := h.conn.SetPeer(c03PeerID(q))
						old := h.edges
						switch {
						case err == nil && h.allow && !transfer:
							h.edges = []int{c5IPeer(q), 2}
						case err == nil:
							h.edges, h.allow = []int{c5IPeer(q), 0}, false
						case transfer:
							// refused by system / transient: charged to nothing (the documented
							// intermediate state); refused by the peer scope: system + transient
							h.allow = false
							if strings.HasPrefix(err.Error(), "peer:") {
								h.edges = []int{0, 1}
								cov[3].Add(1)
							} else {
								h.edges = nil
								cov[4].Add(1)
							}
						default:
							cov[2].Add(1)
						}
						if err == nil {
							h.hasPeer, h.peer = true, q
							if transfer {
								cov[5].Add(1)
							}
						}
						w.commit(old, h.own.neg())
						w.commit(h.edges, h.own)
					})
				case 4, 5: // OpenStream
					q := rd.Intn(c5NPeers)
					dir := network.DirInbound
					if rd.Bool() {
						dir = network.DirOutbound
					}
					d := c5Vec{0, b2i(dir == network.DirInbound), b2i(dir == network.DirOutbound), 0, 0, 0}
					e := []int{c5IPeer(q), 1, 0}
					w.op(func() { w.attempt(e, d) }, func() {
						st, err := rm.OpenStream(c03PeerID(q), dir)
						if err != nil {
							cov[6].Add(1)
							return
						}
						h := &c5Holder{id: int(nextID.Add(1)), strm: st.(*streamScope), own: d, edges: e, hasPeer: true, peer: q}
						w.commit(e, d)
						w.holders = append(w.holders, h)
					})
				case 6: // SetProtocol
					h := pick(func(h *c5Holder) bool { return h.strm != nil && !h.hasProto })
					if h == nil {
						continue
					}
					p := rd.Intn(c5NProtos)
					w.op(func() { w.attempt([]int{c5IProto(p), c5IPP(p, h.peer)}, h.own) }, func() {
						if err := h.strm.SetProtocol(c03Proto(p)); err != nil {
							cov[7].Add(1)
							return
						}
						old := h.edges
						h.hasProto, h.proto = true, p
						h.edges = []int{c5IPeer(h.peer), c5IPP(p, h.peer), c5IProto(p), 0}
						w.commit(old, h.own.neg())
						w.commit(h.edges, h.own)
					})
				case 7: // SetService
					h := pick(func(h *c5Holder) bool { return h.strm != nil && h.hasProto && !h.hasSvc })
					if h == nil {
						continue
					}
					w.op(func() { w.attempt([]int{c5ISvc(), c5ISP(h.peer)}, h.own) }, func() {
						if err := h.strm.SetService(c03Svc(0)); err != nil {
							cov[8].Add(1)
							return
						}
						old := h.edges
						h.hasSvc = true
						h.edges = []int{c5IPeer(h.peer), c5IPP(h.proto, h.peer), c5ISP(h.peer), c5IProto(h.proto), c5ISvc(), 0}
						w.commit(old, h.own.neg())
						w.commit(h.edges, h.own)
					})
				case 8, 9: // ReserveMemory on the holder or on one of its spans
					h := pick(func(h *c5Holder) bool { return true })
					if h == nil {
						continue
					}
					n := 1 + rd.Intn(600)
					prio := uint8(rd.Intn(256))
					d := c5Vec{int64(n)}
					si := -1
					if len(h.spans) > 0 && rd.Bool() {
						si = rd.Intn(len(h.spans))
					}
					w.op(func() { w.attempt(h.edges, d) }, func() {
						var err error
						if si >= 0 {
							err = h.spans[si].sp.ReserveMemory(n, prio)
						} else {
							err = h.scope().ReserveMemory(n, prio)
						}
						if err != nil {
							cov[9].Add(1)
							return
						}
						if si >= 0 {
							h.spans[si].mem += int64(n)
						}
						h.own[0] += int64(n)
						w.commit(h.edges, d)
					})
				case 10: // ReleaseMemory (at most what the holder reserved directly)
					h := pick(func(h *c5Holder) bool {
						m := h.own[0]
						for _, sp := range h.spans {
							m -= sp.mem
						}
						return m > 0
					})
					if h == nil {
						continue
					}
					m := h.own[0]
					for _, sp := range h.spans {
						m -= sp.mem
					}
					n := 1 + rd.Intn(int(m))
					w.op(func() {}, func() {
						h.scope().ReleaseMemory(n)
						h.own[0] -= int64(n)
						w.commit(h.edges, c5Vec{-int64(n)})
					})
				case 11: // BeginSpan / span Done
					h := pick(func(h *c5Holder) bool { return true })
					if h == nil {
						continue
					}
					if len(h.spans) < 2 && rd.Bool() {
						w.op(func() {}, func() {
							if sp, err := h.scope().BeginSpan(); err == nil {
								h.spans = append(h.spans, c5Span{sp: sp})
								cov[10].Add(1)
							}
						})
					} else if len(h.spans) > 0 {
						i := rd.Intn(len(h.spans))
						w.op(func() {}, func() {
							h.spans[i].sp.Done()
							h.own[0] -= h.spans[i].mem
							w.commit(h.edges, c5Vec{-h.spans[i].mem})
							h.spans = append(h.spans[:i], h.spans[i+1:]...)
						})
					}
				default: // Done
					h := pick(func(h *c5Holder) bool { return true })
					if h == nil {
						continue
					}
					w.op(func() {}, func() {
						if h.conn != nil {
							h.conn.Done()
						} else {
							h.strm.Done()
						}
						w.commit(h.edges, h.own.neg())
						drop(h)
					})
				}
			}
		}(wi, rd.Fork())
	}
	wg.Wait()
	stop.Store(true)
	swg.Wait()

	// committed charges of every worker before each of its operations: S[w][p][scope]
	ns := len(table)
	S := make([][][]c5Vec, workers)
	for wi, w := range ws {
		S[wi] = make([][]c5Vec, len(w.log)+1)
		S[wi][0] = make([]c5Vec, ns)
		for p, ev := range w.log {
			nx := append([]c5Vec(nil), S[wi][p]...)
			for s, d := range ev.delta {
				nx[s] = nx[s].add(d)
			}
			S[wi][p+1] = nx
		}
	}
	bounds := func(sm c5Sample) (lo, hi []c5Vec, mid bool) {
		for wi, w := range ws {
			a, b := int(sm.c1[wi]/2), int((sm.c2[wi]+1)/2)
			if sm.c1[wi]%2 == 1 || sm.c1[wi] != sm.c2[wi] {
				mid = true
			}
			l, h := S[wi][a][sm.scope], S[wi][a][sm.scope]
			for p := a; p <= b; p++ {
				l, h = c5Min(l, S[wi][p][sm.scope]), c5Max(h, S[wi][p][sm.scope])
				if p < b {
					if tv, ok := w.log[p].touch[sm.scope]; ok {
						h = c5Max(h, S[wi][p][sm.scope].add(tv))
					}
				}
			}
			lo, hi = append(lo, l), append(hi, h)
		}
		return
	}
	// choose the samples of the case: everything that looks wrong first (the extracted monitor
	// is the judge), then mid-flight samples, then some quiet ones
	var bad, midfl, quiet []int
	for i, sm := range samples {
		lo, hi, mid := bounds(sm)
		var sl, sh c5Vec
		for wi := range lo {
			sl, sh = sl.add(lo[wi]), sh.add(hi[wi])
		}
		ok := c5Fits(cfg.lims[table[sm.scope].lim], sm.obs)
		for j := range sl {
			if sm.obs[j] < sl[j] || sm.obs[j] > sh[j] {
				ok = false
			}
		}
		switch {
		case !ok:
			bad = append(bad, i)
		case mid:
			midfl = append(midfl, i)
		default:
			quiet = append(quiet, i)
		}
	}
	thin := func(l []int, n int) []int {
		if len(l) <= n {
			return l
		}
		var r []int
		for i := 0; i < n; i++ {
			r = append(r, l[i*len(l)/n])
		}
		return r
	}
	chosen := append(append(thin(bad, 10), thin(midfl, 120)...), thin(quiet, 30)...)
	if c5Replay {
		// replay mode re-judges every emitted case inside coqc as well: keep the cases few
		chosen = append(thin(bad, 22), thin(midfl, 2)...)
	}
	sort.Ints(chosen)
	njudged := len(chosen)
	// the samples go out in cases of at most 24 (short enough for the vm_compute cross-check of
	// the extraction), the quiescent state in a case of its own
	for len(chosen) > 0 {
		n := min(24, len(chosen))
		line := []int64{5, int64(n)}
		for _, i := range chosen[:n] {
			sm := samples[i]
			sc := table[sm.scope]
			line = append(line, int64(sc.k), int64(sc.a))
			line = append(line, c03LimWire(cfg.lims[sc.lim])...)
			line = append(line, sm.obs[:]...)
			lo, hi, _ := bounds(sm)
			line = append(line, int64(workers))
			for wi := range lo {
				line = append(line, lo[wi][:]...)
				line = append(line, hi[wi][:]...)
			}
		}
		out.Case(append(line, 0, 0))
		chosen = chosen[n:]
	}
	line := []int64{5, 0}
	// quiescence: every live holder with what it holds, and the Stat() of every shared scope
	// and of every holder's own scope
	nh := 0
	for _, w := range ws {
		nh += len(w.holders)
	}
	line = append(line, int64(nh))
	for _, w := range ws {
		for _, h := range w.holders {
			line = append(line, int64(h.id))
			line = append(line, h.own[:]...)
			line = append(line, int64(len(h.edges)))
			for _, e := range h.edges {
				line = append(line, int64(e))
			}
		}
	}
	line = append(line, int64(ns+nh))
	for s, sc := range table {
		line = append(line, int64(s), int64(sc.k), int64(sc.a))
		st := c5Stat(sc.read())
		line = append(line, st[:]...)
	}
	for _, w := range ws {
		for _, h := range w.holders {
			k := int64(9)
			if h.strm != nil {
				k = 10
			}
			st := c5Stat(h.scope().Stat())
			line = append(line, int64(h.id), k, int64(h.id))
			line = append(line, st[:]...)
		}
	}
	out.Case(line)
	for _, w := range ws {
		for _, h := range w.holders {
			for _, sp := range h.spans {
				sp.sp.Done()
			}
			if h.conn != nil {
				h.conn.Done()
			} else {
				h.strm.Done()
			}
		}
	}
	out.Cover("sampled.runs")
	out.CoverN("sampled.samples_taken", int64(len(samples)))
	out.CoverN("sampled.samples_midflight", int64(len(midfl)))
	out.CoverN("sampled.samples_judged", int64(njudged))
	out.CoverN("sampled.samples_prefilter_bad", int64(len(bad)))
	nops := 0
	for _, w := range ws {
		nops += len(w.log)
	}
	out.CoverN("sampled.operations", int64(nops))
	names := []string{"openconn_refused", "openconn_allowlisted", "setpeer_refused", "setpeer_transfer_refused_by_peer", "setpeer_transfer_refused_by_system_or_transient",
		"setpeer_transfer_ok", "openstream_refused", "setprotocol_refused", "setservice_refused", "reservememory_refused", "spans"}
	for i, n := range names {
		out.CoverN("sampled."+n, cov[i].Load())
	}
}

// ---- case kind 5, second generator: FIRST USE of a per-peer sub-scope from several goroutines at once ----
//
// Round r: a fresh peer; N streams of that peer are opened; then, released by a barrier, all of
// them call SetProtocol(same protocol) at once - the first time the (protocol, peer) pair is
// seen, so the lookup-or-create of the per-peer sub-scope (protocolScope.getPeerScope, one
// critical section in the code) runs concurrently; then the attached ones call SetService at
// once (serviceScope.getPeerScope).  The limiter's GetProtocolPeerLimits / GetServicePeerLimits
// keep the caller inside for a bounded number of yields or until a second caller is inside as
// well (no clock): if the code serialises the callers the wait runs out, otherwise they meet.
// Judged at quiescence (streams still open) by the proved kind-5 monitor: the REGISTERED
// sub-scope of every (protocol, peer) / (service, peer) pair, the peer, protocol, service,
// transient and system scopes report exactly the sum of the streams charged to them, within the
// per-peer limits.

type c5FirstUseLimiter struct {
	Limiter
	inside atomic.Int32
}

func (l *c5FirstUseLimiter) meet() {
	l.inside.Add(1)
	for i := 0; i < 4000 && l.inside.Load() < 2; i++ {
		runtime.Gosched()
	}
	// let the other caller see us before we leave
	for i := 0; i < 50; i++ {
		runtime.Gosched()
	}
	l.inside.Add(-1)
}
func (l *c5FirstUseLimiter) GetProtocolPeerLimits(p protocol.ID) Limit {
	l.meet()
	return l.Limiter.GetProtocolPeerLimits(p)
}
func (l *c5FirstUseLimiter) GetServicePeerLimits(s string) Limit {
	l.meet()
	return l.Limiter.GetServicePeerLimits(s)
}

func c03FirstUse(t testing.TB, out *verifh.Out, rd *verifh.Rand, rounds int) {
	cfg := c03BaseCfg()
	cfg.lims[7].Streams = 1 + rd.Intn(2) // per-peer limit of a protocol
	cfg.lims[5].Streams = 1 + rd.Intn(2) // per-peer limit of a service
	rm := cfg.managerWith(t, &c5FirstUseLimiter{Limiter: cfg.limiter()})
	defer rm.Close()
	type scopeRow struct {
		k, a, lim int
		read      func() network.ScopeStat
	}
	sub := func(m map[peer.ID]*resourceScope, mu sync.Locker, pid peer.ID) network.ScopeStat {
		// the REGISTERED sub-scope, read without creating one
		mu.Lock()
		ps := m[pid]
		mu.Unlock()
		if ps == nil {
			return network.ScopeStat{}
		}
		return ps.Stat()
	}
	table := []scopeRow{
		{0, 0, 0, func() network.ScopeStat { return rm.system.Stat() }},
		{1, 0, 1, func() network.ScopeStat { return rm.transient.Stat() }},
	}
	for p := 0; p < c5NProtos; p++ {
		p := p
		table = append(table, scopeRow{5, p, 6, func() (st network.ScopeStat) {
			rm.ViewProtocol(c03Proto(p), func(s network.ProtocolScope) error { st = s.Stat(); return nil })
			return
		}})
	}
	iSvc := len(table)
	table = append(table, scopeRow{4, 0, 4, func() (st network.ScopeStat) {
		rm.ViewService(c03Svc(0), func(s network.ServiceScope) error { st = s.Stat(); return nil })
		return
	}})
	type holder struct {
		id    int
		strm  *streamScope
		own   c5Vec
		edges []int
	}
	var holders []*holder
	races := 0
	for r := 0; r < rounds; r++ {
		q, p := 100+r, rd.Intn(c5NProtos)
		pid := c03PeerID(q)
		iPeer, iPP, iSP := len(table), len(table)+1, len(table)+2
		table = append(table,
			scopeRow{6, q, 8, func() (st network.ScopeStat) {
				rm.ViewPeer(pid, func(s network.PeerScope) error { st = s.Stat(); return nil })
				return
			}},
			scopeRow{8, p*4096 + q, 7, func() network.ScopeStat {
				ps := rm.getProtocolScope(c03Proto(p))
				defer ps.DecRef()
				return sub(ps.peers, ps, pid)
			}},
			scopeRow{7, q, 5, func() network.ScopeStat {
				sv := rm.getServiceScope(c03Svc(0))
				defer sv.DecRef()
				return sub(sv.peers, sv, pid)
			}})
		n := 2 + rd.Intn(3)
		var hs []*holder
		for i := 0; i < n; i++ {
			dir := network.DirInbound
			if rd.Bool() {
				dir = network.DirOutbound
			}
			st, err := rm.OpenStream(pid, dir)
			if err != nil {
				t.Fatalf("OpenStream under generous limits: %v", err)
			}
			h := &holder{id: 100000 + len(holders), strm: st.(*streamScope), edges: []int{iPeer, 1, 0},
				own: c5Vec{0, b2i(dir == network.DirInbound), b2i(dir == network.DirOutbound), 0, 0, 0}}
			holders = append(holders, h)
			hs = append(hs, h)
		}
		phase := func(who []*holder, f func(h *holder) error) []*holder {
			var wg sync.WaitGroup
			start := make(chan struct{})
			errs := make([]error, len(who))
			for i, h := range who {
				wg.Add(1)
				go func(i int, h *holder) {
					defer wg.Done()
					<-start
					errs[i] = f(h)
				}(i, h)
			}
			close(start)
			wg.Wait()
			var ok []*holder
			for i, h := range who {
				if errs[i] == nil {
					ok = append(ok, h)
				} else if !errors.Is(errs[i], network.ErrResourceLimitExceeded) {
					t.Fatalf("first-use round: unexpected error %v", errs[i])
				}
			}
			return ok
		}
		att := phase(hs, func(h *holder) error { return h.strm.SetProtocol(c03Proto(p)) })
		for _, h := range att {
			h.edges = []int{iPeer, iPP, 2 + p, 0}
		}
		if len(att) < n {
			out.Cover("firstuse.setprotocol_refused_by_per_peer_limit")
		}
		svc := phase(att, func(h *holder) error { return h.strm.SetService(c03Svc(0)) })
		for _, h := range svc {
			h.edges = []int{iPeer, iPP, iSP, 2 + p, iSvc, 0}
		}
		if len(svc) < len(att) {
			out.Cover("firstuse.setservice_refused_by_per_peer_limit")
		}
		races += n
		_ = iSP
	}
	// one case: a sample of every per-peer sub-scope (limit clause; bounds = what the streams hold),
	// then the quiescent state
	expect := func(s int) c5Vec {
		var v c5Vec
		for _, h := range holders {
			for _, e := range h.edges {
				if e == s {
					v = v.add(h.own)
				}
			}
		}
		return v
	}
	var smp []int64
	nsmp := 0
	for s, sc := range table {
		if sc.k != 7 && sc.k != 8 {
			continue
		}
		nsmp++
		st := c5Stat(sc.read())
		e := expect(s)
		smp = append(smp, int64(sc.k), int64(sc.a))
		smp = append(smp, c03LimWire(cfg.lims[sc.lim])...)
		smp = append(smp, st[:]...)
		smp = append(smp, 1)
		smp = append(smp, e[:]...)
		smp = append(smp, e[:]...)
	}
	line := append([]int64{5, int64(nsmp)}, smp...)
	line = append(line, int64(len(holders)))
	for _, h := range holders {
		line = append(line, int64(h.id))
		line = append(line, h.own[:]...)
		line = append(line, int64(len(h.edges)))
		for _, e := range h.edges {
			line = append(line, int64(e))
		}
	}
	line = append(line, int64(len(table)+len(holders)))
	for s, sc := range table {
		st := c5Stat(sc.read())
		line = append(line, int64(s), int64(sc.k), int64(sc.a))
		line = append(line, st[:]...)
	}
	for _, h := range holders {
		st := c5Stat(h.strm.resourceScope.Stat())
		line = append(line, int64(h.id), 10, int64(h.id))
		line = append(line, st[:]...)
	}
	out.Case(line)
	for _, h := range holders {
		h.strm.Done()
	}
	out.Cover("firstuse.cases")
	out.CoverN("firstuse.rounds", int64(rounds))
	out.CoverN("firstuse.concurrent_first_calls", int64(races))
}

// ---- entry points ----------------------------------------------------------------------------

func TestVerifNothing(t *testing.T) {}

func TestVerifC03(t *testing.T) {
	out, err := verifh.Open()
	if err != nil {
		t.Skip(err)
	}
	defer out.Close()
	rd := verifh.NewRand(verifh.Seed())
	if os.Getenv("VERIF_C03_ONLY") == "sampled" {
		// development aid: only the concurrent runs with mid-flight samples
		for i := 0; i < 40; i++ {
			c03Sampled(t, out, rd.Fork(), 8, 200)
		}
		for i := 0; i < 12; i++ {
			c03FirstUse(t, out, rd.Fork(), 12)
		}
		return
	}
	if os.Getenv("VERIF_C03_ONLY") == "burst" {
		for i := 0; i < 150; i++ {
			c03SubnetBurst(t, out, rd.Fork(), 8)
		}
		return
	}
	c03Corpus(t, out)
	ncases, nconc := 1000, 16
	if verifh.Tier() == "thorough" {
		// sized so that the thorough tier ends well within an hour (the extracted monitor
		// needs tens of milliseconds per history)
		ncases, nconc = 15000, 100
	}
	for i := 0; i < ncases; i++ {
		cr := rd.Fork()
		pf := c03Profiles(cr)
		nops := 5 + cr.Intn(56)
		c03OneCase(t, out, cr, pf, nops, cr.Chance(1, 2))
	}
	for i := 0; i < nconc; i++ {
		c03Concurrent(t, out, rd.Fork(), 8, 400)
	}
	// a run takes ~30 ms; a seeded non-atomic check-and-add shows in roughly one run out of eight
	nsamp, ssteps := 120, 200
	if verifh.Tier() == "thorough" {
		nsamp, ssteps = 600, 300
	}
	for i := 0; i < nsamp; i++ {
		c03Sampled(t, out, rd.Fork(), 8, ssteps)
	}
	nfirst := 12
	if verifh.Tier() == "thorough" {
		nfirst = 100
	}
	for i := 0; i < nfirst; i++ {
		c03FirstUse(t, out, rd.Fork(), 12)
	}
	nburst := 150
	if verifh.Tier() == "thorough" {
		nburst = 1500
	}
	for i := 0; i < nburst; i++ {
		c03SubnetBurst(t, out, rd.Fork(), 8)
	}
	// the address plan really is what the model assumes
	ep := c03Ep{hasIP: true, w: [4]uint32{10<<24 | 1<<16 | 1}}
	if !strings.HasPrefix(ep.multiaddr().String(), "/ip4/10.1.0.1/") {
		t.Fatalf("address plan: %s", ep.multiaddr())
	}
}

// ---- replay: re-execute the operations of a recorded case on the current tree ----------------

type c03Reader struct {
	t   []int64
	p   int
	bad bool
}

func (r *c03Reader) next() int64 {
	if r.p >= len(r.t) {
		r.bad = true
		return 0
	}
	v := r.t[r.p]
	r.p++
	return v
}

func c03UnLim(x int64) int {
	if x == -1 {
		return math.MaxInt
	}
	return int(x)
}

func (r *c03Reader) limit() BaseLimit {
	l := BaseLimit{}
	m := r.next()
	if m == -1 {
		m = math.MaxInt64
	}
	l.Memory = m
	l.Streams, l.StreamsInbound, l.StreamsOutbound = c03UnLim(r.next()), c03UnLim(r.next()), c03UnLim(r.next())
	l.Conns, l.ConnsInbound, l.ConnsOutbound, l.FD = c03UnLim(r.next()), c03UnLim(r.next()), c03UnLim(r.next()), c03UnLim(r.next())
	return l
}

func (r *c03Reader) prefix() c03Prefix {
	p := c03Prefix{v6: r.next() != 0}
	for i := 0; i < 4; i++ {
		p.w[i] = uint32(r.next())
	}
	p.len = int(r.next())
	return p
}

func c03Decode(t []int64) (*c03Cfg, int64, []c03Op, bool) {
	r := &c03Reader{t: t}
	if r.next() != 3 {
		return nil, 0, nil, false
	}
	flags := r.next()
	c := &c03Cfg{}
	for i := range c.lims {
		c.lims[i] = r.limit()
	}
	for n := r.next(); n > 0 && !r.bad; n-- {
		o := c03Over{kind: int(r.next()), id: int(r.next())}
		o.lim = r.limit()
		c.over = append(c.over, o)
	}
	for n := r.next(); n > 0 && !r.bad; n-- {
		a := c03Allow{p: r.prefix()}
		a.peer = int(r.next())
		c.allow = append(c.allow, a)
	}
	for n := r.next(); n > 0 && !r.bad; n-- {
		c.sub4 = append(c.sub4, [2]int{int(r.next()), c03UnLim(r.next())})
	}
	for n := r.next(); n > 0 && !r.bad; n-- {
		c.sub6 = append(c.sub6, [2]int{int(r.next()), c03UnLim(r.next())})
	}
	for n := r.next(); n > 0 && !r.bad; n-- {
		p := c03PreLim{p: r.prefix()}
		p.cap = c03UnLim(r.next())
		c.pre4 = append(c.pre4, p)
	}
	for n := r.next(); n > 0 && !r.bad; n-- {
		p := c03PreLim{p: r.prefix()}
		p.cap = c03UnLim(r.next())
		c.pre6 = append(c.pre6, p)
	}
	var ops []c03Op
	for r.p < len(r.t) && !r.bad {
		o := c03Op{code: int(r.next())}
		switch o.code {
		case 1:
			o.i, o.inb, o.fd = int(r.next()), r.next() != 0, r.next() != 0
			o.ep.hasIP, o.ep.v6 = r.next() != 0, r.next() != 0
			for i := 0; i < 4; i++ {
				o.ep.w[i] = uint32(r.next())
			}
		case 2, 4, 5:
			o.i, o.q = int(r.next()), int(r.next())
		case 3:
			o.i, o.q, o.inb = int(r.next()), int(r.next()), r.next() != 0
		case 6:
			o.t = c03Sid{int(r.next()), int(r.next()), int(r.next())}
			o.sz, o.prio = r.next(), int(r.next())
		case 7:
			o.t = c03Sid{int(r.next()), int(r.next()), int(r.next())}
			o.sz = r.next()
		case 8:
			o.t = c03Sid{int(r.next()), int(r.next()), int(r.next())}
			o.k = int(r.next())
		case 9:
			o.t = c03Sid{int(r.next()), int(r.next()), int(r.next())}
		case 10:
		default:
			return nil, 0, nil, false
		}
		r.next() // class
		r.next() // aflag
		nd := r.next()
		r.p += int(11 * nd)
		ops = append(ops, o)
	}
	return c, flags, ops, !r.bad && r.p == len(r.t)
}

func TestVerifC03Replay(t *testing.T) {
	out, err := verifh.Open()
	if err != nil {
		t.Skip(err)
	}
	defer out.Close()
	toks := verifh.ReplayCase()
	if len(toks) > 0 && toks[0] == 5 {
		// a concurrent run is not replayable step by step: run fresh ones
		rd := verifh.NewRand(verifh.Seed())
		c5Replay = true
		for i := 0; i < 12; i++ {
			c03Sampled(t, out, rd.Fork(), 8, 200)
		}
		for i := 0; i < 4; i++ {
			c03FirstUse(t, out, rd.Fork(), 12)
		}
		return
	}
	if len(toks) > 0 && toks[0] == 4 {
		// a concurrent run is not replayable step by step: run fresh ones
		rd := verifh.NewRand(verifh.Seed())
		for i := 0; i < 10; i++ {
			c03Concurrent(t, out, rd.Fork(), 8, 400)
		}
		return
	}
	cfg, flags, ops, ok := c03Decode(toks)
	if !ok {
		t.Fatalf("cannot decode the case")
	}
	r := c03NewRun(t, out, cfg, flags)
	defer r.close()
	for _, o := range ops {
		r.do(o)
	}
	r.emit()
}

#!/usr/bin/env python3
"""C05 — every dial request completes exactly once; dials deduplicated and capped.
See DESIGN.md section 6 (C05)."""
import os, re, sys
sys.path.insert(0, os.path.join(os.path.dirname(os.path.abspath(__file__)), "..", "tools"))
from vlib import *

OVERLAY = {"p2p/net/swarm/zz_c05_verif_test.go": "harness/overlay/swarm/c05_verif_test.go",
           "p2p/net/swarm/zz_c05w_verif_test.go": "harness/overlay/swarm/c05w_verif_test.go",
           "p2p/net/swarm/zz_c05r_verif_test.go": "harness/overlay/swarm/c05r_verif_test.go",
           "p2p/net/swarm/zz_c05s_verif_test.go": "harness/overlay/swarm/c05s_verif_test.go",
           "p2p/net/swarm/zz_c05d_verif_test.go": "harness/overlay/swarm/c05d_verif_test.go"}
PKG = "p2p/net/swarm"


def consts(ctx):
    ctx.gen_consts_go(PKG, ["ConcurrentFdDials", "DefaultPerPeerRateLimit", "PublicTCPDelay", "PrivateTCPDelay",
                            "PublicQUICDelay", "PrivateQUICDelay", "RelayDelay", "PublicOtherDelay", "PrivateOtherDelay"])


def harness(ctx, casefile, tier, seed):
    return ctx.go_test(PKG, "TestVerifC05$", OVERLAY,
                       env={"VERIF_OUT": casefile, "VERIF_TIER": tier, "VERIF_SEED": str(seed)}, timeout=3000)


def warm(ctx):
    rc, out = ctx.go_test(PKG, "TestVerifC05Nothing$", OVERLAY, timeout=1500)
    if rc != 0:
        ctx.obligations.append(("harness:compile", False, out[-1500:]))


def replay_harness(ctx, casefile, toks):
    return ctx.go_test(PKG, "TestVerifC05Replay$", OVERLAY,
                       env={"VERIF_OUT": casefile, "VERIF_REPLAY_CASE": " ".join(map(str, toks))}, timeout=600)


# ---- decoding of limiter cases (mirror of coq/c05/SpecLimiter.v) ----------------
def lim_steps(t):
    """yield (stimulus tuple, observation dict) for a limiter case"""
    i = 3
    n = len(t)

    def obs(i):
        fd, nwfd, nsp, na = t[i:i + 4]; i += 4
        act = [(t[i + 2 * a], t[i + 2 * a + 1]) for a in range(na)]; i += 2 * na
        nw = t[i]; i += 1
        wp = [(t[i + 2 * a], t[i + 2 * a + 1]) for a in range(nw)]; i += 2 * nw
        nd = t[i]; i += 1
        dl = [tuple(t[i + 4 * a:i + 4 * a + 4]) for a in range(nd)]; i += 4 * nd
        return i, {"fdConsuming": fd, "waitingOnFd": nwfd, "activePerPeer": act, "waitingOnPeer": wp, "inflight": dl}
    while i < n:
        k = t[i]
        if k == 1:
            st = ("add", t[i + 1], t[i + 2], t[i + 3], t[i + 4]); i += 5
        elif k == 2:
            st = ("cancel", t[i + 1]); i += 2
        elif k == 3:
            st = ("clear", t[i + 1]); i += 2
        elif k == 4:
            st = ("return", t[i + 1]); i += 2
        elif k == 5:
            # the result of job jid (dialFunc returned earlier) finds no receiver; its context is cancelled:
            # two trace entries, as in SpecLimiter.decode_ltrace
            jid, g = t[i + 1], t[i + 2]
            i, o1 = obs(i + 3)
            yield ("cancel", g, "while-the-finished-attempt-of-job-%d-is-delivering-its-result-to-nobody" % jid), o1
            i, o2 = obs(i)
            yield ("return", jid, "result-dropped"), o2
            continue
        else:
            return
        i, o = obs(i)
        yield st, o


def w_steps(t):
    """yield (stimulus tuple, observation dict) for a worker case"""
    i, n = 1, len(t)
    while i < n:
        k = t[i]
        if k == 1:
            rid, sim, fdir, ok, cnt = t[i + 1:i + 6]; i += 6
            rk = [(t[i + 2 * a], t[i + 2 * a + 1]) for a in range(cnt)]; i += 2 * cnt
            st = ("request", rid, "sim" if sim else "-", "forcedirect" if fdir else "-", rk if ok else "addrsForDial-error")
        elif k == 2:
            st = ("advance_ns", t[i + 1]); i += 2
        elif k == 3:
            st = ("dial-update", t[i + 1], {0: "fail", 1: "conn", 2: "canceled", 3: "handshake-progress", 4: "conn-refused-by-addConn"}.get(t[i + 2], t[i + 2]), t[i + 3]); i += 4
        elif k == 4:
            st = ("backoff", t[i + 1]); i += 2
        elif k == 5:
            st = ("close",); i += 1
        elif k == 6:
            st = ("inbound-conn", "direct" if t[i + 1] else "relayed"); i += 2
        else:
            return
        nr = t[i]; i += 1
        rs = [(t[i + 2 * a], "conn" if t[i + 2 * a + 1] == 0 else "err") for a in range(nr)]; i += 2 * nr
        nd = t[i]; i += 1
        ds = t[i:i + nd]; i += nd
        conn = t[i]; nt = t[i + 1]; i += 2
        ts = [tuple(t[i + 3 * a:i + 3 * a + 3]) for a in range(nt)]; i += 3 * nt
        np_ = t[i]; i += 1
        ps = [(t[i + 2 * a], t[i + 2 * a + 1]) for a in range(np_)]; i += 2 * np_
        q = t[i]; i += 1
        yield st, {"responses": rs, "dials": ds, "connected": conn, "tracked": ts, "pending": ps, "quiet": q}


def d_steps(t):
    nfd = t[3]
    i, n = 4 + nfd, len(t)
    while i < n:
        k = t[i]
        if k == 1:
            cnt = t[i + 5]
            rk = [(t[i + 6 + 2 * a], t[i + 7 + 2 * a]) for a in range(cnt)]
            st = ("DialPeer", t[i + 1], "sim" if t[i + 2] else "-", "forcedirect" if t[i + 3] else "-",
                  rk if t[i + 4] else "addrsForDial-error"); i += 6 + 2 * cnt
        elif k == 2:
            st = ("advance_ns", t[i + 1]); i += 2
        elif k == 3:
            st = ("transport-dial-ends", t[i + 1], "conn" if t[i + 2] == 1 else "fail"); i += 4
        elif k == 4:
            st = ("cancel-caller", t[i + 1]); i += 2
        elif k == 5:
            st = ("backoff", t[i + 1]) if t[i + 1] >= 0 else ("backoff-of-the-peer-expires",); i += 2
        elif k == 6:
            st = ("gater-parks-next-request-handling",); i += 1
        elif k == 7:
            st = ("gater-releases",); i += 1
        elif k == 8:
            st = ("deadline-passes-for-caller", t[i + 1], "dial_timeout_ns=%d" % t[i + 2],
                  ("caller_ctx_deadline_ns_after_call=%d" % t[i + 3]) if t[i + 3] >= 0 else "caller_ctx_without_deadline"); i += 4
        else:
            return
        nr = t[i]; i += 1
        rs = [(t[i + 2 * a], {0: "conn", 1: "err", 2: "ctx-err", 3: "WRONG-PEER"}.get(t[i + 2 * a + 1])) for a in range(nr)]; i += 2 * nr
        ns = t[i]; ss = t[i + 1:i + 1 + ns]; i += 1 + ns
        ne = t[i]; es = t[i + 1:i + 1 + ne]; i += 1 + ne
        f = t[i:i + 7]; i += 7
        yield st, {"returns": rs, "dial_starts": ss, "dial_ends": es, "inflightFD": f[0], "inflight": f[1],
                   "fdConsuming": f[2], "activePerPeer": f[3], "activeDials": f[4], "goroutines_left": f[5], "waiting": f[6]}


def canon_d(t, upto):
    out = []
    for idx, (st, _) in enumerate(d_steps(t)):
        if idx > upto:
            break
        k = st[0]
        if k == "DialPeer":
            out.append("call%d.%s.%s.%s" % (st[1], st[2], st[3], "".join("a%d:%d" % x for x in st[4]) if isinstance(st[4], list) else "E"))
        elif k == "advance_ns":
            out.append("t%d" % st[1])
        elif k == "transport-dial-ends":
            out.append("end%d.%s" % (st[1], st[2]))
        elif k == "cancel-caller":
            out.append("cancel%d" % st[1])
        elif k == "deadline-passes-for-caller":
            out.append("deadline%d.%s.%s" % (st[1], st[2], st[3]))
        elif k == "backoff":
            out.append("bo%d" % st[1])
        elif k.startswith("gater-parks"):
            out.append("park")
        elif k.startswith("backoff-of-the-peer"):
            out.append("boexp")
        else:
            out.append("release")
    return " ".join(out)


def a_case(t):
    """decode an addrsForDial case (wire kind 6, SpecAddrs.v)"""
    fdir, n = t[1], t[2]
    i = 3
    tbl = []
    for _ in range(n):
        idn, cls, grp, tpt, unspec, proxy = t[i:i + 6]; i += 6
        tbl.append({"addr": idn, "class": {0: "other", 1: "tcp", 2: "ws", 3: "quic-v1", 4: "webtransport"}.get(cls, cls),
                    "ip:port": grp, "swarm_has_transport": bool(tpt), "unspecified_ip": bool(unspec), "relayed": bool(proxy)})
    m = t[i]; i += 1
    ents = []
    for _ in range(m):
        k = t[i]; i += 1
        ents.append([("%d/p2p/<peer>" % t[i + 2 * a]) if t[i + 2 * a + 1] else str(t[i + 2 * a]) for a in range(k)]); i += 2 * k
    no = t[i]; out = t[i + 1:i + 1 + no]; i += 1 + no
    ne = t[i]; errs = t[i + 1:i + 1 + ne]
    return {"kind": "Swarm.addrsForDial", "forceDirect": bool(fdir), "addresses": tbl, "peerstore_entries_resolve_to": ents,
            "returned_to_dial": out, "reported_with_error": errs}


def describe(t):
    if t and t[0] == 6:
        try:
            return a_case(t)
        except Exception as e:
            return {"raw": t[:200], "decode_error": str(e)}
    if t and t[0] == 5:
        try:
            return {"kind": "Swarm.DialPeer", "fdLimit": t[1], "perPeerLimit": t[2],
                    "steps": ["%s -> %s" % (st, ob) for st, ob in d_steps(t)][:80]}
        except Exception as e:
            return {"raw": t[:120], "decode_error": str(e)}
    if t and t[0] == 3:
        return {"kind": "dialSync", "raw(see SpecSync.v)": t[:200]}
    return describe2(t)


def describe2(t):
    try:
        if t and t[0] == 2:
            steps = []
            for st, ob in w_steps(t):
                steps.append("%s -> responses=%s dials=%s pending=%s tracked(addr,dialed,st)=%s quiet=%d" % (
                    st, ob["responses"], ob["dials"], ob["pending"], ob["tracked"], ob["quiet"]))
            return {"kind": "worker", "steps": steps[:80]}
    except Exception as e:
        return {"raw": t[:120], "decode_error": str(e)}
    if t and t[0] == 4:
        n = t[1]
        recs = [dict(zip(("id", "relay", "private", "ip4", "ip6", "quic", "tcp", "score"), t[2 + 8 * i:10 + 8 * i])) for i in range(n)]
        o = 2 + 8 * n
        outs = [(t[o + 1 + 2 * i], t[o + 2 + 2 * i]) for i in range(t[o])] if o < len(t) else []
        return {"kind": "ranker", "input": recs, "output(id,delay_ns)": outs}
    return describe_lim(t)


def describe_lim(t):
    try:
        if t and t[0] == 1:
            steps = []
            for st, ob in lim_steps(t):
                steps.append("%s -> fd=%d wfd=%d act=%s wp=%s inflight=%s" % (
                    " ".join(map(str, st)), ob["fdConsuming"], ob["waitingOnFd"], ob["activePerPeer"],
                    ob["waitingOnPeer"], [d[0] for d in ob["inflight"]]))
            return {"kind": "limiter", "fdLimit": t[1], "perPeerLimit": t[2], "steps": steps[:80]}
    except Exception as e:  # malformed
        return {"raw": t[:120], "decode_error": str(e)}
    return {"raw": t[:120]}


def nontrivial(line):
    # limiter: some job had to wait for a token at some observation
    t = [int(x) for x in line.split()]
    try:
        if t[0] == 1:
            return any(ob["waitingOnFd"] > 0 or ob["waitingOnPeer"] for _, ob in lim_steps(t))
    except Exception:
        return False
    if t and t[0] == 6:
        # addrsForDial: at least two addresses, and some address is filtered out or reported
        try:
            c = a_case(t)
            return len(c["addresses"]) >= 2 and (len(c["returned_to_dial"]) < len(c["addresses"]) or bool(c["reported_with_error"]))
        except Exception:
            return False
    if t and t[0] == 5:
        # DialPeer: at least two callers were inside at once and a transport dial started
        try:
            return any(ob["waiting"] >= 2 for _, ob in d_steps(t)) and any(ob["dial_starts"] for _, ob in d_steps(t))
        except Exception:
            return False
    if t and t[0] == 3:
        # dialSync: some caller left (cancelled) while another one was still waiting
        return b" 2 " in line
    if t and t[0] == 4:
        # ranker: at least three addresses, both IP versions present
        n = t[1]
        recs = [t[2 + 8 * i:10 + 8 * i] for i in range(n)]
        return n >= 3 and any(r[3] for r in recs) and any(r[4] for r in recs)
    try:
        if t[0] == 2:
            # worker: a request had to wait (was pending) and some dial was started
            return any(ob["pending"] for _, ob in w_steps(t)) and any(ob["dials"] for _, ob in w_steps(t))
    except Exception:
        return False
    return False


def canon_w(t, upto):
    out = []
    for idx, (st, _) in enumerate(w_steps(t)):
        if idx > upto:
            break
        if st[0] == "request":
            out.append("q%d.%s.%s.%s" % (st[1], st[2], st[3], "".join("a%d:%d" % x for x in st[4]) if isinstance(st[4], list) else "E"))
        elif st[0] == "advance_ns":
            out.append("t%d" % st[1])
        elif st[0] == "dial-update":
            out.append("u%d.%s" % (st[1], st[2]))
        elif st[0] == "backoff":
            out.append("b%d" % st[1])
        elif st[0] == "close":
            out.append("x")
        else:
            out.append("i.%s" % st[1])
    return " ".join(out)


def canon_lim(t, upto):
    """canonical form of the stimuli up to step `upto`: ids renamed in order of first use"""
    ren = {"j": {}, "p": {}, "g": {}}

    def r(kind, v):
        m = ren[kind]
        if v not in m:
            m[v] = len(m) + 1
        return m[v]
    out = []
    for idx, (st, _) in enumerate(lim_steps(t)):
        if idx > upto:
            break
        if st[0] == "add":
            out.append("a%d.p%d.%s.g%d" % (r("j", st[1]), r("p", st[2]), "fd" if st[3] else "nofd", r("g", st[4])))
        elif st[0] == "cancel":
            out.append("c.g%d%s" % (r("g", st[1]), ".held" if len(st) > 2 else ""))
        elif st[0] == "clear":
            out.append("x.p%d" % r("p", st[1]))
        else:
            out.append("r%d" % r("j", st[1]))
    return " ".join(out)


DCLAUSE = {1: "return-not-exactly-once/wrong-peer/unjustified-conn", 2: "caller-not-released-when-its-context-was-cancelled-or-its-deadline-or-dial-timeout-passed", 3: "address-handed-to-transport-twice",
           4: "caps", 5: "cancel-of-one-caller-ended-shared-dials", 6: "residue-after-all-returned", 7: "caller-count",
           8: "caller-never-returned", 9: "caller-waits-with-no-dial-in-flight(eligible-address-never-attempted)",
           10: "address-list-handed-to-worker-names-an-address-twice(modulo-/p2p-suffix)",
           11: "call-returned-an-error-while-a-candidate-address-had-neither-failed-nor-been-refused",
           12: "eligible-address(not-in-back-off-since-the-caller-called)-never-attempted-for-a-waiting-caller"}
ACLAUSE = {1: "address-returned-twice", 2: "returned-address-should-have-been-filtered",
           3: "dialable-address-silently-discarded", 4: "addresses-reported-with-error-are-not-those-without-transport"}
WCLAUSE = {1: "request-answered-twice", 2: "address-handed-to-transport-twice", 3: "response-not-justified",
           4: "request-unanswered-at-quiescence", 5: "eligible-address-not-attempted"}
CLAUSE = {1: "caps", 2: "residue", 3: "live-job-not-attempted", 4: "dial-invoked-more-than-once"}


def key(tag, toks, d):
    # failing clause + component + limits + canonical stimuli up to the failing step
    step = d[1] if len(d) > 1 else 0
    clause = CLAUSE.get(d[2], str(d[2])) if len(d) > 2 else "?"
    if toks and toks[0] == 1:
        return "C05:limiter:%s:fd=%d:pp=%d:%s" % (clause, toks[1], toks[2], canon_lim(toks, step))
    if toks and toks[0] == 2:
        return "C05:worker:%s:%s" % (WCLAUSE.get(d[2], str(d[2])) if len(d) > 2 else "?", canon_w(toks, step))
    if toks and toks[0] == 4:
        return "C05:ranker:%s:%s" % (d, " ".join(map(str, toks[:120])))
    if toks and toks[0] == 5:
        return "C05:dialpeer:%s:fd=%d:pp=%d:%s" % (DCLAUSE.get(d[2], str(d[2])) if len(d) > 2 else "?", toks[1], toks[2],
                                                   canon_d(toks, step))
    if toks and toks[0] == 3:
        return "C05:sync:%s:%s" % (d, " ".join(map(str, toks[:160])))
    if toks and toks[0] == 6:
        return "C05:addrsForDial:%s:%s" % (ACLAUSE.get(d[2], str(d[2])) if len(d) > 2 else d, " ".join(map(str, toks[:200])))
    return "C05:%s:%s" % (toks[:1], d)


def what(tag, toks, d):
    step = d[1] if len(d) > 1 else "?"
    kind = toks[0] if toks else 0
    clause = (WCLAUSE if kind == 2 else CLAUSE).get(d[2], str(d[2])) if len(d) > 2 else "?"
    comp = {1: "dial limiter", 2: "dial worker", 3: "dialSync", 4: "DefaultDialRanker", 5: "Swarm.DialPeer", 6: "Swarm.addrsForDial"}.get(kind, "?")
    if kind == 6:
        clause = ACLAUSE.get(d[2] if len(d) > 2 else 0, "?")
    if kind == 5:
        clause = DCLAUSE.get(d[2] if len(d) > 2 else 0, "?")
    if kind == 3:
        clause = {1: "caller-return-not-exactly-once-or-not-prompt", 2: "refcount/worker/shared-context", 3: "reqch-closed-before-context-cancelled"}.get(d[2] if len(d) > 2 else 0, "?")
    if kind == 4:
        clause = {1: "output-is-not-a-permutation-of-input", 2: "negative-delay"}.get(d[2] if len(d) > 2 else 0, "?")
    return "%s trace violates clause '%s' at step %s (diag %s)" % (comp, clause, step, d)


def _safe(f, default):
    def g(*a):
        try:
            return f(*a)
        except Exception as e:  # a truncated / malformed line must not take the verdict down
            return default(*a, e)
    return g


key = _safe(key, lambda tag, toks, d, e: "C05:undecodable:%s:%s" % (d, " ".join(map(str, (toks or [])[:60]))))
what = _safe(what, lambda tag, toks, d, e: "trace violates the property (diag %s); case not decodable: %s" % (d, e))
describe = _safe(describe, lambda t, e: {"raw": (t or [])[:200], "decode_error": str(e)})


if __name__ == "__main__":
    ctx = Ctx("C05")
    ctx.assumptions = [
        "limiter: the atomic sections are the mutex-protected methods (AddDialJob, finishedDial, clearAllPeerDials) plus the two unlocked points of executeDial (the initial cancelled() test, the return of dialFunc); context cancellation may fall anywhere between them; theorems hold for every interleaving at that granularity. The delivery of a result (select between the send on the response channel and ctx.Done) is part of the LReturn step; a result that finds no receiver keeps executeDial parked without touching the limiter, which the correspondence exercises with hold jobs (unbuffered, undrained response channel): the return of their dialFunc is not recorded, the cancellation of their context is wire stimulus 5 = the model history 'cancel, then return', with one observation taken while the goroutine is parked in the delivery and one after the cancellation, when the attempt has to be gone (residue clause)",
        "limiter: Go int modelled as unbounded Z; logging ignored; a job is (identity, peer, shouldConsumeFd(addr), context id) - shouldConsumeFd itself is evaluated by the real code in the harness",
        "limits: 0 <= fdLimit, perPeerLimit for the caps, 1 <= for the no-residue theorem; the compiled-in ConcurrentFdDials / DefaultPerPeerRateLimit are re-read each run (obligation c05_default_caps_wf)",
        "worker: one event = one iteration of the select in dialWorker.loop; theorems hold for every order of request / timer / dial-update / close events and every environment answer carried by the event (existing connection, ranking, back-off table, addConn verdict, clock). wf_run: request ids fresh, each ranking lists an address once (c05_ranker_is_permutation + ma.Unique), a dial update arrives only for a dial in flight and is never ErrDialBackoff itself",
        "worker liveness is stated at quiescence (queue empty, nothing in flight): that the timer fires and every started dial reports are environment hypotheses; promptness of cancellation in wall-clock terms is not modelled",
        "HEADLINE theorems: c05_limiter_monitor_holds is complete (monitor_lim and once_lim accept every model trace whose AddDialJob identities are distinct). c05_worker_monitor_holds is complete as well: monitor_w (clauses 1-5, including 3 'response justified') accepts every model trace of well-formed stimuli; the provenance invariant is Proofs_WorkerResp.PV (per pending request, every candidate is still awaited or known to the monitor as failed / ever in back-off; DConn / DErr statuses in trackedDials imply membership in the monitor's succ / failed-or-back-off sets)",
        "dialSync: atomic sections are getActiveDial and the locked tail of Dial; theorems over every interleaving of them (c05_sync_refcount, c05_sync_cancel_before_close, c05_sync_leaving_caller_keeps_shared_dial). Which of 'context cancelled' / 'reqch closed' the worker notices first is the scheduler's choice: the conformance accepts both orders, the monitor rejects only 'closed while the context is not cancelled'. The dialSync monitor itself is not proved over model traces (the only monitor left partial)",
        "composite: ModelComposite.cstep is an LTS over the atomic sections of dialPeer / dialSync.Dial / the worker loop / the limiter (labels CCall, CDeliver, CTimer, CBegin, CRes, CFin, CCancel, CLeave, CExit) that moves the component models only by their own steps; theorems c05_composite_* hold for every schedule (list of labels). Merged sections: the AddDialJob calls of one timer case are part of that step; a worker whose reqch is closed is frozen except for its exit (its further iterations touch only its own dead state, the back-off table and jobs whose context is already cancelled); back-off, existing connections, rankings and the clock are environment answers carried by the labels",
        "composite correspondence: every recorded DialPeer scenario is replayed by the composite model under the harness-level semantics of SpecComposite (one stimulus, then every enabled step until nothing moves). ACCEPTANCE: when the last caller leaves in the same step in which a dial ends, finishedDial races with the cancellation of the shared context, so a queued job that gets a token may or may not reach its transport before it is cancelled; such transient dial starts/ends may be any subset of those the model's schedule produces; everything else must agree exactly",
        "REPAIRED DEFECT (known_findings/C05.json, status fixed, /repo commit e092243): clearAllPeerDials, run by the deferred exit of a worker that returns late, used to delete the live jobs a newer active dial for the same peer had queued on the per-peer limit. The model transcribes the repaired code (only jobs whose context is done are dropped); c05_composite_no_lost_job now holds for every schedule; the old code is kept as clear_peer_old for the non-vacuity example; the harness scenario c05DialPeerStaleExit (old worker parked in the connection gater) is a fixed regression case on which monitor clause 9 must hold",
        "HEADLINE (composite monitor): c05_composite_monitor_accepts proves that the DialPeer monitor (clauses 1-7 and 9) accepts every trace of the composite model under the harness-level semantics, for every sequence of stimuli that satisfies SpecDialPeer.wf_stims_b (fresh caller ids, repetition-free rankings with delays in [0, 2 s), non-negative clock advances; the driver evaluates the same boolean on every recorded case and rejects the case otherwise) and limits >= 1. The harness-level semantics is presented as a relation (Proofs_CompositeH.hstep) whose moves carry the oracle answers the semantics gives them; its drain runs as many rounds as a bound computed from the state (SpecComposite.phi) and c05_composite_drain_quiescent proves that it ends in a state in which nothing can move. Clause 8 (the case ends with every caller returned) is a statement about how the harness ends a case, not about the model. The harness-level semantics lets a cancelled caller take its ctx.Done case first (the harness never has a response pending at that point); dial results of kind progress (TCP connection established, upgrade pending) are not produced by the DialPeer harness and are excluded from the composite headline (the worker-level theorems cover them). Concurrency finer than the listed atomic sections is covered by the correspondence only. Clauses 10 (ranking names an address once), 11 (a call returns an error only when every address of its ranking has failed - a connection to another peer counts as a failure of that address - or been in back-off) and 12 (after 2 s, no worker parked, no limiter cap reached: every address of a waiting caller's ranking has been handed to a transport or has been in back-off since that caller called; the back-off of the peer may expire in mid-case, stimulus 5 -1) are evaluated by monitor_d_case on the implementation's traces only; the model replays the same traces (conformance), and their worker-level counterparts are proved (c05_worker_monitor_holds clause 3, c05_all_eligible_attempted)",
        "ranker: addresses are the tuple of answers of the predicates the ranker evaluates (recorded from the real predicates); sort.Slice is a Section hypothesis (permutes its input), instantiated with stable insertion sort (what sort.Slice runs for <= 12 elements; cases have <= 10 addresses)",
        "addrsForDial: modelled as the pure pipeline ModelAddrs.addrs_pipeline (resolve, strip /p2p, keep each address once, then filterKnownUndialables in the code's order: no transport -> reported; low priority among the DIALABLE ones; unspecified IP; relayed under ForceDirectDial). c05_addrs_pipeline_spec: an address is handed to the worker iff some entry resolves to it, the swarm has a transport for it, and none of the filters legitimately removes it - in particular a /ws (/webtransport) address only if a DIALABLE /tcp (/quic-v1) address of the same ip:port exists; c05_addrs_pipeline_once_and_errors: each once, and exactly the addresses without a transport are reported. ma.Unique (sort + drop equal neighbours) is modelled as a set operation. Tied to the code by wire kind 6: every addrsForDial answer the DialPeer harness obtains (swarms with all or a random subset of the tcp / ws / quic / webtransport fake transports, tcp+ws and quic+webtransport pairs on one ip:port, aliased address forms, scripted resolver) is compared with the pipeline (conformance) and judged by the proved characterisation (monitor). Not in the harness, hence not in the model: dial-to-self, link-local, gater refusals, black-hole detector (disabled). That dialPeer copies the reported addresses into the DialError it returns is not observed",
        "DialPeer timeout / context deadline: a call made with network.WithDialPeerTimeout(dt) on a context with its own deadline has to end at min(call time + dt, deadline) ('... or the caller's context or the dial timeout ended'). In the composite model that instant is the caller's dial context becoming Done (KCancel), so wire stimulus 8 is decoded as KCancel and judged by monitor clause 2 (the caller has returned in that step with the context / deadline error). The harness takes dt and the deadline off the 1 ms grid of every other timer of a case (k ms + 500 us + caller id us), stops the virtual clock 1 ns before the instant, records the 1 ns step across it as stimulus 8 and adds the 1 ns to the next recorded clock advance",
        "black-hole detector and back-off expiry are inputs (BackoffBase is set to 24h in the worker harness so entries do not expire in a case)",
    ]
    standard_flow(ctx, dict(
        consts=consts,
        coq_targets=["c05/Properties.vo", "c05/Extract.vo"],
        props="c05/Properties.v",
        spec_module="c05.Spec",
        harness=harness,
        replay_harness=replay_harness, warm=warm,
        nontrivial=nontrivial,
        rule="limiter: the fixed corpus (witness of the defect repaired by 243a477 in 9 variants) then seeded random histories of "
             "AddDialJob / context cancellation / clearAllPeerDials / release of a parked dialFunc against the real dialLimiter in a "
             "synctest bubble (fdLimit, perPeerLimit 1..3 mostly; 1-3 peers; TCP, QUIC, relay, WS, WebTransport addresses so that "
             "shouldConsumeFd takes both values; shared contexts); after every stimulus fdConsuming, activePerPeer, both queues and the "
             "dialFunc invocations in progress are compared with the Coq model and judged by the monitor. Every case ends with all "
             "contexts cancelled and everything released. In one case in three a quarter of the jobs have an unbuffered response channel nobody receives from: their dialFunc returns while the context is live (the result is being delivered, tokens held), other stimuli follow, then the context is cancelled (stimulus 5) - plus 6 fixed scenarios of that shape with waiters on both queues. Non-trivial = some job had to wait for a token. "
             "worker: seeded random cases against the real dialWorker on a real Swarm with scripted transports (every Dial parks until told how "
             "to end: fail / conn / context.Canceled / handshake progress / conn refused by addConn) in a synctest bubble with the real clock on "
             "virtual time: 1-6 requests with different address subsets, scripted ranking delays, simultaneous-connect and force-direct flags, "
             "1-7 addresses over TCP/QUIC/WS/WebTransport/relay/undialable/unspecified, back-off entries, inbound connections, close; after every "
             "stimulus the responses, transport dials, trackedDials, pendingRequests and connected flag are compared with the model and judged by "
             "the monitor; every case is drained to quiescence. Non-trivial = a request was pending and a dial started. "
             "dialSync: seeded random cases against the real dialSync with a scripted worker function: up to 6 concurrent callers on 1-2 peers with "
             "independent contexts, cancel / answer (conn or error) in any order; refCnt, existence of the active dial, workers started/stopped, shared "
             "context state and the returns of every step compared with the model (either cancel/close observation order accepted). Non-trivial = a caller "
             "was cancelled. DialPeer: seeded random cases of whole Swarm.DialPeer (real dialSync + worker + limiter with caps 1-3 / 1-4, scripted transports "
             "that hang until ended or cancelled): 1-7 addresses of mixed classes, back-off left before, up to 6 concurrent callers with independent "
             "cancellation and flags, virtual time; in one case in three half of the calls carry a DialPeer timeout (40 ms .. 3 s) and a context deadline of their own (none / earlier / later / equal), and the clock advances stop at every instant at which such a call has to end (stimulus 8); half of the addresses are known to the peerstore literally, the others in a random set of forms that all "
             "mean the same transport address (literal, literal with a trailing /p2p/<peer>, a /dns4 name, and records of a /dnsaddr name giving the address, the "
             "address with /p2p/<peer>, or its /dns4 form; scripted resolver), with several DialPeer calls per case after the first one wrote the resolved addresses "
             "back to the peerstore; addresses are numbered after stripping /p2p, so that the monitor clauses 3 and 10 compare them as the code's de-duplication intends; "
             "one case in three runs on a swarm whose direct fake transport claims only a random subset of tcp / ws / quic-v1 / webtransport, and an address may be followed by its fallback on the same ip:port (/ws after /tcp, /webtransport after /quic-v1); "
             "every addrsForDial answer obtained on the way is a case of its own (kind 6) compared with ModelAddrs.addrs_pipeline and judged by SpecAddrs.should_dial; "
             "a scripted dial may also end with a connection authenticated as ANOTHER peer (recorded as a failure of that address), the back-off table of the peer may expire while callers wait, relays named by DNS over wss / webtransport / tcp (left unresolved: the circuit transport skips resolution; no ip:port, never dominated) are among the address kinds; "
             "plus the fixed scenarios: wrong-peer connection first / last, back-off expiring before a second caller joins, a swarm with only the fallback transports and a peer advertising both on one ip:port, a /dnsaddr peer dialed again while its resolved address is cached, a caller cancelled while blocked sending its request, callers with dial timeout only / deadline later / earlier / equal next to a caller without either while every address hangs, and the regression scenario of the repaired defect (a closed worker parked in the connection gater returns after a new active dial has "
             "queued jobs); every observation replayed by the composite model (SpecComposite) and judged by the monitor. Non-trivial = two callers inside at once and a transport dial started. "
             "ranker: DefaultDialRanker on 0-10 real multiaddrs of 19 kinds, output compared element by element. Non-trivial = >= 3 addresses "
             "with both IP versions. distinct = distinct case lines.",
        describe=describe, key=key, what=what, crosscheck=150,
    ))

#!/usr/bin/env python3
"""C08 — keys, peer IDs and signed envelopes bind identity to content.  See DESIGN.md section 6 (C08)."""
import os, sys
sys.path.insert(0, os.path.join(os.path.dirname(os.path.abspath(__file__)), "..", "tools"))
from vlib import *

OVERLAY = {
    "core/record/zz_c08_export_verif_test.go": "harness/overlay/record/c08_export_verif_test.go",
    "core/record/zz_c08_verif_test.go": "harness/overlay/record/c08_verif_test.go",
    "core/record/zz_c08_rsa8192_verif_test.go": "harness/overlay/record/c08_rsa8192_verif_test.go",
    "core/record/zz_c08_round2_verif_test.go": "harness/overlay/record/c08_round2_verif_test.go",
    "core/record/zz_c08_round2b_verif_test.go": "harness/overlay/record/c08_round2b_verif_test.go",
    "core/record/zz_c08_round3_verif_test.go": "harness/overlay/record/c08_round3_verif_test.go",
    "core/record/zz_c08_round4_verif_test.go": "harness/overlay/record/c08_round4_verif_test.go",
}
PKG = "core/record"


def consts(ctx):
    # maxInlineKeyLength: keys whose marshalled form is at most this long are inlined in the ID
    ctx.gen_consts_go("core/peer", ["maxInlineKeyLength"],
                      exprs={"advancedEnableInlining": "map[bool]int{false: 0, true: 1}[AdvancedEnableInlining]"})
    # RSA key size bounds (MinRsaKeyBits is a variable: 2048 unless LIBP2P_ALLOW_WEAK_RSA_KEYS is set)
    ctx.gen_consts_go("core/crypto", ["maxRsaKeyBits"], exprs={"minRsaKeyBits": "MinRsaKeyBits"})


def harness(ctx, casefile, tier, seed):
    return ctx.go_test(PKG, "TestVerifC08$", OVERLAY,
                       env={"VERIF_OUT": casefile, "VERIF_TIER": tier, "VERIF_SEED": str(seed)}, timeout=2400)


def warm(ctx):
    rc, out = ctx.go_test(PKG, "TestVerifNothing$", OVERLAY, timeout=1500)
    if rc != 0:
        ctx.obligations.append(("harness:compile", False, out[-1500:]))


def replay_harness(ctx, casefile, toks):
    return ctx.go_test(PKG, "TestVerifC08Replay$", OVERLAY,
                       env={"VERIF_OUT": casefile, "VERIF_REPLAY_CASE": " ".join(map(str, toks))}, timeout=600)


KIND = {1: "varint-encode", 2: "varint-decode", 3: "makeUnsigned", 4: "makeUnsigned-colliding-concatenations",
        5: "key/peer-ID forms", 6: "envelope consumption", 7: "signature verification",
        8: "marshalled public key edit", 9: "peer.Decode", 10: "IDFromBytes/ExtractPublicKey",
        11: "non-canonical serialization of a key", 12: "MatchesPublicKey", 13: "RSA key size boundary",
        14: "ExtractPublicKey under AdvancedEnableInlining", 15: "seal, mutate the producer's record, consume the same envelope",
        16: "/p2p address form (IDFromP2PAddr, SplitAddr, AddrInfoFromP2pAddr)", 17: "hand-sealed relay voucher",
        19: "edited private-key blob", 20: "address-book history (ConsumePeerRecord / GetPeerRecord / stored bytes edited)"}
BOOK = {0: "pstoremem", 1: "pstoreds (CacheSize 0)", 2: "pstoreds (with cache)"}
REGION = {0: "none", 1: "protobuf framing", 2: "ed25519 seed", 3: "ed25519 public half", 4: "key data", 5: "truncation",
          6: "extension", 7: "legacy 96-byte form", 8: "legacy form, copies differ",
          9: "std-library key with altered seed imported by KeyPairFromStdKey"}


class Rd:
    def __init__(self, t):
        self.t, self.p = t, 0

    def z(self):
        v = self.t[self.p]
        self.p += 1
        return v

    def b(self):
        n = self.z()
        v = self.t[self.p:self.p + n]
        self.p += n
        return bytes(x & 255 for x in v)


def describe20(r, failing=None):
    """decode a kind-20 history; ops are numbered from 0"""
    d = {"book": BOOK.get(r.z())}
    d["domain"] = r.b().decode("latin1"); d["peer_record_codec_hex"] = r.b().hex()
    keys = []
    for _ in range(r.z()):
        kt = r.z(); r.b(); canon = r.b(); r.b(); goid = r.b()
        keys.append({"type": kt, "marshalled_pubkey_hex": canon.hex()[:80], "id_hex": goid.hex()})
    d["keys"] = keys
    seals = []
    for _ in range(r.z()):
        ki = r.z()
        seals.append({"signer": ki, "domain": r.b().decode("latin1"), "payload_type_hex": r.b().hex(),
                      "payload_hex": r.b().hex(), "signature_hex": r.b().hex()[:40]})
    d["sealed"] = seals
    for _ in range(r.z()):
        r.z(); r.b(); r.z()
    ops = []
    RES = {0: "rejected: unmarshal", 1: "ACCEPTED", 2: "rejected: signature/domain", 3: "validated, payload not a record", 4: "other"}
    for i in range(r.z()):
        tag = r.z()
        if tag == 1:
            o = {"op": "ConsumeEnvelope+ConsumePeerRecord", "envelope_hex": r.b().hex(), "result": RES.get(r.z())}
            o["accepted"] = {"signer_hex": r.b().hex()[:80], "payload_type_hex": r.b().hex(), "payload_hex": r.b().hex(), "signer_id_hex": r.b().hex()}
            o["peerstore"] = {0: "not attempted", 1: "STORED", 2: "rejected: id mismatch", 3: "refused (older seq)"}.get(r.z())
            o["record_peer_id_hex"] = r.b().hex()
        elif tag == 2:
            o = {"op": "GetPeerRecord", "peer_hex": r.b().hex(), "returned": r.z()}
            o["record"] = {"signer_hex": r.b().hex()[:80], "payload_type_hex": r.b().hex(), "payload_hex": r.b().hex(), "signer_id_hex": r.b().hex()}
            o["returned_envelope_validates"] = r.z()
        elif tag == 3:
            o = {"op": "datastore entry: CertifiedRecord.Raw overwritten", "peer_hex": r.b().hex(), "raw_hex": r.b().hex()}
        else:
            o = {"op": "restart (new address book over the same datastore)"}
        o["n"] = i
        ops.append(o)
    d["ops"] = ops
    return d


def first_bad_op20(toks):
    """index and decoded form of the first op of a kind-20 history whose observation no seal event covers"""
    try:
        d = describe20(Rd(toks[1:]))
        sealed = {(d["keys"][s["signer"]]["id_hex"], s["domain"], s["payload_type_hex"], s["payload_hex"]) for s in d["sealed"]}
        for o in d["ops"]:
            if o["op"].startswith("Consume") and o["result"] == "ACCEPTED":
                a = o["accepted"]
                if (a["signer_id_hex"], d["domain"], a["payload_type_hex"], a["payload_hex"]) not in sealed:
                    return d, o
                if o["peerstore"] == "STORED" and o["record_peer_id_hex"] != a["signer_id_hex"]:
                    return d, o
            if o["op"] == "GetPeerRecord" and o["returned"] == 1:
                a = o["record"]
                if (a["signer_id_hex"], d["domain"], a["payload_type_hex"], a["payload_hex"]) not in sealed:
                    return d, o
    except Exception:
        pass
    return None, None


def describe(t):
    try:
        k = t[0]
        r = Rd(t[1:])
        d = {"kind": KIND.get(k, k)}
        if k == 6:
            d["mode"] = {0: "ConsumeEnvelope", 1: "ConsumeTypedEnvelope", 2: "ConsumeEnvelope+pstoremem.ConsumePeerRecord",
                         3: "ConsumeEnvelope+pstoreds.ConsumePeerRecord"}.get(r.z())
            keys = []
            for _ in range(r.z()):
                kt = r.z(); r.b(); canon = r.b(); r.b(); goid = r.b()
                keys.append({"type": kt, "marshalled_pubkey_hex": canon.hex()[:80], "id_hex": goid.hex()})
            d["keys"] = keys
            seals = []
            for _ in range(r.z()):
                ki = r.z()
                seals.append({"signer": ki, "domain": r.b().decode("latin1"), "payload_type_hex": r.b().hex(),
                              "payload_hex": r.b().hex()[:120], "signature_hex": r.b().hex()[:40]})
            d["sealed"] = seals
            d["envelope_hex"] = r.b().hex()
            d["domain_asked"] = r.b().decode("latin1")
            d["proto"] = {"ok": r.z(), "key_type": r.z(), "key_data_hex": r.b().hex()[:60], "key_decoder": r.z()}
            d["UnmarshalEnvelope"] = {"ok": r.z(), "payload_type_hex": r.b().hex(), "payload_hex": r.b().hex()[:120]}
            res = r.z()
            d["result"] = {0: "rejected: unmarshal", 1: "ACCEPTED", 2: "rejected: signature/domain", 3: "validated, payload not a record", 4: "other"}.get(res)
            d["accepted"] = {"signer_hex": r.b().hex()[:80], "payload_type_hex": r.b().hex(), "payload_hex": r.b().hex()[:120], "signer_id_hex": r.b().hex()}
            d["peerstore"] = {0: "not attempted", 1: "ACCEPTED", 2: "rejected: id mismatch", 3: "rejected"}.get(r.z())
            d["record_peer_id_hex"] = r.b().hex()
        elif k in (3, 4):
            d["domain_hex"], d["type_hex"], d["payload_hex"], d["unsigned_hex"] = r.b().hex(), r.b().hex(), r.b().hex()[:80], r.b().hex()[:160]
            if k == 4:
                d["domain2_hex"], d["type2_hex"], d["payload2_hex"], d["unsigned2_hex"] = r.b().hex(), r.b().hex(), r.b().hex()[:80], r.b().hex()[:160]
        elif k == 5:
            d["key_type"] = r.z(); r.b()
            d["marshalled_hex"] = r.b().hex()[:120]; r.b()
            d["id_hex"] = r.b().hex(); d["b58"] = r.b().decode("latin1"); d["cid"] = r.b().decode("latin1")
            d["flags(unmarshal-eq,priv-rt,id-deterministic,decode-b58,decode-cid,extract,matches,binary/text/json-rt)"] = t[r.p + 1:]
        elif k == 7:
            d["same_key"] = r.z(); d["msg_hex"] = r.b().hex()[:80]; d["sig_hex"] = r.b().hex()[:40]
            d["msg2_hex"] = r.b().hex()[:80]; d["sig2_hex"] = r.b().hex()[:40]; d["verified"] = r.z()
        elif k == 11:
            d["key_type"] = r.z(); r.b(); d["canonical_hex"] = r.b().hex()[:120]; d["id_hex"] = r.b().hex()
            d["edited_serialization_hex"] = r.b().hex()[:200]; d["class"] = r.z(); d["equals_original"] = r.z()
            d["remarshalled_hex"] = r.b().hex()[:120]; d["id_of_parsed_hex"] = r.b().hex()
        elif k == 12:
            r.b(); r.b(); d["id_of_key_hex"] = r.b().hex(); d["probe_id_hex"] = r.b().hex(); d["matches"] = r.z()
        elif k == 14:
            d["inlining_when_id_was_made"], d["inlining_when_extracting"] = r.z(), r.z()
            d["marshalled_hex"] = r.b().hex()[:120]; r.b(); d["id_hex"] = r.b().hex()
            d["extract(0=key,1=ErrNoPublicKey,2=error,3=other key)"] = r.z()
        elif k == 15:
            d["api"] = {0: "Envelope.Record()", 1: "Envelope.TypedRecord(fresh)", 2: "pstoremem.ConsumePeerRecord", 3: "pstoreds.ConsumePeerRecord",
                        4: "ConsumeTypedEnvelope twice into ONE destination (this is the second record)", 5: "TypedRecord twice into ONE destination (this is the second record)"}.get(r.z())
            d["peer_record"] = r.z(); d["signer_id_hex"] = r.b().hex(); d["sealed_payload_hex"] = r.b().hex()[:160]
            d["sealed_peer_id_hex"] = r.b().hex(); d["sealed_seq+addrs_hex"] = r.b().hex()[:120]
            d["handed_out"] = {"ok": r.z(), "peer_id_hex": r.b().hex(), "seq+addrs_hex": r.b().hex()[:120]}
            d["peerstore"] = {"result(1=accepted)": r.z(), "stored_under_hex": r.b().hex(), "stored_addrs_hex": r.b().hex()[:120], "sealed_addrs_hex": r.b().hex()[:120]}
        elif k == 16:
            comps = []
            for _ in range(r.z()):
                comps.append({"protocol_code": r.z(), "value_hex": r.b().hex()[:80]})
            d["components"] = comps
            d["IDFromP2PAddr"] = {"ok": r.z(), "id_hex": r.b().hex()}
            d["SplitAddr"] = {"ok": r.z(), "id_hex": r.b().hex()}
            d["AddrInfoFromP2pAddr"] = {"ok": r.z(), "id_hex": r.b().hex()}
        elif k == 17:
            d["api"] = {0: "ConsumeEnvelope", 1: "ConsumeTypedEnvelope"}.get(r.z()); d["destination_reused"] = r.z()
            d["payload_hex"] = r.b().hex(); d["result(1=accepted)"] = r.z()
            d["voucher"] = {"relay_hex": r.b().hex(), "peer_hex": r.b().hex(), "expiration": r.z() * 2 ** 32 + r.z()}
        elif k == 19:
            d["key_type"] = r.z(); d["edit_region"] = REGION.get(r.z())
            d["original_blob_hex"] = r.b().hex()[:160]; d["edited_blob_hex"] = r.b().hex()[:160]; d["public_key_of_seed_hex"] = r.b().hex()
            d["class(3=accepted)"], d["equal_any"], d["equal_all"], d["remarshals_to_original"], d["signs_for_own_public_key"], d["signs_for_original_public_key"] = t[r.p + 1:r.p + 7]
        elif k == 20:
            d.update(describe20(r))
        elif k == 13:
            d["modulus_bits"], d["private"], d["class(3=accepted)"], d["roundtrip"] = t[1:5]
        elif k in (9,):
            d["text"] = r.b().decode("latin1"); d["accepted"] = r.z(); d["id_hex"] = r.b().hex()
        else:
            d["raw"] = t[:120]
        return d
    except Exception as ex:  # a malformed line: show it raw
        return {"raw": t[:200], "describe_error": str(ex)}


def nontrivial(line):
    # non-trivial: an envelope / signature / key edit case, or a colliding-concatenation pair
    k = line.split(b" ", 1)[0]
    return k in (b"4", b"6", b"7", b"8", b"11", b"12", b"13", b"14", b"15", b"16", b"17", b"19", b"20")


def key(tag, toks, d):
    # identity of a failure: kind + failing clause + the API/mode + what was accepted where nothing
    # should have been (never the property id alone; key bytes are fresh per run, so they are left out)
    k = toks[0]
    clause = d[1] if len(d) > 1 else 0
    if k == 6:
        desc = describe(toks)
        return "C08:envelope:clause%s:mode=%s:result=%s:peerstore=%s:asked=%s" % (
            clause, toks[1], desc.get("result"), desc.get("peerstore"), desc.get("domain_asked"))
    if k == 11:   # key bytes are fresh per run: identify by key type and outcome
        return "C08:%s:clause%s:keytype=%s" % (KIND[k], clause, toks[1])
    if k == 12:
        return "C08:%s:clause%s:matches=%s" % (KIND[k], clause, toks[-1])
    if k == 14:
        return "C08:%s:clause%s:made=%s:extracting=%s:extract=%s" % (KIND[k], clause, toks[1], toks[2], toks[-1])
    if k == 15:
        return "C08:%s:clause%s:api=%s:peer_record=%s" % (KIND[k], clause, toks[1], toks[2])
    if k == 16:
        return "C08:%s:clause%s:protocols=%s" % (KIND[k], clause, "/".join(str(c["protocol_code"]) for c in describe(toks).get("components", [])))
    if k == 17:
        return "C08:%s:clause%s:api=%s:reused=%s:payload=%s" % (KIND[k], clause, toks[1], toks[2], describe(toks).get("payload_hex", "")[:16])
    if k == 19:   # clause + key type + where the edit hit (the blobs are fresh per run)
        return "C08:%s:clause%s:keytype=%s:region=%s" % (KIND[k], clause, toks[1], REGION.get(toks[2], toks[2]))
    if k == 20:   # clause + book + what was done to the store before the failing op (bytes are fresh per run)
        d20, o = first_bad_op20(toks)
        before = ""
        if d20 and o:
            prev = [x["op"].split(" ")[0].split(":")[0] for x in d20["ops"][:o["n"]]]
            before = "edited" if "datastore" in prev else "api-only"
            if "restart" in prev:
                before += "+restart"
        return "C08:address-book:clause%s:book=%s:op=%s:store=%s" % (clause, toks[1], (o or {}).get("op", "?").split(" ")[0], before)
    if k == 13:
        return "C08:%s:clause%s:bits=%s:private=%s:class=%s:roundtrip=%s" % ((KIND[k], clause) + tuple(toks[1:5]))
    return "C08:%s:clause%s:%s" % (KIND.get(k, k), clause, " ".join(map(str, toks[1:40])))


def what(tag, toks, d):
    k = toks[0]
    clause = d[1] if len(d) > 1 else "?"
    msg = {
        (6, 1): "an envelope was ACCEPTED although no seal event has the accepted (signer, domain asked, payload type, payload)",
        (6, 2): "a peerstore accepted a signed peer record whose peer ID is not the ID of the signing key",
        (7, 71): "a signature verified under a key or for a message other than the signed one",
        (7, 72): "an untouched (key, message, signature) did not verify",
        (3, 31): "makeUnsigned output does not read back as the (domain, type, payload) it was built from",
        (3, 32): "makeUnsigned output is not three length-prefixed fields",
        (4, 41): "two different (domain, type, payload) triples have the same signed pre-image",
        (8, 81): "an accepted public key does not survive Marshal/Unmarshal",
        (11, 111): "a key equal to the original (parsed from another serialization) has a DIFFERENT peer ID",
        (11, 112): "a key equal to the original (parsed from another serialization) marshals to different bytes",
        (12, 121): "MatchesPublicKey disagrees with 'the ID is IDFromPublicKey(pk)' (an alias ID matched, or the real ID did not)",
        (14, 141): "ExtractPublicKey returned a different key",
        (14, 142): "the key is not recoverable from an ID that embeds it (identity multihash)",
        (15, 151): "the envelope handed out a record other than the decoding of the payload it was sealed with",
        (15, 152): "a peerstore accepted, from a locally sealed envelope, a record that is not the sealed one / not under the signer's ID",
        (16, 161): "IDFromP2PAddr, SplitAddr and AddrInfoFromP2pAddr disagree on whom the address names",
        (16, 162): "the address does not read back as its last /p2p component (or names somebody although it does not end in /p2p)",
        (17, 171): "an accepted relay voucher holds fields other than those of the sealed payload",
        (17, 172): "a payload that is not a voucher (relay or peer missing / not a peer ID) was accepted as one",
        (19, 190): "MarshalPrivateKey then UnmarshalPrivateKey did not yield an equal key",
        (19, 191): "an edited private-key blob unmarshals to (or an altered key imports as) a key reported EQUAL to the original although what it signs does not verify under the original public key",
        (19, 192): "an edited private-key blob unmarshals to a private key whose signatures do not verify under its own GetPublic()",
        (13, 131): "an RSA key of a size that can be generated does not unmarshal / round-trip",
        (20, 201): "ConsumeEnvelope (peer-record domain) ACCEPTED an envelope although no seal event has the accepted (signer, domain, payload type, payload)",
        (20, 202): "a peerstore stored a signed peer record whose peer ID is not the ID of the signing key",
        (20, 203): "GetPeerRecord handed out, as a peer's signed record, an envelope whose (signer, peer-record domain, payload type, payload) nobody sealed",
    }.get((k, clause))
    if k == 20:
        d20, o = first_bad_op20(toks)
        if o:
            prev = [x for x in d20["ops"][:o["n"]] if x["op"].startswith("datastore")]
            msg = "%s [%s, op #%d %s%s%s]" % (msg, d20["book"], o["n"], o["op"],
                                            (": payload " + o["record"]["payload_hex"][:100] + (", envelope re-validates: %s" % o["returned_envelope_validates"])) if "record" in o else "",
                                            ("; the stored envelope bytes had been overwritten before (op #%d)" % prev[-1]["n"]) if prev else "")
    if k == 15 and len(toks) > 1 and toks[1] >= 4 and clause == 151:
        msg = "two sealed records were consumed into ONE destination value: it does not hold exactly the second record's sealed content (stale fields of the first survive)"
    if msg is None and k == 5:
        msg = "key / peer ID round trip failed (flag %s: 1 unmarshal, 2 private key, 3 determinism, 4 base58, 5 CID, 6/7 ExtractPublicKey, 8 MatchesPublicKey, 9 binary/text/JSON)" % clause
    return "%s: %s (diag %s)" % (KIND.get(k, k), msg or "property clause failed", d)


if __name__ == "__main__":
    ctx = Ctx("C08")
    ctx.assumptions = [
        "SHA-256 is not modelled: the digest of the marshalled key is computed by the harness and passed in; theorems quantify over an arbitrary 32-byte digest function",
        "signature schemes (Ed25519, ECDSA P-256, secp256k1, RSA PKCS1v15) are idealised: a signature value verifies for exactly the (public key, message) it was issued for (Section hypothesis verify_ideal, instantiated by the free term algebra); the real algorithms are exercised by the correspondence only",
        "the key-type specific inner encodings (PKIX/DER for RSA and ECDSA, raw Ed25519, compressed secp256k1) are library code: a parameter of the model (key_dec), answered per case by the real unmarshaller",
        "protobuf: the scanner follows protobuf-go v1.36 (last-wins, merge of embedded messages, unknown fields and groups skipped, required fields, int32 enum truncation); its recursion limit (10000) is not modelled",
        "go-base32 is more lenient than the model's base32 decoder (the model is only compared where it accepts); multibases other than base32-lower are not modelled for CID text",
    ]
    standard_flow(ctx, dict(
        consts=consts,
        coq_targets=["c08/Properties.vo", "c08/Extract.vo"],
        props="c08/Properties.v",
        spec_module="c08.Spec",
        harness=harness,
        replay_harness=replay_harness, warm=warm,
        nontrivial=nontrivial,
        rule="fresh keys of all four types (Ed25519, secp256k1, ECDSA P-256, RSA-2048) every round; for each: all ID forms and round trips; "
             "a verification matrix (own/foreign keys, every byte of the message flipped, every truncation, extensions, every byte of the "
             "signature flipped/truncated, re-signed, signature of another message); every byte flipped / every truncation / protobuf field "
             "edits of the marshalled public key, the ID bytes and ID text; envelopes sealed over raw records, registered records, signed "
             "peer records (through pstoremem and pstoreds ConsumePeerRecord) and relay vouchers, consumed after: every byte flipped, every "
             "truncation (RSA interior sampled 1/7 in the quick tier), extensions, concatenation-preserving shifts of bytes between domain, "
             "payload type and payload, field edits (drop/extend/override/duplicate/reorder/unknown fields/groups/split embedded key/"
             "non-minimal varints/enum truncation), foreign key and foreign signature pairings, re-sealing by a foreign key, wrong domains. "
             "Byte-level functions (uvarint, makeUnsigned, MarshalPublicKey, IDFromPublicKey, base58/CID text, multihash, protobuf scan of "
             "every mutated envelope/key) are compared byte for byte with the Coq model (conform_case); every attempt is judged by the "
             "property monitor (monitor_case). Also: every accepted non-canonical serialization of each key (unknown fields, order, redundant varints, repeated fields) stand-alone and inside envelopes must give an equal key with the same marshalled form and the same ID; alias IDs (identity multihash over such serializations, inline form of hashed keys, hashed form of inlined keys) as MatchesPublicKey probes and as PeerRecord.PeerID through both peerstores; RSA moduli of 1024..16384 bits around MinRsaKeyBits/maxRsaKeyBits plus one embedded real 8192-bit key pair (private/public round trip, all ID forms, a signature). Round 2: sig(x) tried on sha256/sha512/sha512-256/sha1/sha384(x) and sig(H(x)) on x for every key type, messages of exactly 0..65 bytes; IDs made and keys extracted under both values of AdvancedEnableInlining (binary, base58, CID forms); Seal, then the producer edits/reuses the record, then Record()/TypedRecord/both peerstores on the same *Envelope; multiaddrs from component lists incl. relay/circuit forms (IDFromP2PAddr vs SplitAddr vs AddrInfoFromP2pAddr vs the model); relay voucher payloads written by hand (fields removed/empty/repeated/reordered), sealed and consumed into fresh and reused destinations. Corpus (always first): a fixed Ed25519 key whose private blob with an altered seed / public half must be an unmarshal error (defect repaired in a5f52a7). Round 3: every byte flipped / every truncation / extension / legacy forms of marshalled PRIVATE keys of every type (error, or not reported equal unless interchangeable with the original; whatever unmarshals must sign for its own public key); ECDSA keys on P-224/P-384/P-521 (GenerateECDSAKeyPairWithCurve, KeyPairFromStdKey) through the key, signature, digest, ID, alias, envelope and peer-record streams; two different sealed records (PeerRecord, voucher, generic) consumed into ONE destination via ConsumeTypedEnvelope / TypedRecord. Round 4: histories of one address book (pstoremem; pstoreds with CacheSize 0 and 64): signed peer records through ConsumeEnvelope + ConsumePeerRecord + GetPeerRecord; 19 classes of edited envelopes offered through the API; older/newer/replayed sequence numbers; records naming a foreign ID; for pstoreds the stored envelope bytes overwritten in the datastore between write and read (same classes, another peer's sealed record, the signer's other records, empty) with and without a restart and behind the cache; every history replayed by the model's book and judged by the monitor (whatever GetPeerRecord returns has the content of a seal event). Non-trivial = envelope, signature, key-edit, alias, MatchesPublicKey, RSA-size and colliding-concatenation cases.",
        describe=describe, key=key, what=what, crosscheck=60,
    ))

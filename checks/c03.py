#!/usr/bin/env python3
"""C03 — resource manager accounting.  See DESIGN.md section 6 (C03)."""
import os, sys
sys.path.insert(0, os.path.join(os.path.dirname(os.path.abspath(__file__)), "..", "tools"))
from vlib import *

PKG = "p2p/host/resource-manager"
OVERLAY = {PKG + "/zz_c03_verif_test.go": "harness/overlay/rcmgr/c03_verif_test.go"}

KIND = {0: "system", 1: "transient", 2: "allowlistedSystem", 3: "allowlistedTransient", 4: "service", 5: "protocol",
        6: "peer", 7: "service.peer", 8: "protocol.peer", 9: "conn", 10: "stream", 11: "span"}
CLAUSE = {1: "usage!=sum-of-holders", 2: "negative-counter", 3: "over-limit", 4: "over-priority-threshold",
          5: "illegal-answer", 6: "subnet-cap", 7: "unjustified-limit-refusal",
          11: "mid-flight sample: negative counter", 12: "mid-flight sample: counter above the scope's limit",
          13: "mid-flight sample: usage outside [charges held through the sample, + charges of operations in flight]",
          14: "quiescence: usage != sum of the holders charged to the scope"}
OPN = {1: "OpenConnection", 2: "SetPeer", 3: "OpenStream", 4: "SetProtocol", 5: "SetService", 6: "ReserveMemory",
       7: "ReleaseMemory", 8: "BeginSpan", 9: "Done", 10: "gc"}
OPLEN = {1: 10, 2: 3, 3: 4, 4: 3, 5: 3, 6: 6, 7: 5, 8: 5, 9: 4, 10: 1}


def split_case(t):
    """-> (flags, header tokens, [(op tokens, cls, aflag, [entries])])"""
    if not t or t[0] != 3:
        return None
    p = 2 + 88
    n = t[p]; p += 1 + 10 * n
    n = t[p]; p += 1 + 7 * n
    n = t[p]; p += 1 + 2 * n
    n = t[p]; p += 1 + 2 * n
    n = t[p]; p += 1 + 7 * n
    n = t[p]; p += 1 + 7 * n
    hdr = t[:p]
    steps = []
    while p < len(t):
        L = OPLEN.get(t[p])
        if L is None:
            return None
        o = t[p:p + L]; p += L
        cls, af, nd = t[p], t[p + 1], t[p + 2]; p += 3
        ents = [t[p + 11 * i:p + 11 * i + 11] for i in range(nd)]; p += 11 * nd
        steps.append((o, cls, af, ents))
    return t[1], hdr, steps


def fmt_op(o):
    c = o[0]
    if c == 1:
        ep = "no-ip" if not o[4] else ("v6:%x:%x:%x:%x" % tuple(o[6:10]) if o[5] else "%d.%d.%d.%d" % (o[6] >> 24, (o[6] >> 16) & 255, (o[6] >> 8) & 255, o[6] & 255))
        return "OpenConnection#%d(%s,fd=%d,%s)" % (o[1], "in" if o[2] else "out", o[3], ep)
    if c in (2, 4, 5):
        return "%s(%s#%d,%d)" % (OPN[c], "conn" if c == 2 else "stream", o[1], o[2])
    if c == 3:
        return "OpenStream#%d(peer%d,%s)" % (o[1], o[2], "in" if o[3] else "out")
    sc = "%s%s" % (KIND.get(o[1], "?"), ("#%d" % o[2]) if o[1] >= 4 else "") if c != 10 else ""
    if c == 6:
        return "ReserveMemory(%s,%d,prio=%d)" % (sc, o[4], o[5])
    if c == 7:
        return "ReleaseMemory(%s,%d)" % (sc, o[4])
    if c == 8:
        return "BeginSpan(%s)->span#%d" % (sc, o[4])
    if c == 9:
        return "Done(%s)" % sc
    return "gc()"


def split_conc(t):
    """case kind 5 -> (samples [(K, a, lim, obs, [(lo, hi)])], holders [(id, own, edges)], final [(id, K, a, obs)])"""
    try:
        p = 1
        n = t[p]; p += 1
        smp = []
        for _ in range(n):
            k, a = t[p], t[p + 1]; lim = t[p + 2:p + 10]; obs = t[p + 10:p + 16]; m = t[p + 16]; p += 17
            parts = [(t[p + 12 * i:p + 12 * i + 6], t[p + 12 * i + 6:p + 12 * i + 12]) for i in range(m)]; p += 12 * m
            smp.append((k, a, lim, obs, parts))
        n = t[p]; p += 1
        hs = []
        for _ in range(n):
            hid, own, ne = t[p], t[p + 1:p + 7], t[p + 7]; p += 8
            hs.append((hid, own, t[p:p + ne])); p += ne
        n = t[p]; p += 1
        fin = [(t[p + 9 * i], t[p + 9 * i + 1], t[p + 9 * i + 2], t[p + 9 * i + 3:p + 9 * i + 9]) for i in range(n)]
        return smp, hs, fin
    except IndexError:
        return None


def conc_scope(k, a):
    if k == 8:
        return "protocol#%d.peer#%d" % (a // 4096, a % 4096)
    if k == 7:
        return "service#0.peer#%d" % a
    return "%s%s" % (KIND.get(k, "?"), ("#%d" % a) if k >= 4 else "")


def describe(t):
    if t and t[0] == 5:
        sp = split_conc(t)
        if not sp:
            return {"raw": t[:120]}
        smp, hs, fin = sp
        vsum = lambda vs: [sum(v[i] for v in vs) for i in range(6)]
        return {"kind": "concurrent run with mid-flight samples (counters: mem sin sout cin cout fd)",
                "samples": ["%s observed %s limit %s held-through-sample %s possibly-held %s" %
                            (conc_scope(k, a), obs, lim, vsum([lo for lo, _ in parts]), vsum([hi for _, hi in parts]))
                            for k, a, lim, obs, parts in smp][:40],
                "holders_at_quiescence": ["#%d holds %s charged to scopes %s" % h for h in hs][:40],
                "stat_at_quiescence": ["%s: %s" % (conc_scope(k, a) if k < 9 else "%s#%d" % (KIND[k], a), obs) for _, k, a, obs in fin][:60]}
    if t and t[0] == 4:
        return {"kind": "concurrent-quiescence", "want": t[1:7], "got": t[7:13], "sampled_limit_violations": t[13], "after_drain": t[14:]}
    sp = split_case(t)
    if not sp:
        return {"raw": t[:120]}
    flags, hdr, steps = sp
    return {"flags": flags, "limits(system,transient)": [hdr[2:10], hdr[10:18]],
            "ops": ["%s -> %s%s" % (fmt_op(o), {0: "ok", 1: "limit", 2: "closed", 3: "other", 4: "ip-cap"}.get(cls, cls), " [allow-listed]" if af else "")
                    for o, cls, af, _ in steps][:80]}


def nontrivial(line):
    # non-trivial: at least one operation was refused for a limit (class 1) or the ip cap (4);
    # cheap test on the raw line: parse
    t = [int(x) for x in line.split()]
    if t[0] in (4, 5):
        return True
    sp = split_case(t)
    return bool(sp) and any(cls in (1, 4) for _, cls, _, _ in sp[2])


def key(tag, toks, d):
    """identity of a monitor failure: clause + call site + canonical shape.
    d = [902, step, clause, ...details..., -1, site]"""
    if toks and toks[0] == 5:
        # [902 idx clause K a ...] (monitor) / [901 idx K a ...] (model's quiescent prediction)
        if len(d) >= 5 and d[0] == 902:
            return "C03:concurrent-sampled:%s:%s" % (CLAUSE.get(d[2], d[2]), KIND.get(d[3], d[3]))
        return "C03:concurrent-sampled:%s" % d[:3]
    if toks and toks[0] == 4:
        return "C03:concurrent:%s" % d[:3]
    if len(d) < 3 or d[0] != 902:
        return "C03:diag:%s" % d[:6]
    step, clause = d[1], d[2]
    sp = split_case(toks)
    opc = sp[2][step][0][0] if sp and step < len(sp[2]) else -1
    site = d[-1] if len(d) >= 2 and d[-2] == -1 else 0
    if clause == 6:
        # [902 step 6 attributable conn...]
        if len(d) > 3 and d[3] == 1:
            return "C03:subnet-cap:openConnection/allow-list-retry:open conns of one subnet > cap, excess admitted through the allow-listed scopes without a conn-limiter count"
        return "C03:subnet-cap:openConnection:%s" % d[3:7]
    if clause == 1 and opc == 10 and site == 2:
        return "C03:usage!=sum:gc/IsUnused-ignores-memory:gc() closed a peer/protocol scope whose only holder is a View memory reservation"
    if clause == 1 and opc == 2 and site == 3:
        return "C03:usage!=sum:SetPeer/after-refused-allow-list-transfer:SetPeer accepted on a connection that a refused transferAllowedToStandard left with no edges"
    if clause == 5:
        # [902 step 5 class (1)]: an answer the property does not allow: a refusal without the sentinel /
        # with a closed-scope or plain error that neither a closed owner nor a caller error explains
        return "C03:illegal-answer:%s:class%s:step%d" % (OPN.get(opc, opc), d[3] if len(d) > 3 else "?", step)
    scope = KIND.get(d[3], "?") if len(d) > 3 else "?"
    return "C03:%s:%s:%s:step%d:%s" % (CLAUSE.get(clause, clause), OPN.get(opc, opc), scope, step, " ".join(map(str, d[3:22])))


def what(tag, toks, d):
    if toks and toks[0] == 5:
        if len(d) >= 5 and d[0] == 902:
            return "concurrent run, scope %s: %s (observed / bounds: %s)" % (conc_scope(d[3], d[4]), CLAUSE.get(d[2], d[2]), d[5:23])
        return "concurrent run: diag %s" % d[:20]
    if toks and toks[0] == 4:
        return "concurrent run: totals at quiescence differ from what the goroutines hold, or a limit was exceeded (diag %s)" % d[:16]
    sp = split_case(toks)
    step = d[1] if len(d) > 1 else -1
    op = fmt_op(sp[2][step][0]) if sp and 0 <= step < len(sp[2]) else "?"
    if len(d) > 3 and d[2] == 5:
        cname = {0: "ok", 1: "resource-limit sentinel", 2: "scope closed", 3: "plain error (no sentinel)", 4: "per-IP cap"}.get(d[3], d[3])
        if d[3] == 4:
            return ("step %d %s refused by the per-subnet limiter although the network prefix that governs the endpoint and all its "
                    "subnets have room (counting the connections the history has open): the limiter's counts are not the open connections" % (step, op))
        return ("step %d %s answered '%s': an operation may be refused only with an error wrapping the resource-limit sentinel, "
                "unless a closed scope / owner or a caller error (second attach, negative size) explains it" % (step, op, cname))
    return "%s after step %d %s (diag %s)" % (CLAUSE.get(d[2] if len(d) > 2 else 0, "?"), step, op, d[3:22])


def harness(ctx, casefile, tier, seed):
    rc, out = ctx.go_test(PKG, "TestVerifC03$", OVERLAY,
                          env={"VERIF_OUT": casefile, "VERIF_TIER": tier, "VERIF_SEED": str(seed)}, timeout=3000)
    if casefile.endswith("cases_search.txt") and os.path.exists(casefile):
        # the fallback search of standard_flow looks at the first monitor failure only:
        # move the cases that fail with a known-finding key out of its way
        exe = os.path.join(COQ, "extract", "c03_driver")
        if os.path.exists(exe):
            res = ctx.run_driver(exe, casefile, mode="monitor")
            known = {k.get("key") for k in ctx.known if k.get("status") == "finding"}
            drop = set()
            for ln, d in res["M"]:
                if key("M", get_line(casefile, ln), d) in known:
                    drop.add(ln)
            if drop:
                lines = open(casefile).read().split("\n")
                with open(casefile, "w") as f:
                    f.write("\n".join(l for i, l in enumerate(lines, 1) if i not in drop))
    return rc, out


def warm(ctx):
    rc, out = ctx.go_test(PKG, "TestVerifNothing$", OVERLAY, timeout=1500)
    if rc != 0:
        ctx.obligations.append(("harness:compile", False, out[-1500:]))


def replay_harness(ctx, casefile, toks):
    return ctx.go_test(PKG, "TestVerifC03Replay$", OVERLAY,
                       env={"VERIF_OUT": casefile, "VERIF_REPLAY_CASE": " ".join(map(str, toks))}, timeout=600)


if __name__ == "__main__":
    ctx = Ctx("C03")
    ctx.assumptions = [
        "theorems: every finite sequential history of the whole operation language (incl. gc and the allow-list transfer inside SetPeer) under the property's own quantifier (disciplined = config_wf, op_shape, callers_run), for the whole monitor (mon_run with every check); CONCURRENT executions: theorems c03c_* over the interleaving LTS of Conc.v (holders = connections / streams over an arbitrary scope graph; atomic step = one single-lock section: one check-and-add (rc_reserve) or one release (rc_release) on one scope; operations OReserve / ORelease / ODone / OMove (SetPeer, SetProtocol, SetService, re-charge half of the allow-list transfer) / OUnlink; every schedule): usage == sum of the charges held so far incl. in-flight prefixes, within [0, limit] at every instant, quiescent exactness, a refused operation leaves no residue, and the monitor of case kind 5 accepts every trace of that model. Not in the LTS (correspondence only): span owner chains, gc, the conn limiter under concurrency, the leaf mutex (the LTS serialises the operations of one holder, as the leaf mutex does); per-peer sub-scopes: lookup-or-create is one atomic step of the registry LTS (ConcReg.v, c03c_one_subscope_per_key, c03c_subscope_quiescent_exact); whether the real interleavings are exactly those of the LTS (mutexes cannot be hooked without editing /repo: the harness observes Stat() from a sampler goroutine and makes every Limit getter yield inside the critical section)",
        "callers release at most what they reserved directly on that scope, priorities 0..255, outstanding memory in total < 2^63 (callers_run; with a MaxInt64 memory limit the code skips the check and int64 would wrap: DESIGN 9 item 13)",
        "limits are non-negative (config_wf); SetLimit / sticky scopes are outside the quantifier and not modelled; metrics, tracing and the connection *rate* limiter are off",
        "IP addresses and prefixes are integers with shift-compare containment (netip/net.IPNet.Contains, manet.ToIP modelled, exercised by the correspondence with real multiaddrs incl. IPv6 and IPv4-mapped IPv6: the conn limiter keys a mapped address as IPv6 in addConn and rmConn, the allow-list unmaps it)",
        "the owner recursion of span scopes is unrolled to the stored owner chain; each method is one critical section (per-scope mutexes not modelled)",
    ]
    standard_flow(ctx, dict(
        coq_targets=["c03/Properties.vo", "c03/Extract.vo"],
        props="c03/Properties.v",
        spec_module="c03.SpecAll",
        harness=harness, replay_harness=replay_harness, warm=warm,
        nontrivial=nontrivial,
        rule="seeded histories of 5-60 operations (OpenConnection in/out fd/no-fd with IPv4/IPv6/IPv4-mapped-IPv6/no-IP/allow-listed endpoints, plain and mapped forms of one host mixed at the caps, SetPeer, OpenStream, "
             "SetProtocol, SetService, ReserveMemory(size, prio) on connections/streams/nested spans/View scopes, ReleaseMemory, BeginSpan, Done "
             "(repeated, on closed owners; nested spans closed outer-first while the inner one holds memory), gc) against the REAL manager with limit tables drawn per scope kind from {0,1,2,3,small,MaxInt(64)} "
             "(1-3 tight kinds per case so the refusing edge moves through every position), per-subnet and per-prefix connection caps, allow-lists; "
             "plus directed corpus histories. After EVERY operation the error class and Stat()/refcount/done of every scope (system, transient, "
             "allow-listed pair, every service/protocol/peer scope and per-peer sub-scope, every handle) are compared with the Coq model "
             "(conform_case) and judged by the property monitor (monitor_case: usage == sum of holders, >= 0, <= limit, priority threshold, "
             "refusal changes nothing and is justified, re-parenting consistent, per-subnet cap). Concurrent runs: 8 goroutines, totals at "
             "quiescence (kind 4); 8 goroutines running OpenConnection (ordinary and allow-listed endpoints) / SetPeer (incl. the allow-list transfer) / OpenStream / "
             "SetProtocol / SetService / ReserveMemory (holder or span) / ReleaseMemory / BeginSpan / Done on their own connections and streams under tight limits "
             "while a sampler goroutine reads Stat() of system, transient, the allow-listed pair, every peer / protocol / service scope and per-peer sub-scope; every "
             "Limit getter yields inside the critical section; up to 160 samples per run (all suspicious ones, then mid-flight ones) are judged by the extracted "
             "monitor: each counter in [0, limit] and between the charges held through the sampling window and those plus the charges of the operations overlapping it; "
             "at quiescence Stat() of every shared scope and of every holder == sum over the holders (kind 5); "
             "'first use' rounds: 2-4 streams of a fresh peer call SetProtocol (then SetService) for the same protocol at once behind a barrier, the limiter keeps a caller of "
             "Get{Protocol,Service}PeerLimits inside until a second one is inside or 4000 yields have passed; the REGISTERED per-peer sub-scopes, peer, protocol, service, transient and system "
             "scopes must report exactly the sum of the streams charged to them, within the per-peer limits (kind 5). "
             "A case is non-trivial when at least one operation was refused by a limit or cap.",
        describe=describe, key=key, what=what, crosscheck=40,
    ))

#!/usr/bin/env python3
"""C13 — Identify attributes what it learns only to the authenticated peer, within bounds.
See DESIGN.md section 6 (C13)."""
import os, re, sys
sys.path.insert(0, os.path.join(os.path.dirname(os.path.abspath(__file__)), "..", "tools"))
from vlib import *

PKG = "p2p/protocol/identify"
OVERLAY = {
    PKG + "/zz_c13_env_verif_test.go": "harness/overlay/identify/c13_env_verif_test.go",
    PKG + "/zz_c13_stub_verif_test.go": "harness/overlay/identify/c13_stub_verif_test.go",
    PKG + "/zz_c13_msg_verif_test.go": "harness/overlay/identify/c13_msg_verif_test.go",
    PKG + "/zz_c13_gen_verif_test.go": "harness/overlay/identify/c13_gen_verif_test.go",
    PKG + "/zz_c13_verif_test.go": "harness/overlay/identify/c13_verif_test.go",
    "p2p/host/peerstore/pstoremem/zz_c13_export.go": "harness/overlay/pstoremem/c13_export.go",
}
ENV = {"GOLOG_LOG_LEVEL": "error"}


def consts(ctx):
    ctx.gen_consts_go(PKG, ["maxMessages", "recentlyConnectedPeerMaxAddrs", "connectedPeerMaxAddrs",
                            "maxPeerProtocols", "signedIDSize", "DefaultTimeout"],
                      extra_imports=("github.com/libp2p/go-libp2p/core/peerstore",),
                      exprs={"ConnectedAddrTTL": "peerstore.ConnectedAddrTTL",
                             "PermanentAddrTTL": "peerstore.PermanentAddrTTL",
                             "RecentlyConnectedAddrTTL": "peerstore.RecentlyConnectedAddrTTL",
                             "TempAddrTTL": "peerstore.TempAddrTTL",
                             "AddressTTL": "peerstore.AddressTTL"})


def harness(ctx, casefile, tier, seed):
    return ctx.go_test(PKG, "TestVerifC13$", OVERLAY,
                       env=dict(ENV, VERIF_OUT=casefile, VERIF_TIER=tier, VERIF_SEED=str(seed)), timeout=2400)


def warm(ctx):
    rc, out = ctx.go_test(PKG, "TestVerifNothing$", OVERLAY, timeout=1500)
    if rc != 0:
        ctx.obligations.append(("harness:compile", False, out[-1500:]))


OPN = {1: "NetAdd", 2: "NetRemove", 3: "Connected", 4: "Disconnected", 5: "IdentifyWait", 6: "Finish", 7: "Push", 8: "Timeout"}
CLAUSE = {1: "a peerstore call keyed by another peer", 2: "an event naming another peer",
          3: "another peer's stored data changed", 4: "a stored key that does not hash to the peer",
          5: "more than maxPeerProtocols protocols", 6: "more than connectedPeerMaxAddrs addresses",
          7: "an address recorded from no legitimate source (foreign /p2p suffix, or a record that is not valid and own)",
          8: "more than recentlyConnectedPeerMaxAddrs addresses kept after the last disconnect",
          9: "connected lifetime kept or promoted after the last disconnect",
          10: "an address keeps the connected lifetime with no connection and no pending notification",
          11: "a wait channel still open after the identify timeout",
          12: "a signed record that is not a valid own record of the message handed on in EvtPeerIdentificationCompleted",
          13: "more addresses below the connected class than the address book's per-peer cap"}


class Tok:
    def __init__(self, t):
        self.t, self.i = t, 0

    def get(self):
        v = self.t[self.i]
        self.i += 1
        return v

    def many(self, f):
        return [f() for _ in range(self.get())]


def parse(t):
    """decode a case line into (config, [step dicts]); mirrors coq/c13/Spec.v"""
    k = Tok(t)
    ver = k.get()
    assert ver in (13, 14)
    np_ = k.get()
    kinds = [k.get() for _ in range(np_)]
    cfg = {"peers": np_, "id_embeds_key": kinds, "maxProtos": k.get(), "bookPerPeerCap": k.get(), "bookMaxUnconnected": k.get(), "timeout_ns": k.get()}
    cfg["conns"] = k.many(lambda: {"peer": k.get(), "remote_class": k.get(), "remote_addr": k.get(), "limited": k.get()})
    cfg["seeded"] = k.many(lambda: (k.get(), k.get(), k.get()))
    addr = lambda: (k.get(), k.get(), k.get())

    def chunk():
        c = {"big": k.get(), "protos": k.many(k.get), "listen": k.many(addr), "pv": k.get(), "av": k.get(),
             "key": (k.get(), k.get())}
        rk = k.get()
        if rk == 2:
            c["record"] = {"pub": k.get(), "ptype": k.get(), "peer": k.get(), "seq": k.get(), "addrs": k.many(addr),
                           "sig": (k.get(), k.get(), k.get(), k.get(), k.get())}
        elif rk == 1:
            c["record"] = "garbage"
        return c

    def call():
        code, p = k.get(), k.get()
        if code == 1:
            return ("SetProtocols", p, len(k.many(k.get)))
        if code == 2:
            return ("UpdateAddrs", p, k.get(), k.get())
        if code == 3:
            return ("AddAddrs", p, k.get(), [a[0] for a in k.many(addr)][:30])
        if code == 4:
            return ("Put", p, k.get(), k.get())
        if code == 5:
            return ("PubKey", p)
        if code == 6:
            return ("AddPubKey", p, k.get())
        return ("other-mutator", p)

    steps = []
    nops = k.get() if ver == 14 else None   # race case: operations without observations, then the final dumps
    while k.i < len(t):
        if ver == 14 and len(steps) == nops:
            break
        code = k.get()
        st = {"op": OPN.get(code, code)}
        if code in (1, 2, 3, 5):
            st["conn"] = k.get()
        elif code == 4:
            st["conn"] = k.get()
            st["order"] = [a[0] for a in k.many(addr)][:40]
        elif code == 6:
            st["chan"], st["conn"], st["outcome"] = k.get(), k.get(), k.get()
            if st["outcome"] == 2:
                st["chunks"] = k.many(chunk)
        elif code == 7:
            st["conn"] = k.get()
            st["chunks"] = k.many(chunk)
        elif code == 8:
            st["d"] = k.get()
        if ver == 14:
            st.update(ret=0, calls=[], events=[], chans_closed=[], dump=[])
            steps.append(st)
            continue
        st["ret"] = k.get()
        st["calls"] = k.many(call)
        st["events"] = k.many(lambda: (k.get(), k.get()))
        st["chans_closed"] = k.many(k.get)
        dump = []
        for _ in range(np_):
            dump.append({"addrs": k.many(lambda: (k.get(), k.get())), "protos": len(k.many(k.get)),
                         "key": k.get(), "pv": k.get(), "av": k.get(), "rec": k.get()})
        st["dump"] = dump
        steps.append(st)
    if ver == 14:
        cfg["race_case"] = True
        final = []
        for _ in range(np_):
            final.append({"addrs": k.many(lambda: (k.get(), k.get())), "protos": len(k.many(k.get)),
                          "key": k.get(), "pv": k.get(), "av": k.get(), "rec": k.get()})
        steps.append({"op": "final-contents", "ret": 0, "calls": [], "events": [(1, 0)], "chans_closed": [], "dump": final})
    return cfg, steps


def brief(st):
    d = {x: st[x] for x in ("op", "conn", "chan", "outcome", "order", "d") if x in st}
    if "chunks" in st:
        d["chunks"] = [{kk: (vv if not isinstance(vv, list) or len(vv) < 12 else "%d items" % len(vv))
                        for kk, vv in c.items()} for c in st["chunks"][:4]]
    d["calls"] = st["calls"][:12]
    d["events"] = st["events"]
    d["dump"] = [{"addrs": p["addrs"][:12], "n_addrs": len(p["addrs"]), "protos": p["protos"], "key": p["key"]} for p in st["dump"]]
    return d


def describe(t):
    try:
        cfg, steps = parse(t)
    except Exception as ex:  # malformed line
        return {"raw": t[:120], "error": str(ex)}
    return {"config": cfg, "steps": [brief(s) for s in steps[:12]], "n_steps": len(steps)}


def nontrivial(line):
    # a case is non-trivial when an Identify message was consumed (a Completed event, kind 1, was
    # observed); cheap test on the raw line is not possible, so parse
    try:
        _, steps = parse([int(x) for x in line.split()])
    except Exception:
        return False
    return any(e[0] == 1 for s in steps for e in s["events"])


def key(tag, toks, d):
    # identity of a failure: failing clauses + the failing step (operation, subject connection's
    # peer / connectedness are in the step) + the operations before it in brief
    try:
        cfg, steps = parse(toks)
        i = min(d[1] if len(d) > 1 else 0, len(steps) - 1)
        st = steps[i]
        hist = " ".join("%s%s" % (s["op"][0:2], s.get("conn", "")) for s in steps[:i + 1][-6:])
        msg = ""
        if "chunks" in st:
            msg = ":chunks=%d" % len(st["chunks"])
        return "C13:clauses=%s:op=%s%s:hist=%s" % (",".join(map(str, d[2:])), st["op"], msg, hist)
    except Exception:
        return "C13:%s:%s" % (d, " ".join(map(str, toks[:60])))


def what(tag, toks, d):
    return "identify trace violates the property at step %s: %s" % (
        d[1] if len(d) > 1 else "?", "; ".join(CLAUSE.get(c, str(c)) for c in d[2:]))


if __name__ == "__main__":
    ctx = Ctx("C13")
    ctx.assumptions = [
        "the swarm side (Network.Connectedness, Conn, Stream) is a harness stub implementing core/network; the identify service, the peerstore (pstoremem), the event bus, protobuf / multiaddr / key / envelope decoding are the real code",
        "atomic steps of the model = the sections id.go protects with connsMu and addrMu (consumeMessage reads Connectedness and rewrites the address TTLs under addrMu; so does Disconnected); the Go scheduler is assumed sequentially consistent at that granularity",
        "ideal signatures (c08.SymCrypto): an envelope verifies iff its signature was issued by the envelope's key for exactly (domain, payload type, payload); peer.IDFromPublicKey and ExtractPublicKey enter as functions id_of / inline_key",
        "the address book is C09's abstract book (expired = absent) with AddAddrs carrying pstoremem's per-peer cap (Model.c_add); among entries with the same expiry the implementation evicts by map iteration order, the model the first: a case is compared observation by observation up to its first eviction and judged by the monitor throughout",
        "addresses are abstracted to (transport address number, loopback/private/public/other class, /p2p suffix); the class the harness writes is what manet's predicates answer for the real multiaddr",
        "time: TTL classes and expiry by the identify timeout steps only; Go int unbounded",
        "IdentifyWait: safety for every schedule + enabledness of the releasing steps are proved; that an answer or the timeout eventually occurs (scheduler fairness, transport honouring deadlines) is exercised by the harness only",
    ]
    standard_flow(ctx, dict(
        consts=consts,
        coq_targets=["c13/Properties.vo", "c13/Extract.vo"],
        props="c13/Properties.v",
        spec_module="c13.Spec",
        harness=harness, warm=warm,
        nontrivial=nontrivial,
        rule="seeded random histories over a stub swarm driving the real idService + pstoremem + eventbus inside a testing/synctest "
             "bubble: connections (several per peer, limited or not, remote address of every class) enter and leave the swarm's table, "
             "Connected / Disconnected notifications are delivered in and out of order, identify tasks are answered (crafted multi-chunk "
             "protobuf messages: fields absent / duplicated across chunks / oversized, 9-10-11 chunks, a chunk over signedIDSize, addresses "
             "with own and foreign /p2p suffixes, bare /p2p, unparsable bytes, own / foreign / garbage keys, signed records valid, of another "
             "peer, wrong peer ID, wrong domain, tampered, wrong type; more addresses than the book's per-peer cap while not connected), refused, answered after the exchange is over, or left to "
             "time out against a remote that stalls before / after the negotiation or mid-message, pushes arrive on live and dead "
             "connections; plus real-goroutine race cases (a push racing with the removal + Disconnected of that or another connection, "
             "fired from inside consumeMessage's locked section, judged on the final contents). After EVERY operation: the peerstore calls made (recording wrapper), events, every wait channel, and the "
             "peerstore contents of ALL peers (addresses with TTL class, protocols, key, versions, record). conform_case compares all of "
             "it with the Coq model; monitor_case judges it by the property. Non-trivial = an Identify message was consumed.",
        describe=describe, key=key, what=what, crosscheck=40,
    ))

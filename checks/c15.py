#!/usr/bin/env python3
"""C15 — event bus: exactly once, in order, no deadlock.  See DESIGN.md section 6 (C15)."""
import os, sys
sys.path.insert(0, os.path.join(os.path.dirname(os.path.abspath(__file__)), "..", "tools"))
from vlib import *

PKG = "p2p/host/eventbus"
OVERLAY = {PKG + "/zz_c15_verif_test.go": "harness/overlay/eventbus/c15_verif_test.go"}


def harness(ctx, casefile, tier, seed):
    """The Go test stops (exit 1, marker C15STUCK) when a run ends with operations that never returned:
    the blocked goroutines cannot be released.  It is then restarted after that run (same PRNG stream,
    C15_START) and the parts are concatenated.  A crash (unrecoverable panic) ends the search."""
    for p in (casefile + ".part.crash", casefile, casefile + ".cov"):
        if os.path.exists(p):
            os.remove(p)
    start, cov, rc, out, stuck = 0, {}, 0, "", 0
    for attempt in range(80):
        part = casefile + ".part"
        for p in (part, part + ".cov"):
            if os.path.exists(p):
                os.remove(p)
        rc, out = ctx.go_test(PKG, "TestVerifC15$", OVERLAY,
                              env={"VERIF_OUT": part, "VERIF_TIER": tier, "VERIF_SEED": str(seed), "C15_START": str(start)}, timeout=1500)
        n = 0
        if os.path.exists(part):
            with open(part) as f, open(casefile, "a") as g:
                for line in f:
                    g.write(line)
                    if line.strip() and line[0] != "#":
                        n += 1
        for k, v in read_cov(part).items():
            cov[k] = cov.get(k, 0) + v
        if rc != 0 and "C15STUCK" in out and n > 0:
            start += n
            stuck += 1
            continue
        break
    # free-running race stream (outside synctest, real parallelism): Subscribe / Emitter() racing with the call
    # that makes the node droppable, wildcard Subscribe racing with the Close of the only other wildcard
    # subscription; a miss is written as a wire line that the monitor rejects
    part = casefile + ".race"
    for p in (part, part + ".cov"):
        if os.path.exists(p):
            os.remove(p)
    rrc, rout = ctx.go_test(PKG, "TestVerifC15Race$", OVERLAY,
                            env={"VERIF_OUT": part, "VERIF_TIER": tier, "VERIF_SEED": str(seed)}, timeout=600)
    if os.path.exists(part):
        with open(part) as f, open(casefile, "a") as g:
            for line in f:
                g.write(line)
    for k, v in read_cov(part).items():
        cov[k] = cov.get(k, 0) + v
    rcov = read_cov(part)
    if any(k.startswith("race.miss") for k in rcov):
        ctx.notes.append("race stream: an event emitted after the racing Subscribe returned was not delivered (%s after %d iterations)"
                         % (", ".join(k for k in rcov if k.startswith("race.miss")), rcov.get("race.iterations", 0)))
    if rrc != 0 and rc == 0:
        rc, out = rrc, rout
    with open(casefile + ".cov", "w") as f:
        for k in sorted(cov):
            f.write("%s %d\n" % (k, cov[k]))
    if stuck and rc == 0:
        ctx.notes.append("harness restarted %d time(s) after a run that ended with operations that never returned" % stuck)
    if rc != 0 and os.path.exists(casefile + ".part.crash") and ("panic:" in out or "fatal error:" in out):
        # the test binary died (unrecoverable panic in a bus goroutine): the harness noted the case up to
        # the fatal stimulus, ending in a panic label
        with open(casefile, "a") as f:
            f.write(open(casefile + ".part.crash").read())
        ctx.notes.append("test binary crashed: " + " | ".join(l for l in out.splitlines() if l.startswith(("panic:", "fatal error:")))[:300])
    return rc, out


def warm(ctx):
    rc, out = ctx.go_test(PKG, "TestVerifNothing$", OVERLAY, timeout=900)
    if rc != 0:
        ctx.obligations.append(("harness:compile", False, out[-1500:]))


def replay_harness(ctx, casefile, toks):
    crash = casefile + ".crash"
    if os.path.exists(crash):
        os.remove(crash)
    rc, out = ctx.go_test(PKG, "TestVerifC15Replay$", OVERLAY,
                          env={"VERIF_OUT": casefile, "VERIF_REPLAY_CASE": " ".join(map(str, toks))}, timeout=300)
    if rc != 0 and os.path.exists(crash) and ("panic:" in out or "fatal error:" in out):
        with open(casefile, "a") as f:
            f.write(open(crash).read())
    return rc, out


OPS = {0: "Emitter()", 1: "Emitter.Close", 2: "Emit", 3: "Subscribe", 4: "Sub.Close"}
RULES = {1: "received a value that was never emitted", 2: "received an event of a type not subscribed",
         3: "received an event whose Emit had not started or failed", 4: "delivered after Close returned",
         5: "event delivered twice", 6: "old event delivered that is not the retained (stateful) one",
         7: "an earlier completed event was skipped or overtaken", 8: "a later event arrived before the retained one",
         9: "Emit returned although the subscriber's channel was full (dropped)",
         10: "consumer waiting but an emitted event / the retained event was not delivered",
         11: "panic", 12: "an operation never returned (deadlock)",
         13: "a call is blocked at quiescence although no stalled (unread, unclosed) subscription it may wait for exists - "
             "the channel of a Subscribe call that returned an error is nobody's subscription (deadlock)",
         14: "Close of a typed subscription returned but its channel is not closed: a receive is still unanswered at quiescence (a Close call returned before the subscription was detached)"}


def parse(t):
    p = 4
    nt, ne, ns, nk = t[0:4]
    ems = [(t[p + 2 * i], t[p + 2 * i + 1]) for i in range(ne)]
    p += 2 * ne
    subs = []
    for _ in range(ns):
        w, cap, k = t[p:p + 3]
        subs.append((w, cap, t[p + 3:p + 3 + k]))
        p += 3 + k
    emits = [(t[p + 2 * i], t[p + 2 * i + 1]) for i in range(nk)]
    p += 2 * nk
    nl = t[p]
    labs = [tuple(t[p + 1 + 4 * i:p + 5 + 4 * i]) for i in range(nl)]
    return nt, ems, subs, emits, labs


def show_label(l, emits):
    k, a, b, v = l
    if k == 0:
        return "start %s#%d%s" % (OPS.get(a, a), b, "(ev %d)" % emits[b][1] if a == 2 and b < len(emits) else "")
    if k == 1:
        return "ret %s#%d%s" % (OPS.get(a, a), b, " err" if v else "")
    if k == 2:
        return "recv-start sub%d" % a
    if k == 3:
        return "recv sub%d -> %s" % (a, "closed" if v == -2 else v)
    return {4: "PANIC", 5: "end"}.get(k, str(l))


def sub_name(w, cap, tys):
    if w >= 2:
        # a Subscribe call that must be rejected: the valid types with one invalid entry inserted
        l = ["new(T%d)" % x for x in tys]
        l.insert(min((w - 2) // 2, len(l)), "nil" if (w - 2) % 2 else "5")
        return "REJECTED Subscribe([%s]) cap%d" % (", ".join(l), cap)
    return ("wildcard" if w == 1 else "types%s" % tys) + " cap%d" % cap


def describe(t):
    try:
        nt, ems, subs, emits, labs = parse(t)
    except Exception:
        return {"raw": t[:120]}
    return {"types": nt,
            "emitters": ["type%d%s" % (ty, " stateful" if sf else "") for ty, sf in ems],
            "subs": [sub_name(w, cap, tys) for w, cap, tys in subs],
            "emits": ["emitter%d ev%d" % e for e in emits],
            "trace": [show_label(l, emits) for l in labs][:150]}


def nontrivial(line):
    # non-trivial: at least one event was received by a subscriber
    t = [int(x) for x in line.split()]
    try:
        labs = parse(t)[4]
    except Exception:
        return False
    return any(k == 3 and v >= 0 for k, a, b, v in labs)


def stuck_shape(toks):
    """Shape of a rule-12 failure: which operations never returned."""
    nt, ems, subs, emits, labs = parse(toks)
    started = [(a, b) for k, a, b, v in labs if k == 0]
    returned = {(a, b) for k, a, b, v in labs if k == 1}
    stuck = [x for x in started if x not in returned]
    # a multi-type typed Subscribe that has not returned, an Emit of one of its types that has not returned,
    # and a third operation that needs basicBus.lk (Emitter(), Emitter.Close, Subscribe, Subscription.Close)
    # two multi-type typed Subscribes that have not returned and share types, plus Emits of their types that have
    # not returned: each Emit holds a node lock and is stalled on the other, half-registered subscription
    multi = [b for a, b in stuck if a == 3 and not subs[b][0] and len(subs[b][2]) >= 2]
    for x in multi:
        for y in multi:
            if x >= y:
                continue
            tx, ty_ = list(subs[x][2]), list(subs[y][2])
            common = [t for t in tx if t in ty_]
            # crossing type orders: two common types that the two Subscribes lock in opposite order
            cross = [(p, q) for p in common for q in common
                     if p != q and tx.index(p) < tx.index(q) and ty_.index(p) > ty_.index(q)]
            for p, q in cross:
                # an unreturned Emit on each of the two crossing types (each holds one node lock and is
                # stalled on the sink of the other, not yet returned Subscribe), nobody stuck on the bus lock
                ep = any(a2 == 2 and ems[emits[b2][0]][0] == p for a2, b2 in stuck)
                eq = any(a2 == 2 and ems[emits[b2][0]][0] == q for a2, b2 in stuck)
                if ep and eq and not any(a2 in (0, 1) for a2, b2 in stuck):
                    return "crossing-multi-type-Subscribes+Emits-stalled-on-half-registered-subscriptions"
    for a, b in stuck:
        if a == 3 and not subs[b][0] and len(subs[b][2]) >= 2:
            tys = set(subs[b][2])
            em_stuck = any(a2 == 2 and ems[emits[b2][0]][0] in tys for a2, b2 in stuck)
            third = any(a2 in (0, 1, 3, 4) and (a2, b2) != (a, b) for a2, b2 in stuck)
            if em_stuck and third:
                return "half-registered-multi-type-Subscribe+Emit-stalled-on-it+bus-lock-waiter"
    return None


def key(tag, toks, d):
    # failing clause + subscription shape + the op kinds of the trace up to the failing label
    rule = d[1] if len(d) > 1 else -1
    pos = d[2] if len(d) > 2 else 0
    try:
        nt, ems, subs, emits, labs = parse(toks)
        if rule == 12:
            shape = stuck_shape(toks)
            if shape and shape.startswith("crossing"):
                return "C15:rule12:deadlock:node.emit-sends-under-n.lk-to-subscriptions-not-yet-returned:" + shape
            if shape:
                return "C15:rule12:deadlock:withNode/tryDropNode-hold-basicBus.lk-while-waiting-for-n.lk:" + shape
        if rule == 13:
            ops = "".join("%d%d" % (k, a if k in (0, 1) else 0) for k, a, b, v in labs[:pos + 1])
            return "C15:rule13:blocked-%s:%s" % (OPS.get(d[3], d[3]), ops[-80:])
        s = d[3] if len(d) > 3 else -1
        shape = ("rejected" if subs[s][0] >= 2 else "wild" if subs[s][0] else "typed%d" % len(subs[s][2])) + ":cap%d" % subs[s][1] if 0 <= s < len(subs) else "-"
        ops = "".join("%d%d" % (k, a if k in (0, 1) else 0) for k, a, b, v in labs[:pos + 1])
    except Exception:
        shape, ops = "?", "?"
    return "C15:rule%d:%s:%s" % (rule, shape, ops[-80:])


def what(tag, toks, d):
    rule = d[1] if len(d) > 1 else -1
    return "event bus trace violates C15 (%s) at label %s: diag %s" % (RULES.get(rule, "rule %s" % rule), d[2] if len(d) > 2 else "?", d)


if __name__ == "__main__":
    ctx = Ctx("C15")
    ctx.assumptions = [
        "sequential consistency at the granularity of the listed atomic steps: mutex-protected sections without channel operations are one step; each channel send/receive/close is one step; a lock held across sends has an explicit holder",
        "basicBus.lk protects only non-blocking sections since fix 8aeecd5 (withNode: lookup + pending++; tryDropNode: pending/TryLock check), each modelled as one atomic step; metrics/logging ignored; the 1 s slow-consumer timer only logs (exercised in the harness under virtual time, not modelled)",
        "a Go channel is a FIFO holding at most cap + (number of waiting receivers) items; the Close drainer is a permanently waiting receiver",
        "operation alphabet includes the REJECTED Subscribe call (an invalid entry - a non-pointer value or an untyped nil - in front of, between or behind 0-2 valid types, any buffer size): modelled as the subscription wired to no type (styps = Some []), two visible steps (start, error return) that change nothing but the call's own program counter (c15_rejected_subscribe_is_noop / _never_blocks; faithful because basic.go validates every entry in a loop of its own before the wiring loop); the nil entry makes reflect.TypeOf(nil).Kind() panic in the CALLER's goroutine inside that validation loop - the harness recovers it and records it as the rejection (not judged by 'never panics', which the text states for closing concurrently with emits); no receive / Close is issued for a rejected call. Monitor rule 13: a rejected call (error return seen) is never a legitimate reason for a blocked operation (o_root); proved for every model trace via c15_error_return_only_when_rejected",
        "types of one Subscribe call are distinct; event values are distinguishable (unique ids); one Close call per subscription (closeOnce not modelled)",
        "no deadlock is proved as a state-predicate progress theorem (c15_no_deadlock: every reachable state with an unfinished operation has an enabled non-stimulus step, given that every full open channel has a receive pending or is being closed), not as liveness under fairness (DESIGN.md section 10)",
        "monitor-accepts-model is a theorem (c15_monitor_accepts_model): for every well-formed configuration and every DISCIPLINED schedule (stimuli only at quiescent states: what the harness does and what conform_case searches, c15_accepted_run_is_disciplined) the monitor run on the WIRE line of the run (decode/encode round trip proved: c15_wire_round_trip, c15_monitor_case_on_runs) answers []; proved clause by clause with the monitor's own functions: rules 1-10 (c15_monitor_rule1..10; rules 4, 9, 10 use the discipline), 11 (no panic label in a model trace), 12 (from rule 13, under final_ok: quiescent end state, every returned Subscribe closing, no Subscribe still in flight - the last conjunct excludes exactly the known crossing-Subscribe deadlock), 13 (c15_monitor_rule13_accepts_model). Hypotheses of the theorem that are not proved of the harness: that the real harness only writes a stimulus at a quiescent point (its settle loop reads goroutine states) and writes the end marker only in a final_ok situation. Emitter.Close/closed-emitter error path; node drop semantics of `stateful` (DESIGN.md section 9 item 12: the monitor demands the retained event only while a stateful emitter of the type stayed open)",
        "operation alphabet: Emitter.Close is exercised as two sequential calls (the second must be a no-op reporting an error), Subscription.Close as two concurrent calls plus a later third one, the operation counting as returned when ANY call has returned; the model has one closer thread per emitter / subscription, i.e. it assumes that a repeated or concurrent Close is once-like (returns no earlier than the first one's body); with rules 4 and 14 this is the clause 'after any Close call has returned nothing more is delivered and the channel is closed'",
        "interleavings inside withNode / tryDropNode / wildcard addSink / removeSink are in the LTS at the granularity of the code: bus-lock section (lookup, pending++) / gap / node-lock section (pending--, append) are separate steps (SBus, SApp; emnew 1, 2), tryDropNode checks pending and TryLock in one step, nSinks.Add(1) / lock announce / append / unlock and nSinks.Add(-1) / lock / delete are separate steps (SW1-SW3, KW1-KW3), the emit fast path reads nSinks in its own step (EWChk); theorems c15_node_not_dropped_before_lock, c15_node_registration and the wildcard counting invariant behind c15_must_deliver cover them for every schedule. The synctest harness cannot schedule two calls inside each other's gaps, so a free-running race stream (TestVerifC15Race, outside synctest, GOMAXPROCS >= 4, 40000 iterations quick / 300000 thorough, deadline) races Subscribe / Emitter() against the call that makes the node droppable and a wildcard Subscribe against the Close of the only other wildcard subscription, then requires a later Emit to reach the new subscription; a miss is reported as one sequential wire line (best-effort order) that the monitor rejects (rule 10)",
        "exactly-once is stated per occurrence of the sink in n.sinks; that a subscription is listed at most once per node follows from distinct types per Subscribe call (hypothesis of the theorem reading, not proved: c15_nothing_before_join / c15_stateful_replay_first take `~ In n (snodes c)`)",
        "harness quiescence detection reads goroutine states (runtime.Stack) inside the synctest bubble because synctest.Wait does not treat sync.Mutex waits as durable blocks; monitor rules 4, 9, 10 rely on that quiescence between stimuli",
    ]
    standard_flow(ctx, dict(
        coq_targets=["c15/Properties.vo", "c15/Extract.vo"],
        props="c15/Properties.v",
        spec_module="c15.Spec",
        harness=harness, replay_harness=replay_harness, warm=warm,
        nontrivial=nontrivial,
        rule="seeded random scripts against the real bus inside a testing/synctest bubble: 2 event types (3 in some thorough runs) + wildcard, "
             "1-3 subscriptions (typed / two-type / wildcard) with buffer sizes {0,1,4}, in 1 of 3 runs also a REJECTED Subscribe call (invalid entry first / middle / last / alone, non-pointer or nil) plus 26 directed histories around one (more Emits of each listed type than its buffer holds, with and without a live reader, stateful replay), 2-3 emitters (stateful or not), 3-8 Emit calls; every operation "
             "(Emitter(), Emit, Subscribe, Subscription.Close, Emitter.Close) runs in its own goroutine, the main goroutine issues one stimulus at a time "
             "(operation start or consumer receive) after all other goroutines are blocked, so interleavings (emit blocked on a full sink while another "
             "emit / subscribe / close / emitter-close starts, close at every point, reads at arbitrary pace) are forced from outside; virtual time passes "
             "the 1 s slow-consumer timer. Recorded: the label trace (start/return of every operation, receive start/completion with value, panic, end). "
             "conform_case: the label trace is accepted by the Coq LTS (trace_accepted, quiescence required before every stimulus); monitor_case: the "
             "property rules 1-12 on the observations alone. A case is non-trivial when at least one event was received; distinct = distinct case lines.",
        describe=describe, key=key, what=what, crosscheck=20,
    ))

#!/usr/bin/env python3
"""C14 — connection manager trims only eligible peers, lowest value first.  See DESIGN.md section 6 (C14)."""
import os, sys
sys.path.insert(0, os.path.join(os.path.dirname(os.path.abspath(__file__)), "..", "tools"))
from vlib import *

PKG = "p2p/net/connmgr"
OVERLAY = {PKG + "/zz_c14_verif_test.go": "harness/overlay/connmgr/c14_verif_test.go"}
OPN = {1: ("Connected", 2), 2: ("Disconnected", 2), 3: ("TagPeer", 3), 4: ("UntagPeer", 2), 5: ("UpsertTag+", 3),
       6: ("Bump", 3), 7: ("DecayRemove", 2), 8: ("DecayClose", 1), 9: ("Protect", 2), 10: ("Unprotect", 2),
       11: ("Advance", 1), 12: ("TrimOpenConns", 0), 13: ("ForceTrim", 0),
       14: ("ReRegisterDecayingTag(d,accepted)", 2), 16: ("DecayCloseQueuedLoopStalled", 1)}


def harness(ctx, casefile, tier, seed):
    return ctx.go_test(PKG, "TestVerifC14$", OVERLAY,
                       env={"VERIF_OUT": casefile, "VERIF_TIER": tier, "VERIF_SEED": str(seed)}, timeout=1500)


def warm(ctx):
    rc, out = ctx.go_test(PKG, "TestVerifNothingC14$", OVERLAY, timeout=1500)
    if rc != 0:
        ctx.obligations.append(("harness:compile", False, out[-1500:]))


def replay_harness(ctx, casefile, toks):
    if toks and toks[0] == 3:
        # an overlap case: re-executed with the same prefix, scripts and post operations
        return ctx.go_test(PKG, "TestVerifC14ReplayOverlap$", OVERLAY,
                           env={"VERIF_OUT": casefile, "VERIF_REPLAY_CASE": " ".join(map(str, toks))}, timeout=600)
    if toks and toks[0] == 1:
        # a concurrent case cannot be re-executed with the same interleaving: the recorded case is judged as is
        if os.path.exists(casefile):
            os.remove(casefile)
        return 0, ""
    return ctx.go_test(PKG, "TestVerifC14Replay$", OVERLAY,
                       env={"VERIF_OUT": casefile, "VERIF_REPLAY_CASE": " ".join(map(str, toks))}, timeout=600)


def parse(t):
    """sequential (kind 0) or during-trim (kind 2) case -> (cfg dict, [(opname, args, obs dict)]);
    the during-trim event appears as one step named 'TrimOpenConns<during: script>'"""
    if not t or t[0] not in (0, 2) or len(t) < 7:
        return None
    np_, nd = t[1], t[6]
    cfg = {"peers": np_, "low": t[2], "high": t[3], "grace": t[4], "resolution": t[5],
           "decaying(interval,k,min,max)": [t[7 + 4 * i: 11 + 4 * i] for i in range(nd)]}
    i, steps = 7 + 4 * nd, []
    npre = -1
    if t[0] == 2:
        npre = t[i]
        i += 1
        cfg["during_trim_event_at_step"] = npre

    def obs(i):
        cnt = t[i]
        peers = [t[i + 1 + 3 * k: i + 4 + 3 * k] for k in range(np_)]
        i += 1 + 3 * np_
        k = t[i]
        closed = [t[i + 1 + 2 * j: i + 3 + 2 * j] for j in range(k)]
        i += 1 + 2 * k
        return {"count": cnt, "peers(present,value,tagsum)": peers, "closed(p,c)": closed}, i
    try:
        while i < len(t):
            if len(steps) == npre:
                npre = -1
                hp, ns = t[i], t[i + 1]
                i += 2
                script = []
                for _ in range(ns):
                    name, n = OPN[t[i]]
                    script.append("%s%s" % (name, tuple(t[i + 1:i + 1 + n])))
                    i += 1 + n
                npr = t[i]
                pruned = t[i + 1:i + 1 + npr]
                i += 1 + npr
                o, i = obs(i)
                steps.append(("TrimOpenConns<during, hook %s: %s%s>" % (
                    {1: "after snapshot/before selection", 2: "after selection/at first close"}.get(hp, hp),
                    "; ".join(script), (" | pruned before script: %s" % pruned) if pruned else ""), [], o))
                continue
            name, n = OPN[t[i]]
            args = t[i + 1:i + 1 + n]
            i += 1 + n
            o, i = obs(i)
            steps.append((name, args, o))
    except (KeyError, IndexError):
        pass
    return cfg, steps


def parse_ovl(t):
    """overlap case (kind 3) -> (cfg, [(opname, args, obs)]) with the overlap as one step"""
    try:
        np_, nd = t[1], t[6]
        cfg = {"peers": np_, "low": t[2], "high": t[3], "grace": t[4], "resolution": t[5], "two_trims_in_flight": True}
        i = 7 + 4 * nd
        npre = t[i]
        i += 1
        steps = []

        def obs(i):
            cnt = t[i]
            peers = [t[i + 1 + 3 * k: i + 4 + 3 * k] for k in range(np_)]
            i += 1 + 3 * np_
            k = t[i]
            closed = [t[i + 1 + 2 * j: i + 3 + 2 * j] for j in range(k)]
            i += 1 + 2 * k
            return {"count": cnt, "peers(present,value,tagsum)": peers, "closed(p,c)": closed}, i

        def ops(n, i):
            res = []
            for _ in range(n):
                name, k = OPN[t[i]]
                res.append("%s%s" % (name, tuple(t[i + 1:i + 1 + k])))
                i += 1 + k
            return res, i

        def pairs(i):
            k = t[i]
            return [t[i + 1 + 2 * j: i + 3 + 2 * j] for j in range(k)], i + 1 + 2 * k
        while i < len(t):
            if len(steps) == npre:
                npre = -1
                akind, dt, xa = t[i], t[i + 1], t[i + 2]
                s1, i = ops(t[i + 3], i + 4)
                pruned = t[i + 1:i + 1 + t[i]]
                i += 1 + t[i]
                locked = t[i + 1:i + 1 + t[i]]
                i += 1 + t[i]
                s2, i = ops(t[i], i + 1)
                o, i = obs(i)
                cla, i = pairs(i)
                clb, i = pairs(i)
                o["closed_by_A"], o["closed_by_background"] = cla, clb
                steps.append(("OVERLAP<%s || background trim (clock +%d); after both snapshots: %s; %s selects first%s%s; then: %s>" % (
                    OPN[akind][0], dt, "; ".join(s1) or "-", "A" if xa else "background",
                    (", pruned %s" % pruned) if pruned else "", (", segments of %s held by the other" % locked) if locked else "",
                    "; ".join(s2) or "-"), [], o))
                continue
            name, n = OPN[t[i]]
            args = t[i + 1:i + 1 + n]
            i += 1 + n
            o, i = obs(i)
            steps.append((name, args, o))
        return cfg, steps
    except (KeyError, IndexError):
        return None


def parse_conc(t):
    """concurrent case -> (cfg, prefix ops, worker op lists, obs)"""
    try:
        np_ = t[1]
        cfg = {"peers": np_, "low": t[2], "high": t[3], "grace": t[4], "concurrent": True}
        i = 5

        def ops(n, i):
            res = []
            for _ in range(n):
                name, k = OPN[t[i]]
                res.append("%s%s" % (name, tuple(t[i + 1:i + 1 + k])))
                i += 1 + k
            return res, i
        pre, i = ops(t[i], i + 1)
        nw = t[i]
        i += 1
        ws = []
        for _ in range(nw):
            w, i = ops(t[i], i + 1)
            ws.append(w)
        cnt = t[i]
        peers = [t[i + 1 + 3 * k: i + 4 + 3 * k] for k in range(np_)]
        i += 1 + 3 * np_
        k = t[i]
        closed = [t[i + 1 + 2 * j: i + 3 + 2 * j] for j in range(k)]
        return cfg, pre, ws, {"count": cnt, "peers(present,value,tagsum)": peers, "closed(p,c)": closed}
    except (KeyError, IndexError):
        return None


def describe(t):
    if t and t[0] == 1:
        r = parse_conc(t)
        if not r:
            return {"raw": t[:120]}
        return {"config": r[0], "prefix": r[1], "workers(first ops)": [w[:12] for w in r[2]], "final": r[3]}
    r = parse_ovl(t) if t and t[0] == 3 else parse(t)
    if not r:
        return {"raw": t[:120]}
    cfg, steps = r
    return {"config": cfg, "ops": ["%s%s -> count=%d present=%s closed=%s" % (
        n, tuple(a), o["count"], "".join(str(x[0]) for x in o["peers(present,value,tagsum)"]), o["closed(p,c)"]) for n, a, o in steps][:80]}


def nontrivial(line):
    # non-trivial: some trim (op 12/13) closed at least one connection.  Cheap test on the raw line:
    # decode properly (lines are short).
    t = [int(x) for x in line.split()]
    if t and t[0] == 1:
        r = parse_conc(t)
        return bool(r and r[3]["closed(p,c)"])
    r = parse_ovl(t) if t and t[0] == 3 else parse(t)
    if not r:
        return False
    return any(n.startswith("OVERLAP") and o["closed(p,c)"] for n, a, o in r[1]) or any(n.startswith(("TrimOpenConns", "ForceTrim")) and o["closed(p,c)"] for n, a, o in r[1])


def key(tag, toks, d):
    # identity = violated clause + op at the failing step + configuration + the op history up to that step
    idx = d[1] if len(d) > 1 else 0
    clause = d[2] if len(d) > 2 else -1
    if toks and toks[0] == 1:
        r = parse_conc(toks)
        return "C14:concurrent:clause=%d:low=%d:grace=%d:prefix=%s:final=%s" % (
            clause, toks[2], toks[4], ";".join(r[1]) if r else "?", (r[3] if r else "?"))
    r = parse_ovl(toks) if toks and toks[0] == 3 else parse(toks)
    if not r:
        return "C14:malformed:%s" % d
    cfg, steps = r
    hist = ";".join("%s%s" % (n, ",".join(map(str, a))) for n, a, o in steps[:idx + 1])
    return "C14:clause=%d:at=%s:low=%d:high=%d:grace=%d:%s" % (
        clause, steps[idx][0] if idx < len(steps) else "?", cfg["low"], cfg["high"], cfg["grace"], hist[-600:])


CLAUSE = {11: "a TrimOpenConns closed a connection of a protected peer, of a peer inside its grace period, or an untracked one",
          12: "a TrimOpenConns closed a peer while a lower-valued eligible peer was kept",
          13: "a TrimOpenConns closed connections although the count was at or below the low watermark",
          14: "a TrimOpenConns left more than low-watermark connections among the eligible peers",
          21: "a ForceTrim closed an untracked connection",
          22: "a ForceTrim closed a protected peer while an unprotected peer kept a connection",
          23: "a ForceTrim closed a peer while a lower-valued peer of the same protection class was kept",
          24: "a ForceTrim closed connections although the count was at or below the low watermark",
          30: "a trim (racing with scripted operations) closed a connection of a peer it never snapshotted as a candidate",
          31: "a trim (racing with scripted operations) closed a connection of a peer that was protected when the trim snapshotted it",
          32: "a trim (racing with scripted operations) closed a connection of a peer that was inside its grace period when snapshotted",
          33: "a trim that found the count at or below the low watermark closed connections (concurrent class)",
          34: "a trim left more than low + (connections added to its candidates after their snapshot) connections on its live candidates",
          35: "a trim deleted (pruned) an entry that held a connection or was not tracked - e.g. a delete by id through a stale pointer of an overlapping trim: "
              "count and tag totals stop being what the notifications imply",
          40: "a trim appeared as a plain operation inside an overlap", 42: "two trims of the same thread in flight / a close without a trim",
          36: "the sort's comparator read a torn value",
          37: "a trim closed a connection of a candidate that is inside its grace period when closed (an early-tagged candidate whose first "
              "Connected arrived after the snapshot: the selection loop must re-check firstSeen)",
          3: "connection count differs from what the Connected/Disconnected notifications imply",
          4: "a peer's tag total differs from what the tag operations imply"}


def what(tag, toks, d):
    return "step %s: %s (diag %s)" % (d[1] if len(d) > 1 else "?", CLAUSE.get(d[2] if len(d) > 2 else 0, "monitor"), d)


if __name__ == "__main__":
    ctx = Ctx("C14")
    ctx.assumptions = [
        "Go int / time modelled as unbounded Z (no overflow); time in whole virtual seconds",
        "each exported method and each decayer command is one atomic step (segment locks, plk, trimMutex not modelled); "
        "concurrency is modelled as an LTS of critical sections (Conc.v): TrimOpenConns split into begin / per-peer snapshot / sort comparisons / per-entry "
        "selection / close, the decayer tick split per peer, every other method one section; per-peer snapshot and tick steps in any order are a superset of the "
        "code's per-segment sections; Protect/Unprotect block during the snapshot phase (plk); one trim at a time (trimMutex); NOT split: ForceTrim and the per-segment "
        "value removal of a processed decaying-tag closure; decayingTag.Close is split into its synchronous part (closed flag, closure queued) and the loop's processing, "
        "with RegisterDecayingTag racing in between (exact registry semantics - knownTags by name, generations, queue - in Registry.v); the background loop's unlocked trim() is not modelled; a snapshot entry whose peerInfo object left the map is a flag (such an object has no "
        "connections and is not temp for ever); sequential consistency at section granularity",
        "the implementation's interleavings are observable only at two hook points inside a trim (in the sort's comparator via Stat(), at the first CloseWithError) "
        "and at quiescence of random goroutine races; other schedules of the LTS are covered by the theorems only",
        "sort.Slice enters as a Section variable with hypotheses 'permutation' and 'ordered by (temp, value)'; instantiated by insertion sort; "
        "the stream/direction tie-breakers are not modelled, every resolution of ties is admitted by trim_ok",
        "an absent tag and a tag of value 0 are identified (the property is about totals); decaying tags use DecayNone/DecayFixed(k>=0) and "
        "BumpSumUnbounded/BumpSumBounded, registered at creation and re-registered (same name and parameters) after a Close; "
        "a closed tag whose closure is still queued is not ticked in the model (the harness cannot advance the clock while it holds the loop)",
        "a peer's tags are forgotten when its last connection is disconnected, and a regular trim may drop the buffered early tags of a peer "
        "that holds no connection (both are the code's documented design; the monitor accepts the second only when the implementation reports the peer absent)",
        "a manager with low = 0 or high = 0 is disabled by configuration: the 'at most low-watermark connections remain' clause is not demanded of it",
        "a negative low watermark (NewConnManager accepts any int) is read as 0 by the monitor's 'at most low-watermark connections remain' clause; "
        "no precondition on the configuration is left in the theorems; the harness uses low in -1..7",
        "the background loop's trim() is the same getConnsToClose + close as TrimOpenConns: in the sequential model and in the first LTS (Conc.v) it is a TrimOpenConns issued by the "
        "environment at any point; that the loop calls trim() WITHOUT trimMutex, so that it can overlap a TrimOpenConns or a ForceTrim, is modelled by the second LTS (Conc2.v: thread A = "
        "trimMutex holder, thread B = background trim, ForceTrim split into its two passes of per-peer snapshot / sort / per-entry selection / close); clauses (c) and (d), the split decayer tick "
        "and the complete-sweep condition of the snapshot are proved in Conc.v only; Conc2's sort result is any order and a snapshot may end early (supersets)",
        "the overlap stream drives the real manager through one family of two-trim schedules (mock clock tick for the background loop, segments.bucketsMu held by the harness as a lever, "
        "runtime.Stack goroutine states to see where the trims wait, closes attributed by goroutine); the other schedules of Conc2 are covered by the theorems only",
    ]
    standard_flow(ctx, dict(
        coq_targets=["c14/Properties.vo", "c14/Extract.vo"],
        props="c14/Properties.v",
        spec_module="c14.SpecConc2",
        harness=harness,
        replay_harness=replay_harness, warm=warm,
        nontrivial=nontrivial,
        rule="seeded random histories (3 profiles: structured, structured with decaying-tag Close, uniform/malformed-ish) plus 8 directed scenarios "
             "over 6 peers x 4 connection identities x 3 tags x 2 protection tags x 2 decaying tags against the real BasicConnMgr + decayer "
             "inside a testing/synctest bubble (virtual clock, exact quiescence): Connected/Disconnected (duplicates, unknown conns/peers), "
             "TagPeer/UntagPeer/UpsertTag (also before the first connection), decaying Bump/Remove/Close, Protect/Unprotect with two tags, clock "
             "advances across the grace period and decay intervals, TrimOpenConns and ForceTrim, Close of a decaying tag processed at once or QUEUED while the "
             "decayer loop is held (harness lever: a bump for a peer outside the observed universe whose segment lock the harness holds), RegisterDecayingTag "
             "with the same name during that window (refused: the name is still taken) and after the closure (accepted), bumps on the new tag and clock advances "
             "past its interval (it must decay), with Disconnected delivered (or not) for closed "
             "connections. After every op: GetInfo().ConnCount, GetTagInfo (presence, Value, sum of Tags) of all peers, and the set of connections "
             "CloseWithError was called on. conform_case replays the ops on the Coq model (state compared exactly, closed set judged by trim_ok); "
             "monitor_case judges the observations by the property alone. DURING-TRIM cases (900 quick / 40000 thorough, + 1 directed): a deterministic "
             "interleaving class - a scripted list of Connected/Disconnected/tag ops (peer loses its last connection and reconnects, peer goes away, "
             "new connection + tag change, new peer, random mixes) is executed synchronously from INSIDE TrimOpenConns, between its candidate snapshot and "
             "its selection loop (hook in the fake conns' Stat(), which the sort's comparator calls; TryLock ensures the script's peers are not the two being "
             "compared); judged at quiescence by the bookkeeping monitor (count, totals, closed conns only of peers eligible at the snapshot), then the case "
             "continues sequentially so later Disconnected/trims for the touched peers are judged too. Two hook points: inside the sort (after the "
             "snapshot, before the selection loop) and at the first CloseWithError (after the selection loop); scripts also contain Protect/Unprotect and "
             "decaying Bump/Remove. The case is rendered as the LTS event trace ETrimBegin, ESnap p.., ESnapEnd, [EPrune..], EOp script.., [EPrune..], EClosed and "
             "judged by the concurrent-trace monitor cmon (clauses 30-36: protected/in-grace at snapshot never closed; at most low + added left on the live "
             "candidates; count/totals), the same monitor that is proved to accept every schedule of the LTS; two directed cases replay the vm_compute "
             "witnesses of Properties.v on the implementation. CONCURRENT cases (300 quick / 10000 thorough): 6 goroutines doing "
             "Connected/Disconnected/TagPeer/UntagPeer/UpsertTag on their own connection/tag ids of all peers while 2 goroutines call TrimOpenConns "
             "in a loop; at quiescence count and totals must equal what the op lists imply (interleaving-independent by construction) and no closed "
             "connection may belong to a peer that was protected or inside its grace period throughout. OVERLAP cases (3 directed + 200 quick / 6000 thorough, wire kind 3, outside the synctest bubble on a mock "
             "clock): the background loop's trim() - triggered by advancing the clock to the loop's tick with connCount >= high - in flight together with a TrimOpenConns or a ForceTrim on the real "
             "manager: both trims complete their snapshots (they wait for segments.bucketsMu, held by the harness), script 1 runs, the first trim sorts and selects as far as the segments held by the "
             "second (parked in its comparator's Stat()) allow, script 2 runs, both finish; what each trim closed is recorded per goroutine; rendered as the event trace of the two-trim LTS (Conc2.v) "
             "and judged by cmon2 (closed only own candidates: 30/31/32, nothing below low: 33, a deleted entry held no connection: 35, count/totals 3/4, ForceTrim by force_code when no script ran), the "
             "monitor proved to accept every schedule of that LTS; conformance replays the schedule on the LTS. Directed: the stale-pointer schedule of c14_overlap_old_prune_by_id_lost_a_connected_peer "
             "(regression of /repo 6213130), a protected early-tagged entry connecting between snapshot and selection, a ForceTrim with a low-valued protected peer. Non-trivial = a trim closed at least one connection; distinct = distinct lines.",
        describe=describe, key=key, what=what, crosscheck=80,
    ))

#!/usr/bin/env python3
"""C06 — Connected/Disconnected notifications: exactly-once, ordered, truthful.  DESIGN.md section 6 (C06)."""
import os, sys
sys.path.insert(0, os.path.join(os.path.dirname(os.path.abspath(__file__)), "..", "tools"))
from vlib import *

OVERLAY = {"p2p/net/swarm/zz_c06_verif_test.go": "harness/overlay/swarm/c06_verif_test.go",
           "p2p/net/swarm/zz_c06s_verif_test.go": "harness/overlay/swarm/c06s_verif_test.go",
           "p2p/net/swarm/zz_c06w_verif_test.go": "harness/overlay/swarm/c06w_verif_test.go"}
PKG = "p2p/net/swarm"


def consts(ctx):
    ctx.gen_consts_go(PKG, [], exprs={
        "network_NotConnected": "network.NotConnected",
        "network_Connected": "network.Connected",
        "network_Limited": "network.Limited",
    }, extra_imports=["github.com/libp2p/go-libp2p/core/network"])


def harness(ctx, casefile, tier, seed):
    rc, out = ctx.go_test(PKG, "TestVerifC06$", OVERLAY,
                          env={"VERIF_OUT": casefile, "VERIF_TIER": tier, "VERIF_SEED": str(seed)}, timeout=3000)
    # whole-swarm runs (kind 7 cases) are appended to the same case file
    sw = casefile + ".swarm"
    for p in (sw, sw + ".cov"):
        if os.path.exists(p):
            os.remove(p)
    rc2, out2 = ctx.go_test(PKG, "TestVerifC06Swarm$", OVERLAY,
                            env={"VERIF_OUT": sw, "VERIF_TIER": tier, "VERIF_SEED": str(seed)}, timeout=3000)
    if os.path.exists(sw) and os.path.exists(casefile):
        with open(casefile, "a") as f:
            f.write(open(sw).read())
        if os.path.exists(sw + ".cov"):
            with open(casefile + ".cov", "a") as f:
                f.write(open(sw + ".cov").read())
    # swarm-level runs with fake transport conns (kind 8 cases)
    sw8 = casefile + ".sw8"
    for p in (sw8, sw8 + ".cov"):
        if os.path.exists(p):
            os.remove(p)
    rc3, out3 = ctx.go_test(PKG, "TestVerifC06Sw$", OVERLAY,
                            env={"VERIF_OUT": sw8, "VERIF_TIER": tier, "VERIF_SEED": str(seed)}, timeout=3000)
    if os.path.exists(sw8) and os.path.exists(casefile):
        with open(casefile, "a") as f:
            f.write(open(sw8).read())
        if os.path.exists(sw8 + ".cov"):
            with open(casefile + ".cov", "a") as f:
                f.write(open(sw8 + ".cov").read())
    return (rc or rc2 or rc3), out + out2 + out3


def warm(ctx):
    rc, out = ctx.go_test(PKG, "TestVerifC06Nothing$", OVERLAY, timeout=1500)
    if rc != 0:
        ctx.obligations.append(("harness:compile", False, out[-1500:]))


def replay_harness(ctx, casefile, toks):
    run = {7: "TestVerifC06SwarmReplay$", 8: "TestVerifC06SwReplay$"}.get(toks[0] if toks else 0, "TestVerifC06Replay$")
    return ctx.go_test(PKG, run, OVERLAY,
                       env={"VERIF_OUT": casefile, "VERIF_REPLAY_CASE": " ".join(map(str, toks))}, timeout=600)


SNAMES = {9: "Connected.begin", 10: "Connected.end", 11: "Disconnected.begin", 12: "Disconnected.end", 17: "StreamIn",
          14: "Pub", 18: "SwarmCloseCall", 19: "SwarmCloseRet", 20: "FinalConnectedness", 21: "Listed", 15: "Quiesce", 16: "Stuck"}
SCLAUSE = {1: "connected-exactly-once", 2: "disconnected-once-after-connected", 3: "swarm-close-waits", 4: "no-repeated-state",
           5: "quiescence(truthful/listed/exactly-once)", 6: "stuck", 7: "stream-before-connected"}
VNAMES = {31: "addConn.call", 32: "addConn.ret", 9: "Connected.begin", 10: "Connected.end", 11: "Disconnected.begin",
          12: "Disconnected.end", 33: "transportClose.begin", 34: "transportClose.end", 35: "AcceptStream", 36: "Conn.Close.call",
          14: "Pub", 37: "Swarm.Close.call", 38: "Swarm.Close.ret", 42: "Swarm.Close(2nd).call", 43: "Swarm.Close(2nd).ret", 39: "SeenListed", 40: "ObsConnectedness", 41: "ObsListed",
          15: "Quiesce", 16: "Stuck", 44: "AcceptStream.returnedStream", 46: "StreamHandler", 47: "ConnsToPeer.listed"}
VCLAUSE = {1: "connected-exactly-once", 2: "disconnected-once-after-connected", 3: "swarm-close-waits", 4: "no-repeated-state",
           5: "quiescence(truthful: last event / Connectedness / listed conns)", 6: "stuck", 7: "stream-loop/inbound-stream-before-connected-returned",
           8: "disconnected-before-transport-closed", 9: "swarm-close-returned-before-admitted-conn-was-notified",
           11: "untruthful-listing(listed after Disconnected began / refused / announced-unclosed conn not listed)"}
CST = {0: "NotConnected", 1: "Connected", 4: "Limited"}
NAMES = {1: "Reg", 2: "Unreg", 3: "AddCall", 4: "AddRet", 5: "RemCall", 6: "RemRet", 7: "CloseCall", 8: "CloseRet",
         9: "ConnB", 10: "ConnE", 11: "DiscB", 12: "DiscE", 13: "Read", 14: "Pub", 15: "Quiesce", 16: "Stuck"}
CLAUSE = {1: "connected-exactly-once", 2: "disconnected-once-after-connected", 3: "close-waits",
          4: "no-repeated-state", 5: "quiescence(truthful/exactly-once)", 6: "stuck"}


def labels_of(t):
    if len(t) < 6:
        return []
    body = t[6 + t[5]:]
    return [tuple(body[i:i + 4]) for i in range(0, len(body) - 3, 4)]


def sshow(lb):
    code, x, y, z = lb
    n = SNAMES.get(code, "?%d" % code)
    if code in (9, 10, 11, 12):
        return "%s(c%d)@notifiee%d" % (n, x, y)
    if code in (14, 20):
        return "%s(%s)" % (n, {0: "NotConnected", 1: "Connected", 4: "Limited"}.get(y, y))
    if code == 21:
        return "%s(c%d,%s)" % (n, x, "yes" if y else "no")
    if code == 17:
        return "%s(c%d)" % (n, x)
    return n


def vshow(lb):
    code, x, y, z = lb
    n = VNAMES.get(code, "?%d" % code)
    if code == 31:
        return "%s(c%d,p%d,%s%s)" % (n, x, y, "limited" if z & 1 else "unlimited", ",relayed" if z & 2 else ",direct")
    if code == 32:
        return "%s(c%d,%s)" % (n, x, "ok" if y else "error")
    if code in (14, 40):
        return "%s(p%d,%s)" % (n, x, CST.get(y, y))
    if code in (41, 47):
        return "%s(c%d,%s)" % (n, x, "yes" if y else "no")
    if code in (37, 38, 42, 43, 15, 16):
        return n
    return "%s(c%d)" % (n, x)


def show(lb):
    code, x, y, z = lb
    n = NAMES.get(code, "?%d" % code)
    if code == 1:
        return "%s(c%d,p%d,%s)" % (n, x, y, "limited" if z else "direct")
    if code in (13, 14):
        return "%s(p%d,%s)" % (n, x, {0: "NotConnected", 1: "Connected", 4: "Limited"}.get(y, y))
    if code in (7, 8, 15, 16):
        return n
    return "%s(c%d)" % (n, x)


def describe(t):
    if t and t[0] == 8:
        m = t[6:6 + t[5]]
        return {"kind": "swarm with fake transport conns", "mode": {0: "synctest, forced schedule", 1: "real scheduler, addConn stalled after the insert into conns.m"}.get(m[0] if m else 0),
                "meta(config+schedule)": m, "trace": [vshow(l) for l in labels_of(t)][:200]}
    if t and t[0] == 7:
        m = t[6:6 + t[5]]
        return {"kind": "whole swarm", "notifiees": m[0], "conns": m[1], "block Connected@0": m[2], "block Disconnected@0": m[3],
                "script": {0: "remote close in order", 1: "remote close reversed", 2: "local ClosePeer while Connected blocked",
                           3: "Connected handler closes the conn", 4: "Swarm.Close while callbacks blocked",
                           5: "local Close of each conn after streams"}.get(m[4], m[4]),
                "trace": [sshow(l) for l in labels_of(t)][:200]}
    return {"cap": t[1] if len(t) > 1 else None, "meta(config+schedule)": t[6:6 + t[5]] if len(t) > 5 else None,
            "trace": [show(l) for l in labels_of(t)][:200]}


def nontrivial(line):
    # a removal overtook an in-flight Connected (RemCall c before ConnE c), or a repeated NotConnected was published
    t = [int(x) for x in line.split()]
    if t and t[0] in (7, 8):
        return True
    seen_rem, lastpub = set(), {}
    for code, x, y, z in labels_of(t):
        if code == 5:
            seen_rem.add(x)
        elif code == 10 and x in seen_rem:
            return True
        elif code == 14:
            if y == 0 and lastpub.get(x, 0) == 0:
                return True
            lastpub[x] = y
    return False


def canon(labs):
    """labels up to the failing one, conns/peers renamed in order of first use"""
    cm, pm, out = {}, {}, []
    for code, x, y, z in labs:
        if code == 1:
            out.append("%d.%d.%d.%d" % (code, cm.setdefault(x, len(cm)), pm.setdefault(y, len(pm)), z))
        elif code in (13, 14):
            out.append("%d.%d.%d" % (code, pm.setdefault(x, len(pm)), y))
        elif code in (7, 8, 15, 16):
            out.append("%d" % code)
        else:
            out.append("%d.%d" % (code, cm.setdefault(x, len(cm))))
    return " ".join(out)


def key(tag, toks, d):
    # d = [902, position of the failing label, clause numbers...]
    labs = labels_of(toks)
    pos = d[1] if len(d) > 1 else len(labs)
    if toks and toks[0] == 8:
        return "C06:sw:%s:at=%s:%s" % (",".join(VCLAUSE.get(c, str(c)) for c in d[2:]), vshow(labs[pos]) if 0 <= pos < len(labs) else "?",
                                       " ".join("%d.%d.%d.%d" % l for l in labs[:pos + 1]))
    if toks and toks[0] == 7:
        return "C06:swarm:%s:script=%s:at=%s:%s" % (",".join(SCLAUSE.get(c, str(c)) for c in d[2:]), toks[6:6 + toks[5]],
                                                    sshow(labs[pos]) if 0 <= pos < len(labs) else "?",
                                                    " ".join("%d.%d.%d" % l[:3] for l in labs[:pos + 1] if l[0] != 14))
    clauses = ",".join(CLAUSE.get(c, str(c)) for c in d[2:])
    at = show(labs[pos]) if 0 <= pos < len(labs) else "?"
    # only the labels that name the conns/peers of the failing label matter for identity; keep the whole prefix
    # (schedules are short) so that a different violation of the same clause is still reported
    return "C06:%s:at=%s:%s" % (clauses, NAMES.get(labs[pos][0], "?") if 0 <= pos < len(labs) else at, canon(labs[:pos + 1]))


def what(tag, toks, d):
    labs = labels_of(toks)
    pos = d[1] if len(d) > 1 else -1
    if toks and toks[0] == 8:
        return "swarm level: clause %s fails when %s is observed (label #%d)" % (
            "+".join(VCLAUSE.get(c, str(c)) for c in d[2:]), vshow(labs[pos]) if 0 <= pos < len(labs) else "?", pos)
    if toks and toks[0] == 7:
        return "whole swarm: clause %s fails when %s is observed (label #%d)" % (
            "+".join(SCLAUSE.get(c, str(c)) for c in d[2:]), sshow(labs[pos]) if 0 <= pos < len(labs) else "?", pos)
    return "clause %s fails when %s is observed (label #%d of the trace)" % (
        "+".join(CLAUSE.get(c, str(c)) for c in d[2:]), show(labs[pos]) if 0 <= pos < len(labs) else "?", pos)


if __name__ == "__main__":
    ctx = Ctx("C06")
    ctx.assumptions = [
        "atomic steps = the closeMu / notifsLk sections, each send/receive on peerConnectednessCh, begin and end of each callback, the run loop's connectedness() call (with its private lastConnectednessEvent update) and its Emit call, wg.Done / wg.Wait / cancel / loopWG.Wait; Go's scheduler and memory model are assumed sequentially consistent at that granularity",
        "environment discipline taken from swarm.go/swarm_conn.go: a conn is in Swarm.conns.m before AddConn(c) is called (addConn), it is removed from it before RemoveConn(c) is called (doClose -> removeConn), each is called at most once per conn (closeOnce), Close once (Swarm.closeOnce)",
        "the channel capacity is a parameter of the model (theorems hold for every capacity); the harness reports cap() of the real channel and the acceptance check uses it",
        "connectedness(p) is the function of the registered open conns that swarm.connectednessUnlocked computes (Connected if a non-limited open conn, else Limited if any open conn); IsClosed()-but-still-registered conns are not modelled",
        "swarm level (SwModel.v): conns are named in the order Swarm.addConn is called and admitted in that order; Conn.Close is only called on admitted conns; a transport conn is closed only through Conn.Close / the rejection path of addConn (no remote close), so IsClosed() implies removed from the table; the atomic steps of addConn / doClose / Swarm.close are the ones listed at the top of SwModel.v; conformance of kind-8 traces to SwModel is not checked by acceptance (monitor only) - the tie is the emitter-level acceptance plus the proved refinement swarm LTS -> emitter LTS",
        "stream level (StModel.v): AcceptStream hands out inbound streams only while the loop spawned by c.start() runs; the stream goroutine holds one Swarm ref until addStream returned, a registered stream one until it is closed / reset, doClose resets every registered stream before it spawns the notification goroutine; addStream succeeds only before the transport Close begins and fails only after doClose nil-ed the stream table; the resource manager never refuses an inbound stream; a ConnsToPeer read is one atomic step (conns.RLock) and does not overlap Swarm.close's nil-ing section",
        "fault point: the error value returned by the transport conn's Close / CloseWithError is NOT part of the model - a conn whose transport Close returns an error is closed and delisted all the same (steps STCloseB / STCloseE of SwModel.v do not depend on it), so every clause judges such a conn like any other; the harness gives it to random and directed conns",
        "whole-swarm runs over TCP (kind 7: several notifiees, inbound streams) are judged by their own monitor only",
    ]
    standard_flow(ctx, dict(
        consts=consts,
        coq_targets=["c06/Properties.vo", "c06/Extract.vo"],
        props="c06/Properties.v",
        spec_module="c06.SpecTop",
        harness=harness, replay_harness=replay_harness, warm=warm,
        nontrivial=nontrivial,
        rule="the real connectionEventsEmitter (in-package overlay test) with harness-supplied onConnected / onDisconnected / "
             "connectedness and a recording event emitter, inside a testing/synctest bubble; every callback, every connectedness() "
             "call and every Emit can block on a gate; the driver issues one stimulus (register / AddConn / unregister / RemoveConn / "
             "Close / release one gate) at a time followed by synctest.Wait(). Schedules: depth-first enumeration of ALL driver "
             "schedules for 1 conn (all gate/callback-action/Close combinations), 2 conns (1-2 peers, direct/limited, gates on "
             "Connected and/or the run loop, Close) and 3 conns (fused addConn/doClose stimuli) up to a per-configuration budget, plus "
             "seeded random schedules of random configurations (callbacks closing their own or another conn, synchronous RemoveConn "
             "inside Connected, a subscriber closing a conn, up to 3 (quick) / 6 (thorough) conns). Each recorded label trace is checked "
             "for acceptance by the LTS (conform_case) and judged by the property monitor (monitor_case). Non-trivial = a removal "
             "overtook an in-flight Connected or a repeated NotConnected was published. "
             "SWARM-LEVEL runs with fake transport conns (kind 8; monitor = SpecSw.v, proved to accept every schedule of the "
             "swarm-level LTS SwModel.v): a real Swarm (NewSwarm + Swarm.addConn fed with harness conns of four classes: direct, "
             "relayed+limited, relayed+UNLIMITED, direct-but-limited), a gateable recording event emitter (stalled subscriber), a "
             "Notifiee with gates, transport Close that can block; in a synctest bubble with forced schedules (all schedules of the "
             "class pairs and of slow-close configurations, Swarm.Close with a backlog of events of 2-6 peers, TWO overlapping Swarm.Close "
             "calls with the first parked behind a gated callback / subscriber / transport Close, random configurations; INBOUND STREAMS the remote "
             "opens at any moment - in particular while the Connected handler of the conn is held on its gate - accepted by the real AcceptStream "
             "loop and given to a recording stream handler that resets them or leaves them to doClose, all schedules of 1-conn and budgeted "
             "schedules of 2-conn configurations with Conn.Close / Swarm.Close / Connected closing the conn; a ConnsToPeer READ of every conn "
             "before every driver stimulus, judged against the notifications seen so far, first of all in configurations whose Disconnected / "
             "Connected handler is held on its gate; a run in which a bubble goroutine blocks non-durably is written as a stuck case by a watchdog; FAULT POINT: "
             "transport conns whose Close returns an error (directed: one conn with Conn.Close / Swarm.Close / Connected closing it, two conns "
             "to one peer of every direct/limited class pair closed in all orders; random conns with probability 1/3); the Swarm.Close that ends "
             "every run is judged too: if it does not return the run is written with Swarm.Close.call + Stuck appended) "
             "and, under the real scheduler, addConn stalled right after the insert into conns.m (the harness holds "
             "s.directConnNotifs) racing Swarm.Close / Conn.Close. "
             "WHOLE-SWARM runs (kind 7, monitor only, real scheduler): a real Swarm with a TCP listener, two recording Notifiees "
             "(one can block in Connected / Disconnected), a stream handler and a bus subscriber; 1-3 inbound conns from a second "
             "swarm's transport with a stream opened at once on each; closed remotely (both orders), by ClosePeer while Connected "
             "is blocked, from inside Connected, by Swarm.Close while callbacks are blocked, or locally; judged for: each notifiee "
             "sees Connected/Disconnected exactly once and in order, no inbound stream before Connected returned at every notifiee, "
             "Swarm.Close returns after all callbacks, no repeated published state, final event = Connectedness, ConnsToPeer = the "
             "announced conns that were not disconnected.",
        describe=describe, key=key, what=what, crosscheck=40,
    ))

#!/usr/bin/env python3
"""C18 — WebTransport certificates.  See DESIGN.md section 6 (C18)."""
import os, re, sys
sys.path.insert(0, os.path.join(os.path.dirname(os.path.abspath(__file__)), "..", "tools"))
from vlib import *

PKG = "p2p/transport/webtransport"
OVERLAY = {PKG + "/zz_c18_verif_test.go": "harness/overlay/webtransport/c18_verif_test.go"}


def consts(ctx):
    # certValidity and clockSkewAllowance are package constants; the verifier's
    # lifetime bound is a literal inside verifyRawCerts: its Go expression is
    # taken from the source text and evaluated by the Go compiler.
    src = open(os.path.join(REPO, PKG, "crypto.go"), errors="replace").read()
    m = re.search(r"l\s*:=\s*cert\.NotAfter\.Sub\(cert\.NotBefore\)\s*;\s*l\s*>\s*([^{]+?)\s*\{", src)
    ctx.obligations.append(("consts:verifyRawCerts lifetime bound found in crypto.go", bool(m), "" if m else "pattern not found"))
    expr = m.group(1) if m else "0"
    ctx.gen_consts_go(PKG, ["certValidity", "clockSkewAllowance"], exprs={"verifyMaxLifetime": expr}, extra_imports=["time"])
    # which certificate of the presented chain verifyRawCerts inspects: 1 = the last one
    # (rawCerts[len(rawCerts)-1], the tree before a6acc86), 0 = rawCerts[0], the one TLS authenticates.
    # The theorems are proved for 0 (c18_verifier_inspects_first): a source that goes back to the last
    # entry breaks that obligation AND makes the harness's chains of two fail the monitor with concrete
    # cases.  A wrong guess of this regex shows up as a conformance
    # mismatch on the chains of two and three of the verifier table.
    b = re.search(r"func verifyRawCerts\(.*?\n}\n", src, re.S)
    body = b.group(0) if b else ""
    last = 1 if re.search(r":=\s*rawCerts\[len\(rawCerts\)\s*-\s*1\]", body) else 0
    ctx.obligations.append(("consts:verifyRawCerts chain index found in crypto.go",
                            bool(last or re.search(r":=\s*rawCerts\[0\]", body)), ""))
    ctx.add_const_raw("Definition verifyLeafLast : Z := %d." % last,
                      "certificate of the chain inspected by verifyRawCerts (1: the last, 0: the first = the TLS server certificate)")
    consts_dial(ctx)
    ctx.notes.append("verifyLeafLast=%d (%s)" % (last, "REGRESSION: the last certificate of the chain is inspected; c18_verifier_inspects_first no longer checks" if last else "the first certificate of the chain is inspected: c18_verify_server_cert holds unconditionally"))


def consts_dial(ctx):
    # the source fact the dial model relies on: inside `if len(certHashes) > 0 {` dial() sets
    # InsecureSkipVerify and installs, as VerifyPeerCertificate, a closure whose whole body is
    # `return verifyRawCerts(rawCerts, certHashes)` (whatever the user's tls.Config carried), and
    # dialWithScope refuses an address without certhashes.  1 = all of that is in the source text.
    src = open(os.path.join(REPO, PKG, "transport.go"), errors="replace").read()
    m = re.search(r"func \(t \*transport\) dial\(.*?\n}\n", src, re.S)
    body = m.group(0) if m else ""
    blk = re.search(r"if len\(certHashes\) > 0 \{(.*?)\n\t\}\n", body, re.S)
    inner = re.sub(r"//[^\n]*", "", blk.group(1)) if blk else ""
    inner = re.sub(r"\s+", " ", inner).strip()
    want = ("tlsConf.InsecureSkipVerify = true tlsConf.VerifyPeerCertificate = func(rawCerts [][]byte, _ [][]*x509.Certificate) error "
            "{ return verifyRawCerts(rawCerts, certHashes) }")
    refuses0 = bool(re.search(r"if len\(certHashes\) == 0 \{\s*return nil, errors\.New\(", src))
    ok = 1 if (inner == want and refuses0) else 0
    ctx.add_const_raw("Definition dialInstallsVerifier : Z := %d." % ok,
                      "dial(): the VerifyPeerCertificate installed for a certhash address is exactly verifyRawCerts(rawCerts, certHashes) (1) or something else (0)")
    if not ok:
        ctx.notes.append("dial() no longer installs verifyRawCerts unconditionally: found `%s`" % inner[:300])


def harness(ctx, casefile, tier, seed):
    if ctx.tier == "thorough" and not getattr(ctx, "_coqchk_done", False):
        ctx._coqchk_done = True
        ctx.coqchk(["Verif.c18.Properties"])   # independent re-check of the compiled proofs
    rc, out = ctx.go_test(PKG, "TestVerifC18$", OVERLAY,
                          env={"VERIF_OUT": casefile, "VERIF_TIER": tier, "VERIF_SEED": str(seed)}, timeout=2400)
    if not casefile.endswith("cases_search.txt"):
        # fixed corpus: the four witnesses of the repaired RSA defect must be refused by the real code
        cov = read_cov(casefile)
        refused = sum(v for k, v in cov.items() if k.startswith("corpus.") and k.endswith(".refused"))
        bad = [k for k in cov if k.startswith("corpus.") and k.endswith(".NOT_REFUSED")]
        ctx.obligations.append(("corpus:RSA witnesses refused (%d/4)" % refused, refused == 4 and not bad, ", ".join(bad)))
    return rc, out


def warm(ctx):
    rc, out = ctx.go_test(PKG, "TestVerifNothing$", OVERLAY, timeout=1500)
    if rc != 0:
        ctx.obligations.append(("harness:compile", False, out[-1500:]))


def replay_harness(ctx, casefile, toks):
    if os.path.exists(casefile):
        os.remove(casefile)
    if toks[0] == 3:
        return 0, "dial cases are not re-executed (the verdict on the recorded observations is shown)"
    return ctx.go_test(PKG, "TestVerifC18Replay$", OVERLAY,
                       env={"VERIF_OUT": casefile, "VERIF_REPLAY_CASE": " ".join(map(str, toks))}, timeout=600)


CLAUSES = {
    1: "served certificate not valid for >= skew before and after the instant",
    2: "served certificate valid for more than 14 days",
    3: "the advertised address (AddrComponent / listener multiaddr) lacks the hash of the served certificate",
    4: "SerializedCertHashes lacks the hash of the served certificate",
    5: "an address read earlier lacks the certificate served in its current/following period",
    6: "a SerializedCertHashes list read earlier lacks the certificate served in its current/following period",
    7: "two different certificates for one (key, start, end)",
    8: "a freshly started manager serves another certificate than the running one",
    9: "an address given out earlier by this (not restarted) manager is no longer confirmed in the handshake during its current/following period",
    10: "verifier accepted an empty chain",
    11: "verifier accepted a certificate whose SHA-256 is not in the address",
    12: "verifier accepted bytes that are not a certificate",
    13: "verifier accepted an RSA certificate",
    14: "verifier accepted a certificate valid for more than 14 days",
    15: "verifier accepted a certificate that is not currently valid",
    16: "dial completed although the server did not confirm every hash of the address",
    17: "a dial with an address learned from the running listener in its current/previous period did not complete",
}
LIFECYCLE = {1: "Listen on a UDP port in use: failed in the QUIC layer", 2: "Listen on a refused address: failed",
             3: "observed listener closed", 4: "Listen succeeded (same transport)",
             5: "further listener on the same transport (observed through it)",
             6: "Listen on the port of its own listener: failed in the QUIC layer"}


def _lifecycle(t):
    """lifecycle tokens of a timeline, in order: (code, index of the observation they precede)"""
    res, i, k = [], 4, 0
    try:
        while i < len(t):
            op = t[i]
            if op == 4:
                i += 4
                continue
            if op == 5:
                res.append((t[i + 1], k))
                i += 3
                continue
            i += 2 if op == 1 else 1
            i += 15
            i += 1 + 2 * t[i]
            i += 1 + 2 * t[i]
            k += 1
    except IndexError:
        pass
    return res


SIG = {0: "ECDSA", 1: "RSA-PKCS1v15", 2: "RSA-PSS", 3: "Ed25519"}
RES = {0: "accepted", 1: "no cert", 2: "hash mismatch", 3: "parse error", 4: "RSA", 5: "too long", 6: "not valid"}


def _plist(t, i):
    n = t[i]
    return [(t[i + 1 + 2 * k], t[i + 2 + 2 * k]) for k in range(n)], i + 1 + 2 * n


def _snap(t, i):
    s = {"t": t[i], "last": t[i + 2:i + 5] if t[i + 1] else None, "cur": t[i + 5:i + 8],
         "next": t[i + 9:i + 12] if t[i + 8] else None, "served": t[i + 12:i + 15]}
    s["ser"], j = _plist(t, i + 15)
    s["addr"], j = _plist(t, j)
    return s, j


def _chain(t, i):
    n = t[i]
    cs = []
    for k in range(n):
        c = t[i + 1 + 6 * k:i + 7 + 6 * k]
        cs.append({"id": c[0], "parses": c[1], "rsa_key": c[2], "sig": SIG.get(c[3], c[3]),
                   "notBefore-now_s": c[4] / 1e9, "notAfter-now_s": c[5] / 1e9})
    return cs, i + 1 + 6 * n


def describe(t):
    try:
        if t[0] in (1, 4, 5):
            evs, i = [], 4
            while i < len(t) and len(evs) < 14:
                op = t[i]
                if op == 5:
                    evs.append({"transport_operation": LIFECYCLE.get(t[i + 1], t[i + 1]), "ns_into_the_next_advance": t[i + 2]}); i += 3
                elif op == 0:
                    s, i = _snap(t, i + 1); evs.append({"init": s})
                elif op == 1:
                    s, j = _snap(t, i + 2); evs.append({"advance_ns": t[i + 1], "obs": s}); i = j
                elif op == 2:
                    s, i = _snap(t, i + 1); evs.append({"restart": s})
                elif op == 3:
                    s, i = _snap(t, i + 1); evs.append({"second_manager": s})
                elif op == 4:
                    evs.append({"generateCert": t[i + 1:i + 4]}); i += 4
                else:
                    break
            return {"kind": {1: "certManager timeline", 4: "certManager timeline before 1970+offset", 5: "listener timeline (served = leaf presented in a real handshake)"}[t[0]], "pubkey_bytes": t[1:3], "t0_ns": t[3], "events": evs}
        if t[0] == 2:
            ch, i = _chain(t, 1)
            hs, i = _plist(t, i)
            return {"kind": "verifyRawCerts", "chain": ch, "address_hashes(code,id)": hs, "result": RES.get(t[i], t[i])}
        if t[0] in (3, 6, 7):
            ch, i = _chain(t, 1 if t[0] == 3 else 2)
            ad, i = _plist(t, i)
            dec = t[i]
            sv, i = _plist(t, i + 1)
            return {"kind": "dial", "dialer": {0: "default transport", 1: "WithTLSClientConfig (no callback)", 2: "WithTLSClientConfig with a user VerifyPeerCertificate that accepts everything", 3: "WithTLSClientConfig{InsecureSkipVerify}", 4: "WithTLSClientConfig{RootCAs = the server's certificates}"}.get(t[1] if t[0] in (6, 7) else 0),
                    "genuine": t[0] == 7,
                    "server_chain": ch, "address_hashes(code,id)": ad, "server_list_decodes": dec,
                    "server_early_data(code,id)": sv,
                    "outcome": {0: "connected", 1: "refused by certificate check", 2: "refused in upgrade"}.get(t[i], t[i])}
    except (IndexError, TypeError):
        pass
    return {"raw": t[:120]}


def _rollovers(t):
    """number of changes of the served certificate's hash id along a timeline"""
    n, i, prev = 0, 4, None
    try:
        while i < len(t):
            op = t[i]
            if op == 4:
                i += 4
                continue
            if op == 5:
                i += 3
                continue
            i += 2 if op == 1 else 1
            h = t[i + 14]
            if prev is not None and h != prev:
                n += 1
            prev = h
            i += 15
            i += 1 + 2 * t[i]
            i += 1 + 2 * t[i]
    except IndexError:
        pass
    return n


def nontrivial(line):
    # a timeline is non-trivial when the served certificate changed at least once;
    # a verifier case when the outcome is not a plain hash mismatch; every dial is
    t = [int(x) for x in line.split()]
    if t[0] in (1, 4, 5):
        return _rollovers(t) >= 1
    return t[-1] != 2 if t[0] == 2 else True


def key(tag, toks, d):
    # identity = clause + call site + the canonical minimal input class
    if toks[0] in (2, 3, 6, 7) and len(d) >= 2:
        cl = d[1]
        site = "verifyRawCerts" if toks[0] == 2 else ("dial" if toks[0] == 3 else "dial(cfg=%d%s)" % (toks[1], ",genuine" if toks[0] == 7 else ""))
        if toks[2 if toks[0] in (6, 7) else 1] >= 2:
            # the judged certificate (first of the chain) is not the one the verifier inspected
            return "C18:%s:chain>=2:first-certificate:clause%d" % (site, cl)
        if cl == 13:
            return "C18:%s:accepts-RSA:rsa_key=%d:sig=%s" % (site, d[2], SIG.get(d[3], d[3]))
        return "C18:%s:clause%d" % (site, cl)
    if toks[0] == 5 and len(d) >= 3:
        return "C18:listener:clause%d:at-sample-%d:key-bytes=%d,%d:t0=%d" % (d[2], d[1], toks[1], toks[2], toks[3])
    if toks[0] in (1, 4) and len(d) >= 3:
        return "C18:certManager:clause%d:at-sample-%d:key-bytes=%d,%d:t0=%d" % (d[2], d[1], toks[1], toks[2], toks[3])
    return "C18:%s:%s" % (toks[0], d)


def what(tag, toks, d):
    if toks[0] in (2, 3, 6, 7) and len(d) >= 2:
        site = "verifyRawCerts" if toks[0] == 2 else ("Dial" if toks[0] == 3 else "Dial (dialer cfg %d%s)" % (toks[1], ", untampered listener after >= 1 rollover, address as its multiaddr carried it" if toks[0] == 7 else ""))
        return "%s: %s (diag %s)" % (site, CLAUSES.get(d[1], "?"), d)
    if len(d) >= 5 and d[2] == 9:
        return "%s timeline started at t0=%d: address learned at t=%d (sample %d) is not confirmed by the same manager's handshake list at t=%d (diag %s)" % (
            "listener (real handshakes)" if toks[0] == 5 else "certManager", toks[3], d[3], d[1], d[4], d)
    if len(d) >= 3:
        lc = [c for c, k in _lifecycle(toks) if k <= d[1]] if toks[0] == 5 else []
        pre = ""
        if lc:
            pre = " after these operations on the transport: " + "; ".join(LIFECYCLE.get(c, str(c)) for c in lc[:8])
        return "%s timeline: %s at sample %d%s (diag %s)" % ("listener (real handshakes)" if toks[0] == 5 else "certManager", CLAUSES.get(d[2], "?"), d[1], pre, d)
    return "diag %s" % d


if __name__ == "__main__":
    ctx = Ctx("C18")
    ctx.assumptions = [
        "the background timer fires exactly at End-skew (mock clock; in the harness every mock.Add runs inside a testing/synctest bubble, so each tick is fully processed before the clock moves on); lateness of a real runtime's timers is not modelled",
        "instants lie after 1970-01-01 + key offset + skew (< 1970-01-15T01:00Z): before that Go's truncating division in getCurrentBucketStartTime rounds the bucket up; such instants are exercised for conformance only (kind 4)",
        "certValidity and clockSkewAllowance are whole seconds (proved for the values in /repo, regenerated obligation c18_consts_wf): X.509 stores NotBefore/NotAfter with one-second resolution",
        "a certificate's hash is an injective function of (host key, requested start, requested end): SHA-256 collision freeness and the X.509/HKDF/ECDSA libraries enter as the Section variable H",
        "the verifier's view of a certificate is the record Model.xcert (hash id, parses, RSA public key, signature-algorithm class, NotBefore/NotAfter relative to time.Now()); crypto/x509 parsing itself is trusted",
        "the server certificate of a presented chain is its first entry (crypto/tls authenticates certs[0]; with InsecureSkipVerify the other entries are unrelated bytes); the model follows the code in which entry it inspects (regenerated verifyLeafLast)",
        "the Noise handshake delivers the server's early data authentically (C02/C19 territory); the dial cases run the real handshake over loopback QUIC",
    ]
    ctx.notes += [
        "outside the property text (see manifest level_note), reproduced and counted (input_distribution restart.dial_with_previous_period_address.outcome_2 vs running.dial_with_previous_period_address.outcome_0): after a restart lastConfig is nil, so a dial with an address learned in the previous period passes the certificate check (the served certificate is pinned, as the property states) but is refused in upgrade(), which demands confirmation of every hash of the address, not only of the one relied on",
    ]
    if ctx.replay_path:
        # a replay judges the recorded and the re-executed case with the constants of the tree it is
        # replayed against (gen/Consts_c18.v may be left over from a run against another VERIF_REPO)
        consts(ctx)
        ctx.end_consts()
        ctx.coq_build(["c18/Spec.vo"])
    standard_flow(ctx, dict(
        consts=consts,
        coq_targets=["c18/Properties.vo", "c18/Extract.vo"],
        props="c18/Properties.v",
        spec_module="c18.Spec",
        harness=harness,
        replay_harness=replay_harness, warm=warm,
        nontrivial=nontrivial,
        rule="timelines: a real certManager on a mock clock inside a synctest bubble, for Ed25519/secp256k1/ECDSA host keys and keys with chosen "
             "offset bytes (0, 1, validity-1, wrap points of the modulo), start instants on / 1 ns / 1 ms / 1 s around the roll instants and "
             "random, steps that land exactly on, 1 ns before and after the timer instant, full periods and random, 0-6+ rollovers, restarts, "
             "second managers started at the same instant and re-generated certificates; every snapshot (NotBefore/NotAfter/hash of last, "
             "current, next and of GetConfig's leaf, SerializedCertHashes, AddrComponent) is compared with the Coq model (conform_case) and "
             "judged by the property monitor (monitor_case). verifier: the full table flavour(ECDSA, RSA PKCS#1, RSA-PSS, RSA key under ECDSA "
             "issuer, ECDSA key under RSA issuer, Ed25519, garbage) x validity window (boundaries to the second, sub-second now) x hash-list "
             "variant (present, absent, other code with same digest, SHA-512, truncated, empty) x chain length 0-3 under virtual time.Now(). "
             "listener timelines: a real transport.Listen on a mock clock that stays open across 0-4+ rollovers (also restarts and second nodes); at every "
             "sample a real QUIC/TLS handshake is made against it and the presented leaf (NotBefore/NotAfter/hash) together with the certhashes of "
             "listener.Multiaddr() is what the same monitor judges. "
             "transport lifecycle histories (same kind, same model, same monitor; the operations are recorded as lifecycle tokens the decoder drops): "
             "on ONE real transport, Listens that fail in the QUIC layer (UDP port in use, the port of its own listener) or are refused (no /webtransport, "
             "a /certhash) before the first successful Listen and at chosen offsets into an advance (ends, 1 ns around the rollover instant, random), the "
             "observed listener closed and a later Listen (the manager runs on with no listener open, also across rollover points), a further listener "
             "on the same transport, new and second transports; steered so that after a failed Listen at least one rollover point is always driven over "
             "and observed in a real handshake; 1-4+ rollovers per transport. "
             "dials: real Dial against a real listener on loopback after one exact rollover, addresses built from last/current/next/bogus/"
             "re-coded/two-periods-old hashes, servers that drop, re-code or garble their early-data hashes or present other certificates. "
             "A case is non-trivial when a rollover was observed (timelines) or the outcome is not a plain hash mismatch.",
        describe=describe, key=key, what=what, crosscheck=50,
    ))

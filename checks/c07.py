#!/usr/bin/env python3
"""C07 — stream protocol negotiation.  See DESIGN.md section 6 (C07)."""
import json, os, sys
sys.path.insert(0, os.path.join(os.path.dirname(os.path.abspath(__file__)), "..", "tools"))
from vlib import *

PKG = "p2p/host/basic"
OVERLAY = {
    PKG + "/zz_c07_verif_test.go": "harness/overlay/basichost/c07_verif_test.go",
    PKG + "/zz_c07_ops_verif_test.go": "harness/overlay/basichost/c07_ops_verif_test.go",
    PKG + "/zz_c07_gen_verif_test.go": "harness/overlay/basichost/c07_gen_verif_test.go",
    PKG + "/zz_c07_main_verif_test.go": "harness/overlay/basichost/c07_main_verif_test.go",
    PKG + "/zz_c07_blank_verif_test.go": "harness/overlay/basichost/c07_blank_verif_test.go",
    PKG + "/zz_c07_park_verif_test.go": "harness/overlay/basichost/c07_park_verif_test.go",
}
NAMES = ["/c07/a", "/c07/a/1.0.0", "/c07/a/1.1.0", "/c07/a/2.0.0", "/c07/ab", "/c07/b", "/c07/b/1.0.0", "/c07"]


FOPS = ["Write,Read", "Read(under way),Write", "SetDeadline,Read(under way),Write", "SetDeadline,Write,Read",
        "CloseWrite,Read", "Write,CloseWrite,Read", "CloseRead,Write", "Close"]


def harness(ctx, casefile, tier, seed):
    probe = casefile + ".probe"
    if os.path.exists(probe):
        os.remove(probe)
    rc, out = ctx.go_test(PKG, "TestVerifC07$", OVERLAY,
                          env={"VERIF_OUT": casefile, "VERIF_TIER": tier, "VERIF_SEED": str(seed)}, timeout=2400)
    if casefile.endswith("cases.txt"):
        judge_blank_probe(ctx, probe)
    return rc, out


def judge_blank_probe(ctx, probe):
    """p2p/host/blank (an anchor, not part of the modelled op language) is driven by a fixed probe in the
    two situations where it differs observably from the basic host (a protocol scope refusing the stream,
    listener side / dialer side).  The probe writes its two traces in the normal wire format; they are
    judged by the extracted property monitor only (the model transcribes the basic host)."""
    exe = os.path.join(COQ, "extract", "c07_driver")
    if not (os.path.exists(probe) and os.path.exists(exe)):
        ctx.obligations.append(("probe:blankhost", False, "probe file or driver missing"))
        return
    res = ctx.run_driver(exe, probe, mode="monitor")
    ok = res["done"] is not None and res["done"][0] == 2  # both corpus traces must be present
    ctx.obligations.append(("probe:blankhost (2 traces judged by the monitor)", ok, "" if ok else str(res)[:300]))
    for ln, d in res["M"]:
        toks = get_line(probe, ln)
        k = "C07:blankhost:" + key("M", toks, d)
        ctx.report_failure(k, "BlankHost probe trace (a protocol scope refusing the stream) rejected by the monitor: " + what("M", toks, d), {
            "kind": "property fails on the blank host's own trace (monitor); blank host is outside the model",
            "case": toks, "decoded": describe(toks), "diag": d})
    ctx.notes.append("blank-host probe: %d of 2 traces rejected by the monitor" % len(res["M"]))


def warm(ctx):
    rc, out = ctx.go_test(PKG, "TestVerifNothing$", OVERLAY, timeout=1500)
    if rc != 0:
        ctx.obligations.append(("harness:compile", False, out[-1500:]))


def replay_harness(ctx, casefile, toks):
    return ctx.go_test(PKG, "TestVerifC07Replay$", OVERLAY,
                       env={"VERIF_OUT": casefile, "VERIF_REPLAY_CASE": " ".join(map(str, toks))}, timeout=600)


def parse(t):
    """-> (header dict, [op dict]) ; raises on malformed"""
    U = t[3]
    hd = {"hosts": {0: "mocknet", 1: "tcp+noise+yamux", 2: "tcp+noise+yamux via circuit-v2 relay", 3: "mocknet, BlankHost listener",
                    4: "tcp+noise+yamux, negotiation timeout 300ms", 5: "tcp+noise+yamux, real rcmgr, BlankHost listener", 6: "tcp+noise+yamux, real rcmgr, BlankHost dialer", 9: "BlankHost probe (tcp, real rcmgr)"}.get(t[1], t[1]), "rcmgr": bool(t[2] & 1), "limited_conn": bool(t[2] & 2), "U": U,
          "limD": t[4:4 + U], "limL": t[4 + U:4 + 2 * U]}
    i = 4 + 2 * U
    ops = []

    def lst():
        nonlocal i
        k = t[i]
        v = t[i + 1:i + 1 + k]
        i += 1 + k
        return v
    while i < len(t):
        c = t[i]
        if c in (1, 3):
            name = t[i + 1]
            i += 2
            ops.append({"op": "SetStreamHandler" if c == 1 else "RemoveStreamHandler", "name": name, "mux": lst()})
        elif c == 2:
            name = t[i + 1]
            i += 2
            acc = lst()
            ops.append({"op": "SetStreamHandlerMatch", "name": name, "accepts": acc, "mux": lst()})
        elif c == 4:
            i += 1
            k = lst()
            ops.append({"op": "SetKnowledge", "k": k, "know": lst()})
        elif c in (5, 9):
            n = t[i + 1]
            i += 2
            reqs, modes = [], []
            for _ in range(n):
                modes.append(t[i])
                i += 1
                reqs.append(lst())
            mx = lst() if c == 9 else None
            res = []
            for _ in range(n):
                res.append(dict(zip(("res", "dp", "use", "h", "lp", "ninv", "hreg", "hlp"), t[i:i + 8])))
                i += 8
            u = t[i]
            un = [t[i + 1 + 2 * j:i + 3 + 2 * j] for j in range(u)]
            i += 1 + 2 * u
            kn = lst()
            sc = t[i:i + 2 * U]
            i += 2 * U
            ops.append({"op": "Open" if c == 5 else "ParkedOpens(registered in this order; then the listener dials directly)",
                        "context_ends_while_parked": [(m >> 5) & 1 for m in modes], "listener_advertises": mx,
                        "reqs": reqs, "allow_limited": [m & 1 for m in modes],
                        "late_exchange": [(m >> 1) & 1 for m in modes],
                        "first_ops": [FOPS[(m >> 2) & 7] for m in modes], "results": res, "unattributed": un, "know": kn,
                        "outD": sc[:U], "inL": sc[U:]})
        elif c == 6:
            ops.append({"op": "Close", "slot": t[i + 1], "how": t[i + 2], "outD": t[i + 3:i + 3 + U],
                        "inL": t[i + 3 + U:i + 3 + 2 * U]})
            i += 3 + 2 * U
        elif c == 8:
            ops.append({"op": "SetProtocolAgain", "slot": t[i + 1], "end": "dialer" if t[i + 2] == 0 else "listener", "q": t[i + 3],
                        "refused": t[i + 4], "dialer_reports": t[i + 5], "listener_reports": t[i + 6]})
            i += 7
        elif c == 7:
            d, wt = t[i + 1], t[i + 2]
            i += 3
            mx = lst()
            ops.append({"op": "Reconnect", "dialed_by": "dialer's swarm" if d == 0 else "listener", "identify_awaited": bool(wt),
                        "mux": mx, "outD": t[i:i + U], "inL": t[i + U:i + 2 * U]})
            i += 2 * U
        else:
            raise ValueError("bad op")
    return hd, ops


def describe(t):
    try:
        hd, ops = parse(t)
        return {"protocols": NAMES[:hd["U"]], "header": hd, "ops": ops[:40]}
    except Exception:
        return {"raw": t[:200]}


def nontrivial(line):
    # a case is non-trivial when at least one stream was obtained (res 0, use 1) and at
    # least one open failed: cheap textual test on the decoded ops
    try:
        _, ops = parse([int(x) for x in line.split()])
    except Exception:
        return False
    ok = bad = False
    for o in ops:
        if o["op"].startswith(("Open", "Parked")):
            for r in o["results"]:
                if r["res"] == 0 and r["use"] == 1:
                    ok = True
                else:
                    bad = True
    return ok and bad


def key(tag, toks, d):
    # identity of a failure: the failing op (index d[1]) with its live handler table,
    # knowledge and observation, independent of the rest of the history
    try:
        hd, ops = parse(toks)
        idx = d[1] if len(d) > 1 else 0
        o = ops[idx]
        tab = {}
        know = []
        for p in ops[:idx]:
            if p["op"] == "SetStreamHandler":
                tab.pop(p["name"], None)
                tab[p["name"]] = [p["name"]]
            elif p["op"] == "SetStreamHandlerMatch":
                tab.pop(p["name"], None)
                tab[p["name"]] = p["accepts"]
            elif p["op"] == "RemoveStreamHandler":
                tab.pop(p["name"], None)
            elif p["op"] in ("SetKnowledge", "Open") or p["op"].startswith("Parked"):
                know = p["know"]
            elif p["op"] == "Reconnect":
                know = ["fresh"] + p["mux"]
        if o["op"].startswith("Parked"):
            obs = [[r[k] for k in ("res", "dp", "use", "lp", "ninv", "hlp")] for r in o["results"]]
            return "C07:parked-opens:table=%s:advertised=%s:reqs=%s:ctx_ends=%s:obs=%s:un=%d" % (
                list(tab.items()), o["listener_advertises"], o["reqs"], o["context_ends_while_parked"], obs, len(o["unattributed"]))
        if o["op"] == "Open":
            obs = [[r[k] for k in ("res", "dp", "use", "lp", "ninv", "hlp")] for r in o["results"]]
            return "C07:open:rcmgr=%d:limited=%d:table=%s:know=%s:reqs=%s:allow=%s:obs=%s:un=%d" % (
                hd["rcmgr"], hd["limited_conn"], list(tab.items()), know, o["reqs"],
                [[a, f] for a, f in zip(o["allow_limited"], o["first_ops"])], obs, len(o["unattributed"]))
        if o["op"] == "SetProtocolAgain":
            return "C07:setprotocol-again:rcmgr=%d:end=%s:refused=%s:labels_kept=%s" % (
                hd["rcmgr"], o["end"], o["refused"], o["dialer_reports"] == o["listener_reports"])
        return "C07:%s:%s" % (o["op"], d)
    except Exception:
        return "C07:%s:%s" % (tag, " ".join(map(str, toks[:120])))


def what(tag, toks, d):
    op = ""
    try:
        _, ops = parse(toks)
        o = ops[d[1]]
        if o["op"].startswith("Parked"):
            op = ": NewStream%s parked on the limited connection, context ends while parked %s, then a direct connection -> %s" % (
                o["reqs"], o["context_ends_while_parked"], [[r[k] for k in ("res", "dp", "use", "lp")] for r in o["results"]])
        elif o["op"] == "Open":
            op = ": NewStream%s first ops %s -> %s" % (o["reqs"], o["first_ops"],
                                                      [[r[k] for k in ("res", "dp", "use", "lp")] for r in o["results"]])
        else:
            op = ": " + json.dumps(o)[:160]
    except Exception:
        pass
    return "negotiation trace violates the property at op %s (diag %s)%s" % (d[1] if len(d) > 1 else "?", d, op)


if __name__ == "__main__":
    ctx = Ctx("C07")
    ctx.assumptions = [
        "go-multistream is a trusted dependency: SelectOneOf/Negotiate and the lazy NewMSSelect enter the model as Section variables with their documented behaviour (the listener acknowledges the first proposal it has a handler for; a lazy select fails on first use iff the listener has no handler), instantiated once executably; the correspondence runs the real library",
        "protocol IDs are small integers naming 8 real IDs with overlapping prefixes; a match function is the finite set of universe IDs it accepts (computed by evaluating the real function)",
        "the dialer's knowledge is whatever the peerstore holds: identify push is switched off on both hosts so that the harness controls it (unknown / accurate / stale snapshot / arbitrary) together with NewStream's own AddProtocols",
        "application bytes written on the optimistic path before the handshake completed are not themselves a well-formed multistream token naming a protocol the listener serves (the payload is 9 bytes: 0x00 or 0x20, then the nonce)",
        "concurrent opens: the handler table is fixed during a batch; the interleaving of peerstore reads/AddProtocols is a free parameter of the model (every subset), scope limits inside a concurrent batch are modelled in index order only (the generator keeps limited protocols out of concurrent batches)",
        "limited vs direct: one world reaches the listener only through a circuit-v2 relay (limited connection); the model has the gate of Swarm/Conn.NewStream (limited and context without WithAllowLimitedConn -> the open fails) and the waiter list of Swarm.waitForDirectConn for opens parked until a direct connection exists (register in order, a context that ends removes its own entry only, the direct connection wakes every entry left); how a direct connection comes about (hole punching, connection reversal) is C12's subject: in the park op the listener simply dials the dialer; outside the park op every open goes over the single connection between the two hosts",
        "park op: the harness sees each open waiting in waitForDirectConn (goroutine dump) before the next one starts, ends a context by cancelling it (the code waits on ctx.Done(), a deadline and a cancellation are the same event) and awaits the direct connection; opens whose context it does not end carry a 10 min deadline, so 'still within its deadline when the direct connection appears' holds by construction; an open not woken within 8 s after the direct connection is up and identified is recorded as failed (the harness deadline; would show as a violation under extreme load); identify on the direct connection replaces the dialer's knowledge by what the listener advertises (as in the reconnect op) - the harness first asks the listener's identify service over the limited connection until its snapshot has caught up with the muxer, so no stale snapshot is delivered; the streams obtained are closed and the direct connection is closed again before the next op",
        "the dialer's first operations are not a parameter of the model: whatever their order, a stream bound to a served protocol must work (answer received, or for CloseRead-first the handler's own record of the nonce); Close as the very first operation is driven in the worlds without scope columns (mocknet) and judged on the listener (the handler registered for the protocol runs and finds EOF; the stream is recorded as obtained and closed at once); half-close variants run on the TCP worlds only (mocknet drops a half-closed stream from the connection); a handler whose dialer half-closed without sending answers all the same (sequential opens only)",
        "SetProtocol-again is judged only where real resource managers run (a stream scope attached to a protocol refuses re-attachment and the label must stay); without scopes (mocknet) the label is overwritten by design and the op is not generated",
        "liveness clause: with a protocol in common the open must produce a working stream unless (a) a requested ID is listed by the dialer's earlier knowledge and no longer served, (b) a requested protocol's scope is at its limit on either side, or (c) the only connection is limited and the caller did not opt in - for an open parked until a direct connection exists (c) holds only if its own context ended before that connection appeared; a harness deadline (4 s per open, 6 s per read) under extreme load would show as a violation",
        "scope clause is exact: each protocol scope changes by precisely the obtained streams bound to it (refused or failed streams are charged nowhere); per-peer protocol limits are used on the listener for odd IDs with the protocol-wide limit one higher, which with a single remote peer gives the same effective limit the model uses",
        "a BlankHost dialer (world 6) is modelled as NewStream without the optimistic path; no reconnects there (it does not wait for identify and does not use the knowledge)",
        "reconnect: the model takes the dialer's knowledge on a fresh connection to be what the listener's muxer advertises (identify replaces the peerstore entry and NewStream waits for it); the harness keeps the handler table fixed between a racing reconnect and the open that follows it",
        "p2p/host/blank as a listener without scope limits behaves like the basic host's listener side and runs in the generated histories (world 3; its identify is not served, so no reconnects there); BlankHost.NewStream and scope limits are outside the model; a fixed probe records its traces under a refusing protocol scope on every run (fixed corpus case) and the monitor judges them; repaired in /repo by e4bf9e3, a regression is reported as VIOLATION",
    ]
    standard_flow(ctx, dict(
        coq_targets=["c07/Properties.vo", "c07/Extract.vo"],
        props="c07/Properties.v",
        spec_module="c07.Spec",
        harness=harness,
        replay_harness=replay_harness, warm=warm,
        nontrivial=nontrivial,
        rule="seeded random histories (8-30 ops) over two real hosts, cycling through six worlds: mocknet; TCP+noise+yamux "
             "(libp2p.New) with real resource managers without limits; the same with per-protocol stream limits on both sides; the same "
             "through a circuit-v2 relay (limited connection); mocknet with a BlankHost listener; TCP with a 300 ms negotiation timeout; "
             "TCP with real resource managers and a BlankHost listener; the same with a BlankHost dialer. Listener limits of odd protocol IDs are "
             "per-peer protocol limits with a protocol-wide limit one higher. The dialer's first operations on the returned stream are drawn "
             "from {Write,Read | Read under way,Write | SetDeadline,Read,Write | SetDeadline,Write,Read | CloseWrite,Read | "
             "Write,CloseWrite,Read | CloseRead,Write | Close (mocknet worlds, judged on the listener)}; SetProtocol is tried once more on either end of held streams. "
             "In the relay world also: 1-4 opens without WithAllowLimitedConn parked one after the other in Swarm.waitForDirectConn (each seen waiting before the next starts), the contexts of a chosen subset ended while parked (in any order; directed: the first-parked gives up, the last-parked does not), then the listener dials the dialer directly: every open still parked is judged like any other open (liveness, agreement, accounting), the others are excused. "
             "Further ops: the connection is replaced below the host (swarm DialPeer from either side) with the next open racing the new "
             "connection's identify; opens whose application goes on exchanging bytes in both directions later (after the negotiation "
             "timeout where it is short). "
             "Ops: SetStreamHandler / SetStreamHandlerMatch (prefix, any-version, arbitrary-set match functions over 8 protocol IDs "
             "with overlapping prefixes), RemoveStreamHandler, peerstore knowledge set to unknown / accurate / stale snapshot / arbitrary, "
             "single opens with 0-4 ordered requested IDs, concurrent batches of 2-5 opens, close/reset of held streams. Observed per open: "
             "NewStream result, Protocol() on both ends, first-use result, the nonce echo naming the closure that ran, every handler "
             "invocation, the dialer's knowledge, and both protocol scopes' Stat() for all 8 protocols. Every observation is compared with "
             "the Coq model (conform_case) and judged by the property monitor (monitor_case). Non-trivial = a case with at least one "
             "obtained stream and at least one failed open; distinct = distinct case lines among those.",
        describe=describe, key=key, what=what, crosscheck=40,
    ))

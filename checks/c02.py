#!/usr/bin/env python3
"""C02 — secured connections and streams deliver bytes intact, in order, once."""
import os, sys
sys.path.insert(0, os.path.join(os.path.dirname(os.path.abspath(__file__)), "..", "tools"))
from vlib import *

OVERLAY = {"p2p/security/noise/zz_c02_verif_test.go": "harness/overlay/noise/c02_verif_test.go"}


def consts(ctx):
    ctx.gen_consts_go("p2p/security/noise", ["MaxPlaintextLength", "MaxTransportMsgLength", "LengthPrefixLength"],
                      extra_imports=["golang.org/x/crypto/chacha20poly1305"],
                      exprs={"chacha20poly1305_Overhead": "chacha20poly1305.Overhead"})


def harness(ctx, casefile, tier, seed):
    return ctx.go_test("p2p/security/noise", "TestVerifC02Noise$", OVERLAY,
                       env={"VERIF_OUT": casefile, "VERIF_TIER": tier, "VERIF_SEED": str(seed)}, timeout=2400)


def warm(ctx):
    rc, out = ctx.go_test("p2p/security/noise", "TestVerifNothing$", OVERLAY, timeout=1500)
    if rc != 0:
        ctx.obligations.append(("harness:compile", False, out[-1500:]))


EK = {0: "none", 1: "alter", 2: "truncate/misalign", 3: "drop", 4: "duplicate", 5: "swap"}


def describe(t):
    try:
        w = t[2]
        wl = t[3:3 + w]
        ek, ei, cl, nr = t[3 + w:7 + w]
        reads = t[7 + w:]
        rs = [{"buf": reads[i], "res": {0: "data", 1: "EOF", 2: "error"}.get(reads[i + 1]), "n": reads[i + 2], "ok": reads[i + 3]} for i in range(0, min(len(reads), 4 * 12), 4)]
        return {"stack": {1: "noise"}.get(t[0], t[0]), "writer_is_responder": t[1], "writes": wl, "edit": EK.get(ek, ek), "frame": ei, "reads(first 12)": rs, "reads_total": nr}
    except Exception:
        return {"raw": t[:60]}


def nontrivial(line):
    t = line.split()
    w = int(t[2])
    tot = sum(int(x) for x in t[3:3 + w])
    return tot > 65519 or t[3 + w] != b"0"   # more than one frame, or tampered


def key(tag, toks, d):
    w = toks[2]
    return "C02:%s:stack=%d:writes=%s:edit=%s@%s" % (tag, toks[0], toks[3:3 + w], toks[3 + w], toks[4 + w])


def what(tag, toks, d):
    dd = describe(toks)
    return "stack %s: writes %s, edit %s at frame %s: reader observations violate byte fidelity" % (dd.get("stack"), dd.get("writes"), dd.get("edit"), dd.get("frame"))


if __name__ == "__main__":
    ctx = Ctx("C02")
    ctx.assumptions = [
        "ideal AEAD (symbolic): a frame opens only if it is the writer's frame for exactly the nonce the reader expects; flynn/noise CipherState advances the nonce only on success",
        "io.ReadFull semantics for the underlying connection (short reads are invisible above it)",
    ]
    standard_flow(ctx, dict(
        consts=consts,
        coq_targets=["c02/Properties.vo", "c02/Extract.vo"],
        props="c02/Properties.v",
        spec_module="c02.Spec",
        harness=harness, warm=warm,
        nontrivial=nontrivial,
        rule="real Noise sessions over an in-memory connection with a frame-aware proxy: every boundary payload length (0,1,..,65518..65520,65534..65536,131037..131039,3*65519+1) x every buffer size "
             "(2..17, 65518..65520, 65534..65536, 70000), random splits into <=4 writes with mixed buffer patterns, short-read patterns on the raw connection, both directions; "
             "tampering: for every frame of multi-frame payloads, byte flips (first/last/middle ciphertext byte, length prefix), truncation by 1/16/17 bytes, drop, duplicate, swap. "
             "Each Read's (result, n, content-matches-written-stream) is compared with the Coq model of rw.go and judged by the byte-fidelity monitor. Non-trivial = more than one frame or tampered.",
        describe=describe, key=key, what=what, crosscheck=40,
    ))

#!/usr/bin/env python3
"""C02 — secured connections and streams deliver bytes intact, in order, once."""
import os, sys
sys.path.insert(0, os.path.join(os.path.dirname(os.path.abspath(__file__)), "..", "tools"))
from vlib import *

OVERLAY = {"p2p/security/noise/zz_c02_verif_test.go": "harness/overlay/noise/c02_verif_test.go",
           "p2p/net/pnet/zz_c02_verif_test.go": "harness/overlay/c02/pnet_verif_test.go",
           "p2p/transport/tcpreuse/internal/sampledconn/zz_c02_verif_test.go": "harness/overlay/c02/sampled_verif_test.go",
           "p2p/security/tls/zz_c02_verif_test.go": "harness/overlay/c02/tls_verif_test.go",
           "p2p/muxer/yamux/zz_c02_verif_test.go": "harness/overlay/c02/yamux_verif_test.go",
           "zz_c02_host_verif_test.go": "harness/overlay/c02/host_verif_test.go"}

SUITES = [("p2p/security/noise", "TestVerifC02Noise$"), ("p2p/net/pnet", "TestVerifC02Pnet$"),
          ("p2p/transport/tcpreuse/internal/sampledconn", "TestVerifC02Sampled$"), ("p2p/security/tls", "TestVerifC02TLS$"),
          ("p2p/muxer/yamux", "TestVerifC02Yamux$"), (".", "TestVerifC02Host$")]


def consts(ctx):
    ctx.gen_consts_go("p2p/security/noise", ["MaxPlaintextLength", "MaxTransportMsgLength", "LengthPrefixLength"],
                      extra_imports=["golang.org/x/crypto/chacha20poly1305"],
                      exprs={"chacha20poly1305_Overhead": "chacha20poly1305.Overhead"})


def harness(ctx, casefile, tier, seed):
    """one go test per stack, each writing its own case file; concatenated"""
    rc_all, out_all = 0, ""
    parts = []
    cov = {}
    for pkg, run in SUITES:
        part = casefile + "." + run.strip("$")
        for p in (part, part + ".cov"):
            if os.path.exists(p):
                os.remove(p)
        rc, out = ctx.go_test(pkg, run, OVERLAY, env={"VERIF_OUT": part, "VERIF_TIER": tier, "VERIF_SEED": str(seed)}, timeout=2400)
        if rc != 0 or not os.path.exists(part):
            rc_all = rc or 1
            out_all += "\n== %s %s rc=%d\n%s" % (pkg, run, rc, out[-1500:])
        if os.path.exists(part):
            parts.append(part)
            cov.update(read_cov(part))
    with open(casefile, "w") as f:
        for p in parts:
            f.write(open(p).read())
    with open(casefile + ".cov", "w") as f:
        for k in sorted(cov):
            f.write("%s %d\n" % (k, cov[k]))
    return rc_all, out_all


def warm(ctx):
    for pkg, run in SUITES:
        rc, out = ctx.go_test(pkg, "TestVerifNothing$", OVERLAY, timeout=1500)
        if rc != 0:
            ctx.obligations.append(("harness:compile:" + pkg, False, out[-1500:]))


EK = {0: "none", 1: "alter", 2: "truncate/misalign", 3: "drop", 4: "duplicate", 5: "swap"}


def describe(t):
    try:
        w = t[2]
        wl = t[3:3 + w]
        ek, ei, cl, nr = t[3 + w:7 + w]
        reads = t[7 + w:]
        rs = [{"buf": reads[i], "res": {0: "data", 1: "EOF", 2: "error"}.get(reads[i + 1]), "n": reads[i + 2], "ok": reads[i + 3]} for i in range(0, min(len(reads), 4 * 12), 4)]
        return {"stack": {1: "noise", 2: "tls", 3: "pnet", 4: "sampledconn (cfg: 0 Read, 1 io.Copy, 2 Read then io.Copy)", 5: "yamux stream", 6: "host stream (TCP+noise/tls+yamux)"}.get(t[0], t[0]), "writer_is_responder": t[1], "writes": wl, "edit": EK.get(ek, ek), "frame": ei, "reads(first 12)": rs, "reads_total": nr}
    except Exception:
        return {"raw": t[:60]}


def nontrivial(line):
    t = line.split()
    w = int(t[2])
    tot = sum(int(x) for x in t[3:3 + w])
    return tot > 65519 or t[3 + w] != b"0" or t[0] != b"1"   # more than one frame, tampered, or another stack


def key(tag, toks, d):
    w = toks[2]
    return "C02:%s:stack=%d:writes=%s:edit=%s@%s" % (tag, toks[0], toks[3:3 + w], toks[3 + w], toks[4 + w])


def what(tag, toks, d):
    dd = describe(toks)
    return "stack %s: writes %s, edit %s at frame %s: reader observations violate byte fidelity" % (dd.get("stack"), dd.get("writes"), dd.get("edit"), dd.get("frame"))


if __name__ == "__main__":
    ctx = Ctx("C02")
    ctx.assumptions = [
        "ideal AEAD (symbolic): a frame opens only if it is the writer's frame for exactly the nonce the reader expects; flynn/noise CipherState advances the nonce only on success",
        "io.ReadFull semantics for the underlying connection (short reads are invisible above it)",
    ]
    standard_flow(ctx, dict(
        consts=consts,
        coq_targets=["c02/Properties.vo", "c02/Extract.vo"],
        props="c02/Properties.v",
        spec_module="c02.Spec",
        harness=harness, warm=warm,
        nontrivial=nontrivial,
        rule="real Noise sessions over an in-memory connection with a frame-aware proxy: every boundary payload length (0,1,..,65518..65520,65534..65536,131037..131039,3*65519+1) x every buffer size "
             "(2..17, 65518..65520, 65534..65536, 70000), random splits into <=4 writes with mixed buffer patterns, short-read patterns on the raw connection, both directions; "
             "tampering: for every frame of multi-frame payloads, byte flips (first/last/middle ciphertext byte, length prefix), truncation by 1/16/17 bytes, drop, duplicate, swap. "
             "Each Read's (result, n, content-matches-written-stream) is compared with the Coq model of rw.go and judged by the byte-fidelity monitor. "
             "Other stacks (monitor only): TLS sessions, PSK (pnet) connections over TCP with short reads and over a scripted in-memory connection (last bytes returned together with io.EOF, "
             "first Write timing out before the nonce is sent and retried), tcpreuse sampled connections read through Read, io.Copy, both, and io.Copy interrupted by a read deadline "
             "after a 1-2 byte Read, yamux streams whose reader's deadline expired while more than half a window was buffered (bytes returned together with a timeout count), "
             "1-5 concurrent yamux streams per connection in both directions with half-close followed by further reads/writes, and host-to-host streams (TCP + Noise or TLS + yamux). "
             "Non-trivial = more than one Noise frame, tampered, or a non-Noise stack.",
        describe=describe, key=key, what=what, crosscheck=15,
    ))

#!/usr/bin/env python3
"""C02 — secured connections and streams deliver bytes intact, in order, once."""
import os, sys
sys.path.insert(0, os.path.join(os.path.dirname(os.path.abspath(__file__)), "..", "tools"))
from vlib import *

OVERLAY = {"p2p/security/noise/zz_c02_verif_test.go": "harness/overlay/noise/c02_verif_test.go",
           "p2p/net/pnet/zz_c02_verif_test.go": "harness/overlay/c02/pnet_verif_test.go",
           "p2p/transport/tcpreuse/internal/sampledconn/zz_c02_verif_test.go": "harness/overlay/c02/sampled_verif_test.go",
           "p2p/security/tls/zz_c02_verif_test.go": "harness/overlay/c02/tls_verif_test.go",
           "p2p/muxer/yamux/zz_c02_verif_test.go": "harness/overlay/c02/yamux_verif_test.go",
           "p2p/muxer/yamux/zz_c02_mux_verif_test.go": "harness/overlay/c02/mux_verif_test.go",
           "p2p/security/noise/zz_c02_cw_verif_test.go": "harness/overlay/c02/noise_cw_verif_test.go",
           "zz_c02_host_verif_test.go": "harness/overlay/c02/host_verif_test.go"}

SUITES = [("p2p/security/noise", "TestVerifC02Noise$"), ("p2p/security/noise", "TestVerifC02NoiseCW$"), ("p2p/net/pnet", "TestVerifC02Pnet$"),
          ("p2p/transport/tcpreuse/internal/sampledconn", "TestVerifC02Sampled$"), ("p2p/security/tls", "TestVerifC02TLS$"),
          ("p2p/muxer/yamux", "TestVerifC02Yamux$"), ("p2p/muxer/yamux", "TestVerifC02Mux$"), (".", "TestVerifC02Host$")]


def consts(ctx):
    ctx.gen_consts_go("p2p/security/noise", ["MaxPlaintextLength", "MaxTransportMsgLength", "LengthPrefixLength"],
                      extra_imports=["golang.org/x/crypto/chacha20poly1305"],
                      exprs={"chacha20poly1305_Overhead": "chacha20poly1305.Overhead"})
    # the yamux configuration go-libp2p really uses (p2p/muxer/yamux/transport.go: DefaultTransport)
    ctx.gen_consts_go("p2p/muxer/yamux", [],
                      exprs={"yamux_InitialStreamWindowSize": "DefaultTransport.Config().InitialStreamWindowSize",
                             "yamux_MaxStreamWindowSize": "DefaultTransport.Config().MaxStreamWindowSize",
                             "yamux_MaxMessageSize": "DefaultTransport.Config().MaxMessageSize"})


def harness(ctx, casefile, tier, seed):
    """one go test per stack, each writing its own case file; concatenated"""
    rc_all, out_all = 0, ""
    parts = []
    cov = {}
    for pkg, run in SUITES:
        part = casefile + "." + run.strip("$")
        for p in (part, part + ".cov"):
            if os.path.exists(p):
                os.remove(p)
        rc, out = ctx.go_test(pkg, run, OVERLAY, env={"VERIF_OUT": part, "VERIF_TIER": tier, "VERIF_SEED": str(seed)}, timeout=2400)
        if rc != 0 or not os.path.exists(part):
            rc_all = rc or 1
            out_all += "\n== %s %s rc=%d\n%s" % (pkg, run, rc, out[-1500:])
        if os.path.exists(part):
            parts.append(part)
            cov.update(read_cov(part))
    with open(casefile, "w") as f:
        for p in parts:
            f.write(open(p).read())
    with open(casefile + ".cov", "w") as f:
        for k in sorted(cov):
            f.write("%s %d\n" % (k, cov[k]))
    return rc_all, out_all


def warm(ctx):
    for pkg, run in SUITES:
        rc, out = ctx.go_test(pkg, "TestVerifNothing$", OVERLAY, timeout=1500)
        if rc != 0:
            ctx.obligations.append(("harness:compile:" + pkg, False, out[-1500:]))


EK = {0: "none", 1: "alter", 2: "truncate/misalign", 3: "drop", 4: "duplicate", 5: "swap"}


END7 = {0: "leave open", 1: "CloseWrite", 2: "Reset"}
RES = {0: "data", 1: "EOF", 2: "error"}


def parse7(t):
    """kind 7: 7 cfg NS (sid nw wlen.. endact wok)*NS NE (tag a b c d e)*NE -> (cfg, streams, events)"""
    t = [int(x) for x in t]
    cfg, ns = t[1], t[2]
    p = 3
    streams = []
    for _ in range(ns):
        sid, nw = t[p], t[p + 1]
        streams.append({"sid": sid, "writes": t[p + 2:p + 2 + nw], "end": t[p + 2 + nw], "wok": t[p + 3 + nw]})
        p += 4 + nw
    ne = t[p]
    p += 1
    events = [t[p + 6 * i:p + 6 * i + 6] for i in range(ne)]
    return cfg, streams, events


def describe7(t):
    cfg, streams, ev = parse7(t)
    fl = lambda f: "|".join(n for b, n in ((1, "SYN"), (2, "ACK"), (4, "FIN"), (8, "RST")) if f & b) or "-"
    reads = [e for e in ev if e[0] == 4]
    return {"stack": "yamux session with tapped frames (W writes, B reads; every W->B frame is handed over by the scheduler)",
            "writer_is": "client (odd stream ids)" if cfg % 10 == 0 else "server (even stream ids)",
            "aborted": cfg >= 10,
            "streams": [{"sid": s["sid"], "writes": s["writes"], "total": sum(s["writes"]), "end": END7.get(s["end"], s["end"]), "writer_ok": s["wok"]} for s in streams],
            "frames_W_to_B": sum(1 for e in ev if e[0] == 1), "data_frames_W_to_B": sum(1 for e in ev if e[0] == 1 and e[2] == 0),
            "frames_B_to_W": sum(1 for e in ev if e[0] == 2),
            "window_updates_B_to_W": [{"sid": e[1], "delta": e[4]} for e in ev if e[0] == 2 and e[2] == 1 and e[3] == 0][:12],
            "flagged_frames": [{"dir": "W->B" if e[0] == 1 else "B->W", "sid": e[1], "type": {0: "Data", 1: "WindowUpdate"}.get(e[2], e[2]), "flags": fl(e[3]), "len": e[4]} for e in ev if e[0] in (1, 2) and e[3] != 0][:16],
            "deliveries": sum(1 for e in ev if e[0] == 3),
            "reader_half_closes": [{"sid": e[1], "error": e[2]} for e in ev if e[0] == 5],
            "reads(first 12)": [{"sid": e[1], "buf": e[2], "res": RES.get(e[3], e[3]), "n": e[4], "ok": e[5]} for e in reads[:12]],
            "reads_total": len(reads), "events": len(ev)}


def parse8(t):
    """kind 8: 8 cfg K (nw len..)*K NR (wid start count)*NR res -> (cfg, writers, runs, res)"""
    t = [int(x) for x in t]
    cfg, k = t[1], t[2]
    p = 3
    writers = []
    for _ in range(k):
        nw = t[p]
        writers.append(t[p + 1:p + 1 + nw])
        p += 1 + nw
    nr = t[p]
    p += 1
    runs = [t[p + 3 * i:p + 3 * i + 3] for i in range(nr)]
    return cfg, writers, runs, t[p + 3 * nr]


def describe8(t):
    cfg, writers, runs, res = parse8(t)
    return {"stack": "noise session with several goroutines writing concurrently (every byte carries writer and position)",
            "writers_on": "initiator" if cfg == 0 else "responder", "write_sizes_per_writer": writers,
            "delivered_runs(first 24: writer, offset in its own stream, length)": runs[:24], "runs_total": len(runs),
            "reader_ended_with": {1: "EOF", 2: "error"}.get(res, res)}


def describe(t):
    try:
        if t[0] == 7:
            return describe7(t)
        if t[0] == 8:
            return describe8(t)
        w = t[2]
        wl = t[3:3 + w]
        ek, ei, cl, nr = t[3 + w:7 + w]
        reads = t[7 + w:]
        rs = [{"buf": reads[i], "res": {0: "data", 1: "EOF", 2: "error"}.get(reads[i + 1]), "n": reads[i + 2], "ok": reads[i + 3]} for i in range(0, min(len(reads), 4 * 12), 4)]
        return {"stack": {1: "noise", 2: "tls", 3: "pnet", 4: "sampledconn (cfg: 0 Read, 1 io.Copy, 2 Read then io.Copy)", 5: "yamux stream", 6: "host stream (TCP+noise/tls+yamux)"}.get(t[0], t[0]), "writer_is_responder": t[1], "writes": wl, "edit": EK.get(ek, ek), "frame": ei, "reads(first 12)": rs, "reads_total": nr}
    except Exception:
        return {"raw": t[:60]}


def nontrivial(line):
    t = line.split()
    if t[0] == b"8":
        return True
    if t[0] == b"7":
        try:
            _, streams, _ = parse7(t)
        except Exception:
            return False
        return len(streams) > 1 or any(sum(s["writes"]) > 65524 for s in streams)   # several streams or more than one Data frame
    w = int(t[2])
    tot = sum(int(x) for x in t[3:3 + w])
    return tot > 65519 or t[3 + w] != b"0" or t[0] != b"1"   # more than one frame, tampered, or another stack


def key(tag, toks, d):
    if toks[0] == 8:
        try:
            cfg, writers, runs, res = parse8(toks)
            return "C02:%s:stack=8:cfg=%d:writers=%s" % (tag, cfg, writers)
        except Exception:
            return "C02:%s:stack=8:malformed" % tag
    if toks[0] == 7:
        try:
            cfg, streams, _ = parse7(toks)
            return "C02:%s:stack=7:cfg=%d:streams=%s" % (tag, cfg, [(s["writes"], s["end"]) for s in streams])
        except Exception:
            return "C02:%s:stack=7:malformed" % tag
    w = toks[2]
    return "C02:%s:stack=%d:writes=%s:edit=%s@%s" % (tag, toks[0], toks[3:3 + w], toks[3 + w], toks[4 + w])


def what(tag, toks, d):
    if toks[0] == 8:
        try:
            cfg, writers, runs, res = parse8(toks)
            return "noise session, %d concurrent writers with write sizes %s: the delivered stream (%d runs, first %s) is not a sequence of whole writes / not everything arrived" % (len(writers), writers, len(runs), runs[:6])
        except Exception:
            return "noise session with concurrent writers (stack 8): malformed case line"
    if toks[0] == 7:
        try:
            cfg, streams, ev = parse7(toks)
            return "yamux session (writer is the %s): streams %s, %d tapped frames, %d reads: the frames / reader observations violate byte fidelity or flow control" % (
                "client" if cfg % 10 == 0 else "server", ", ".join("%d: writes %s then %s" % (s["sid"], s["writes"], END7.get(s["end"], s["end"])) for s in streams),
                sum(1 for e in ev if e[0] in (1, 2)), sum(1 for e in ev if e[0] == 4))
        except Exception:
            return "yamux session (stack 7): malformed case line"
    dd = describe(toks)
    return "stack %s: writes %s, edit %s at frame %s: reader observations violate byte fidelity" % (dd.get("stack"), dd.get("writes"), dd.get("edit"), dd.get("frame"))


if __name__ == "__main__":
    ctx = Ctx("C02")
    ctx.assumptions = [
        "ideal AEAD (symbolic): a frame opens only if it is the writer's frame for exactly the nonce the reader expects; flynn/noise CipherState advances the nonce only on success",
        "io.ReadFull semantics for the underlying connection (short reads are invisible above it)",
    ]
    standard_flow(ctx, dict(
        consts=consts,
        coq_targets=["c02/Properties.vo", "c02/Extract.vo"],
        props="c02/Properties.v",
        spec_module="c02.Spec",
        harness=harness, warm=warm,
        nontrivial=nontrivial,
        rule="real Noise sessions over an in-memory connection with a frame-aware proxy: every boundary payload length (0,1,..,65518..65520,65534..65536,131037..131039,3*65519+1) x every buffer size "
             "(2..17, 65518..65520, 65534..65536, 70000), random splits into <=4 writes with mixed buffer patterns, short-read patterns on the raw connection, both directions; "
             "tampering: for every frame of multi-frame payloads, byte flips (first/last/middle ciphertext byte, length prefix), truncation by 1/16/17 bytes, drop, duplicate, swap. "
             "Each Read's (result, n, content-matches-written-stream) is compared with the Coq model of rw.go and judged by the byte-fidelity monitor. "
             "Other stacks (monitor only): TLS sessions, PSK (pnet) connections over TCP with short reads and over a scripted in-memory connection (last bytes returned together with io.EOF, "
             "first Write timing out before the nonce is sent and retried), tcpreuse sampled connections read through Read, io.Copy, both, and io.Copy interrupted by a read deadline "
             "after a 1-2 byte Read, yamux streams whose reader's deadline expired while more than half a window was buffered (bytes returned together with a timeout count), "
             "1-5 concurrent yamux streams per connection in both directions with half-close followed by further reads/writes, and host-to-host streams (TCP + Noise or TLS + yamux). "
             "Tapped yamux sessions (stack 7): /repo's yamux transport, 1-4 streams per session in both client/server roles, over an in-memory connection whose tap parses every frame; "
             "each writer-to-reader frame is held in a queue and handed to the reader one at a time by the harness, which waits until the receive loop is blocked again on an empty connection, "
             "interleaved at random with the reader's Reads (buffers 1..300000), its own half-close, and the writer's FIN/RST; write sizes sit on the frame (65524) and window (262144) boundaries so that writers stall on the window. "
             "The whole frame log (both directions, with payload-matches-written-stream bits) and every Read result go into the case line. "
             "Noise sessions whose raw byte stream is re-chunked arbitrarily, in particular with handshake message 3 and the first transport frames returned by ONE Read of the responder's connection; "
             "Noise sessions with 2-4 goroutines writing concurrently on one connection, writes of several frames, every byte carrying writer and position, judged by 'the delivered stream is a sequence of whole writes' (stack 8); "
             "host streams whose listener-side in-line handler keeps reading after the negotiation timeout has passed. "
             "Non-trivial = more than one Noise frame, tampered, or a non-Noise stack (stack 7: more than one stream or more than one Data frame).",
        describe=describe, key=key, what=what, crosscheck=15,
    ))

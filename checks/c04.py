#!/usr/bin/env python3
"""C04 — every failed or finished connection/stream releases all it acquired.
Tie 1 (translator): tools/genpaths re-extracts every control-flow path of the
anchored functions from /repo on every run (coq/gen/Paths_c04.v); the balance
theorem is re-proved over them.  Tie 2 (fault enumeration): the real upgrader,
TCP transport and resource manager with a fault injected at every I/O index."""
import os, re, sys
sys.path.insert(0, os.path.join(os.path.dirname(os.path.abspath(__file__)), "..", "tools"))
from vlib import *

OVERLAY = {"p2p/net/upgrader/zz_c04_verif_test.go": "harness/overlay/c04/c04_verif_test.go",
           "p2p/net/upgrader/zz_c04_accept_verif_test.go": "harness/overlay/c04/c04_accept_verif_test.go",
           "zz_c04_streams_verif_test.go": "harness/overlay/c04/c04_streams_verif_test.go",
           "p2p/net/swarm/zz_c04_close_verif_test.go": "harness/overlay/swarm/c04_close_verif_test.go",
           "p2p/transport/tcpreuse/zz_c04_verif_test.go": "harness/overlay/c04/c04_tcpreuse_verif_test.go",
           "p2p/transport/quic/zz_c04_verif_test.go": "harness/overlay/c04/c04_quic_verif_test.go"}
SUITES = [("p2p/net/upgrader", "TestVerifC04$"), ("p2p/net/upgrader", "TestVerifC04Accept$"), (".", "TestVerifC04Streams$"), ("p2p/net/swarm", "TestVerifC04Close$"),
          ("p2p/transport/tcpreuse", "TestVerifC04Tcpreuse$"), ("p2p/transport/quic", "TestVerifC04Quic$")]

SPECS = [
    "upgrade_inner=p2p/net/upgrader/upgrader.go:upgrader.upgrade",
    "upgrade_outer=p2p/net/upgrader/upgrader.go:upgrader.Upgrade",
    "listener_go=p2p/net/upgrader/listener.go:listener.handleIncoming#go0",
    "gated_accept=p2p/net/upgrader/listener.go:gatedMaListener.Accept",
    "listener_accept=p2p/net/upgrader/listener.go:listener.Accept",
    "listener_loop=p2p/net/upgrader/listener.go:listener.handleIncoming",
    "listener_close=p2p/net/upgrader/listener.go:listener.Close",
    "host_streamhandler=p2p/host/basic/basic_host.go:BasicHost.newStreamHandler",
    "tcp_dial=p2p/transport/tcp/tcp.go:TcpTransport.DialWithUpdates",
    "tcp_dial_scope=p2p/transport/tcp/tcp.go:TcpTransport.dialWithScope",
    "ws_dial=p2p/transport/websocket/websocket.go:WebsocketTransport.Dial",
    "ws_dial_scope=p2p/transport/websocket/websocket.go:WebsocketTransport.dialWithScope",
    "quic_dial=p2p/transport/quic/transport.go:transport.Dial",
    "quic_dial_scope=p2p/transport/quic/transport.go:transport.dialWithScope",
    "quic_accept=p2p/transport/quic/listener.go:listener.Accept",
    "quic_wrap=p2p/transport/quic/listener.go:listener.wrapConn",
    "quic_wrap_scope=p2p/transport/quic/listener.go:listener.wrapConnWithScope",
    "conn_newstream=p2p/net/swarm/swarm_conn.go:Conn.NewStream",
    "conn_open_add=p2p/net/swarm/swarm_conn.go:Conn.openAndAddStream",
    "conn_addstream=p2p/net/swarm/swarm_conn.go:Conn.addStream",
    "conn_start_accept=p2p/net/swarm/swarm_conn.go:Conn.start#go0",
    "conn_start_handle=p2p/net/swarm/swarm_conn.go:Conn.start#go1",
    "host_newstream=p2p/host/basic/basic_host.go:BasicHost.NewStream",
    "swarm_addconn=p2p/net/swarm/swarm.go:Swarm.addConn",
    "swarm_listen_loop=p2p/net/swarm/swarm_listen.go:Swarm.AddListenAddr#go0",
    "swarm_listen_conn=p2p/net/swarm/swarm_listen.go:Swarm.AddListenAddr#go1",
    "swarm_dialaddr=p2p/net/swarm/swarm_dial.go:Swarm.dialAddr",
    "identify_conn=p2p/transport/tcpreuse/demultiplex.go:identifyConnType",
    "tcpreuse_run=p2p/transport/tcpreuse/listener.go:multiplexedListener.run",
    "tcpreuse_go=p2p/transport/tcpreuse/listener.go:multiplexedListener.run#go0",
    "wt_dial=p2p/transport/webtransport/transport.go:transport.Dial",
    "wt_dial_scope=p2p/transport/webtransport/transport.go:transport.dialWithScope",
    "wt_http=p2p/transport/webtransport/listener.go:listener.httpHandler",
    "wt_http_scope=p2p/transport/webtransport/listener.go:listener.httpHandlerWithConnScope",
    "relay_dial=p2p/protocol/circuitv2/client/transport.go:Client.Dial",
    "relay_dial_up=p2p/protocol/circuitv2/client/transport.go:Client.dialAndUpgrade",
    "rtc_cand=p2p/transport/webrtc/listener.go:listener.handleCandidate",
    "rtc_setup=p2p/transport/webrtc/listener.go:listener.setupConnection",
    "rtc_listen_go=p2p/transport/webrtc/listener.go:listener.listen#go0",
    "rtc_dial=p2p/transport/webrtc/transport.go:WebRTCTransport.Dial",
    "rtc_dial_inner=p2p/transport/webrtc/transport.go:WebRTCTransport.dial",
    "ws_serve=p2p/transport/websocket/listener.go:listener.ServeHTTP",
    "ws_netaccept=p2p/transport/websocket/listener.go:httpNetListener.Accept",
    "swarm_addlisten=p2p/net/swarm/swarm_listen.go:Swarm.AddListenAddr",
    "stream_close=p2p/net/swarm/swarm_stream.go:Stream.Close",
    "stream_reset=p2p/net/swarm/swarm_stream.go:Stream.Reset",
    "stream_reset_err=p2p/net/swarm/swarm_stream.go:Stream.ResetWithError",
]


def consts(ctx):
    out = os.path.join(COQ, "gen", "Paths_c04.v")
    tmp = out + ".new"
    rc, log = ctx.sh(["go", "run", os.path.join(VERIF, "tools/genpaths/main.go"), REPO, tmp] + SPECS, cwd=REPO, timeout=600)
    ok = rc == 0 and os.path.exists(tmp)
    if os.path.exists(tmp):
        new = open(tmp).read()
        old = open(out).read() if os.path.exists(out) else None
        if new != old:
            os.replace(tmp, out)
        else:
            os.remove(tmp)
        npaths = len(re.findall(r"^  \[", new, re.M))
        ctx.coverage_extra["extracted_paths"] = npaths
        ctx.coverage_extra["extracted_functions"] = len(SPECS)
    ctx.obligations.append(("genpaths:%d functions" % len(SPECS), ok, log[-1500:] if not ok else ""))


def unbalanced_report(ctx):
    """When the balance theorem no longer checks: ask the model which paths are unbalanced."""
    p = os.path.join(ctx.work, "report.v")
    with open(p, "w") as f:
        f.write("From Coq Require Import List String.\nFrom Verif Require Import c04.Events c04.Model c04.Spec.\n"
                "Eval vm_compute in (filter (fun x : string * list (nat * list string) => match snd x with nil => false | _ => true end) report).\n")
    rc, out = ctx.sh(["coqc", "-R", ".", "Verif", "-w", "none", p], cwd=COQ, timeout=600)
    return " ".join(out.split())[:3000]


def harness(ctx, casefile, tier, seed):
    rc_all, out_all, parts, cov = 0, "", [], {}
    for pkg, run in SUITES:
        part = casefile + "." + run.strip("$")
        for p in (part, part + ".cov"):
            if os.path.exists(p):
                os.remove(p)
        rc, out = ctx.go_test(pkg, run, OVERLAY, env={"VERIF_OUT": part, "VERIF_TIER": tier, "VERIF_SEED": str(seed)}, timeout=2400)
        if rc != 0 or not os.path.exists(part):
            rc_all = rc or 1
            out_all += "\n== %s %s rc=%d\n%s" % (pkg, run, rc, out[-1500:])
        if os.path.exists(part):
            parts.append(part)
            cov.update(read_cov(part))
    with open(casefile, "w") as f:
        for p in parts:
            f.write(open(p).read())
    with open(casefile + ".cov", "w") as f:
        for k in sorted(cov):
            f.write("%s %d\n" % (k, cov[k]))
    return rc_all, out_all


def warm(ctx):
    for pkg, run in SUITES:
        rc, out = ctx.go_test(pkg, "TestVerifNothing$", OVERLAY, timeout=1500)
        if rc != 0:
            ctx.obligations.append(("harness:compile:" + pkg, False, out[-1500:]))


KIND = {1: "outbound dial (TcpTransport.Dial > Upgrade)", 2: "inbound accept (upgrader listener)",
        3: "stream open (BasicHost.NewStream; cfg 0 = opener, 1 = remote host)", 4: "host Close (usage after close, listeners/conns gone)",
        6: "raw TCP client against the shared tcpreuse listener (only multistream registered)",
        7: "QUIC dial/accept (cfg 0 = dialing side, 1 = listening side)"}
FAULT = {0: "none", 1: "read error", 2: "write error", 3: "EOF", 4: "socket dies", 5: "stall until deadline",
         10: "none (protocol served)", 11: "no handler for the protocol", 12: "local rcmgr refuses the protocol scope", 13: "remote rcmgr refuses the protocol scope",
         14: "remote handler resets", 15: "context cancelled (served protocol)", 16: "context cancelled (unserved protocol)",
         17: "raw stream closed before protocol negotiation", 18: "garbage instead of protocol negotiation",
         19: "remote handler resets; this end finishes with Close", 20: "this end resets after the first write; the remote handler finishes with Close",
         200: "accept queue not served", 201: "remote closed while queued", 202: "listener closed with a parked connection"}
SPECIAL = {0: "", 1: "dial with empty peer ID", 2: "server gater rejects at InterceptSecured", 3: "client gater rejects at InterceptSecured",
           4: "server gater rejects at InterceptAccept", 5: "private network forced, no PSK", 6: "nobody accepts for longer than the accept timeout", 7: "the remote closes while the upgraded conn waits in the accept queue"}


def describe_close(t):
    """kind 5: close race on a real swarm (wire format in coq/c04/Close.v)"""
    try:
        n = t[1]
        i = 2
        conns = []
        for c in range(n):
            add_ok, closed, k = t[i:i + 3]
            i += 3
            ss = []
            for _ in range(k):
                ss.append({"addStream": {1: "registered", 0: "refused (conn closed)", 2: "no muxed stream created"}.get(t[i], t[i]),
                           "muxed stream released": t[i + 1]})
                i += 2
            conns.append({"addConn": "registered" if add_ok == 1 else "refused (swarm closed)", "fake conn closed": closed, "streams": ss})
        return {"attempt": "Swarm.Close racing with addConn / NewStream / Conn.Close", "conns": conns,
                "conns left in swarm": t[i], "system usage (conns, streams)": t[i + 1:i + 3]}
    except Exception:
        return {"raw": t}


TCPREUSE = {0: "client speaks HTTP (no listener for that type)", 1: "client sends a TLS ClientHello prefix (no listener for that type)",
            2: "client sends unknown bytes", 3: "client closes before any byte", 4: "client sends one byte and closes",
            5: "client sends one byte and stalls (identify timeout)", 6: "client sends nothing (identify timeout)", 7: "client speaks multistream (accepted, closed by the harness)",
            99: "summary after all attempts (usage must be zero)"}
QUICSC = {0: "none (connection established, closed by the harness)", 1: "server gater rejects at InterceptAccept", 2: "server gater rejects at InterceptSecured",
          3: "client gater rejects at InterceptSecured", 4: "server resource manager refuses the inbound connection", 5: "dial for the wrong peer ID",
          6: "hole punch given up exactly while the peer's connection is accepted and handed to the attempt (raw_closed 0 = the connection came out of neither Dial nor Accept)"}


ACCEV = {1: "raw listener Accept returned raw conn", 2: "the code closed raw conn", 3: "harness calls listener.Accept", 4: "listener.Accept returned conn",
         5: "listener.Accept returned the listener's error", 6: "harness calls listener.Close", 7: "listener.Close returned"}


def describe_accept(t):
    """kind 8: accept pipeline against listener.Close (wire format in coq/c04/Accept.v)"""
    try:
        n = t[8]
        conns = [{"conn": i, "handed over by Accept": t[9 + 2 * i], "raw conn closed at the end": t[10 + 2 * i]} for i in range(n)]
        j = 9 + 2 * n
        nev = t[j]
        evs = ["%s%s" % (ACCEV.get(t[j + 1 + 2 * k], t[j + 1 + 2 * k]), (" %d" % t[j + 2 + 2 * k]) if t[j + 1 + 2 * k] in (1, 2, 4) else "") for k in range(nev)]
        return {"attempt": "upgrader listener: in-flight accepts against listener.Close", "AcceptQueueLength": t[1], "raw listener closed": t[2],
                "usage_delta(conns,fd,mem,streams)": t[3:7], "goroutines_left": t[7], "conns": conns, "events in order": evs}
    except Exception:
        return {"raw": t}


def describe(t):
    if t and t[0] == 9:
        return {"attempt": "concurrent callers of Swarm.Close (closeOnce / refs; wire format in coq/c04/CloseOnce.v)", "callers whose Close returned": t[1] if len(t) > 1 else None,
                "per caller: every registered listener and connection was closed when its Close returned": t[2:]}
    if t and t[0] == 5:
        return describe_close(t)
    if t and t[0] == 8:
        return describe_accept(t)
    if len(t) == 12 and t[0] == 6:
        return {"attempt": KIND[6], "scenario": TCPREUSE.get(t[1], t[1]), "reported_error": t[4], "raw_conn_closed": t[5],
                "usage_delta(conns,fd,mem,streams)": t[7:11], "goroutines_left": t[11], "config": "", "special": "", "fault": TCPREUSE.get(t[1], t[1]), "at_io_index": 0}
    if len(t) == 12 and t[0] == 7:
        return {"attempt": KIND[7] + (" dialing side" if t[1] == 0 else " listening side"), "scenario": QUICSC.get(t[2] % 100, t[2]), "reported_error": t[4],
                "raw_conn_closed": t[5], "usage_delta(conns,fd,mem,streams)": t[7:11], "goroutines_left": t[11], "config": "", "special": "",
                "fault": QUICSC.get(t[2] % 100, t[2]), "at_io_index": 0}
    if len(t) != 12:
        return {"raw": t}
    fk = t[2]
    return {"attempt": KIND.get(t[0], t[0]), "config": {1: "noise", 2: "tls", 3: "noise+psk", 4: "tls+psk", 5: "noise+metrics", 10: "noise, muxer negotiated by multistream after the handshake"}.get(t[1] // 10, t[1] // 10),
            "special": SPECIAL.get(t[1] % 10, t[1] % 10),
            "fault": ("on the peer's end: " if fk >= 100 else "on this end: ") + FAULT.get(fk % 100, str(fk)), "at_io_index": t[3],
            "reported_error": t[4], "raw_conn_closed": t[5], "usage_delta(conns,fd,mem,streams)": t[7:11], "goroutines_left": t[11]}


def nontrivial(line):
    t = line.split()
    if t and t[0] in (b"5", b"8"):
        return True     # every close-race case races a Close with adds / in-flight accepts
    if t and t[0] == b"9":
        return len(t) > 3   # at least two concurrent callers of Close
    return len(t) == 12 and t[2] not in (b"0", b"100")   # a fault was injected


def key(tag, toks, d):
    if toks and toks[0] == 9:
        return "C04:%s:close-once:%s:%s" % (tag, " ".join(map(str, toks[1:20])), d)
    if toks and toks[0] == 8:
        return "C04:%s:accept-close:%s:%s" % (tag, " ".join(map(str, toks[1:80])), d)
    if toks and toks[0] == 5:
        return "C04:%s:close-race:%s:%s" % (tag, " ".join(map(str, toks[1:60])), d)
    return "C04:%s:kind=%d:cfg=%d:fault=%d@%d:%s" % (tag, toks[0], toks[1], toks[2], toks[3], d[4:])


def what(tag, toks, d):
    if toks and toks[0] == 9:
        return "Swarm.Close returned to a caller while a registered listener or connection was still open (per caller 1 = clean: %s)" % (toks[2:],)
    if toks and toks[0] == 8:
        return ("upgrader listener Close racing with in-flight accepts: something was left behind or the event order is not one the model allows "
                "(diag %s; for 902: all raw conns closed, usage back, no goroutine left, raw listener closed)" % (d,))
    if toks and toks[0] == 5:
        return "Swarm.Close racing with addConn/NewStream: something was left open (diag %s: conns closed, streams released, conns left, usage conns, usage streams)" % (d,)
    dd = describe(toks)
    return "%s, %s %s, fault %s at I/O #%s: raw closed=%s usage delta=%s goroutines left=%s" % (
        dd.get("attempt"), dd.get("config"), dd.get("special"), dd.get("fault"), dd.get("at_io_index"),
        dd.get("raw_conn_closed"), dd.get("usage_delta(conns,fd,mem,streams)"), dd.get("goroutines_left"))


if __name__ == "__main__":
    ctx = Ctx("C04")
    ctx.trusted.append("tools/genpaths (go/ast translator, ~720 lines; bounded loops unrolled 0, 1 and 2 times): emits Unknown for statement forms it does not know; "
                       "the effect tables in coq/c04/Model.v (which call closes/releases what) are hand-written and strict: "
                       "a call of a listed function that is in no table makes the path unbalanced")
    ctx.assumptions = [
        "closing any wrapper of the raw connection (pnet, secure, tracing conn) closes the raw connection; transportConn.Close closes the muxed conn and Dones the scope; Stream.Reset on a registered stream releases its scope (read from upgrader/conn.go, swarm_stream.go; exercised by the fault harness)",
        "goroutine termination and OS descriptors are observed by the fault harness, not proved; the fault harness drives TCP (noise/tls, psk) and real hosts; the QUIC, WebSocket, WebTransport, WebRTC, tcpreuse and relay-client paths are covered by the path theorem only",
        "in WebRTC setupConnection/dial the deferred `if err != nil { PeerConnection.Close() }` is interpreted with err != nil <=> the function returns an error (named result) and PeerConnection != nil <=> newWebRTCConnection succeeded",
        "swarm Close: the registry protocol of Swarm.conns / Conn.streams (add under the lock refuses when the map is nil; close takes the map and releases every item) is modelled as an LTS in coq/c04/Close.v, one step per critical section / release; listeners follow the same protocol (modelled, and raced in the close-race harness with a fake transport); closeOnce and the refs WaitGroup are modelled separately (coq/c04/CloseOnce.v: who may take a count and when; any returned caller implies close() finished and all counts given back) and tied by the kind-9 cases; the mutexes themselves are assumed to make each listed critical section atomic",
        "upgrader listener (coq/c04/Accept.v): one caller of Close and one caller of Accept at a time (what the swarm does); the WaitGroup and threshold counters are computed from the connections' states (Add/Done and Acquire/Release bracket exactly those states); Upgrade closing the raw conn on every error path is the path theorem's statement; a remote that dies while its connection waits in the queue is covered by the fault harness (kind 2, fault 201), not by the kind-8 traces",
    ]
    spec = dict(
        consts=consts,
        coq_targets=["c04/Properties.vo", "c04/Extract.vo"],
        props="c04/Properties.v",
        spec_module="c04.Spec",
        harness=harness, warm=warm,
        nontrivial=nontrivial,
        rule="fault enumeration on the real upgrader + TCP transport + resource manager (noise/tls x psk on/off): a fault-free dry run counts the "
             "reads and writes on each end of the raw connection; then for each end, each fault kind (read error, write error, EOF, socket dies, "
             "stall until deadline) and each I/O index k (all k for one configuration, first/last/sampled for the others in the quick tier; all in the "
             "thorough tier) one attempt; plus gater rejections at InterceptAccept/InterceptSecured on either side, an outbound dial with an empty peer "
             "ID, private network forced without PSK, metrics with a non-TCP raw conn. Two cases per attempt (one per end): error reported?, raw conn "
             "closed by the code?, system+transient usage delta, goroutines left. A fifth configuration has no early muxer negotiation (the muxer is negotiated by multistream after the "
             "handshake), so that every stage (security selection, handshake, muxer negotiation) has fault positions; stalls are injected at the first four, the middle and the last two read "
             "indices in the quick tier. Every dial runs under a watchdog: a call that has not returned 25 s after its 400 ms context ended (both ends silent) is written as a case like any other "
             "(raw conn not closed, usage not back, goroutines left), its sockets are closed under it, and after two such attempts the remaining fault positions are skipped; listener.Close and "
             "Swarm.Close are bounded the same way. Non-trivial = a fault was injected; distinct = distinct case lines. "
             "Close race (kind 5): a real Swarm with the real resource manager is given 1-5 fake upgraded connections through Swarm.addConn from concurrent "
             "goroutines, 0-3 Conn.NewStream each, random Conn.Close / Stream.Reset, while Swarm.Close runs at a seeded random point (seeded yields/sleeps); one connection in six has a muxer whose OpenStream blocks until the caller's context ends and its NewStream calls carry a 1-3 ms deadline (stream open ending in a deadline expiry inside the muxer); "
             "after everything returned: what each addConn/addStream answered, whether every fake conn / muxed stream was closed, Swarm.Conns(), system usage. "
             "The model (Close.v) is run on the schedule these answers determine and must end in the same per-item statuses. "
             "tcpreuse (kind 6): raw TCP clients against the real shared listener + gated listener + resource manager with only multistream registered (HTTP / TLS / unknown "
             "first bytes, close before 3 bytes, stall until the identify timeout, multistream). Accept pipeline (kind 8): the real upgrader listener (AcceptQueueLength 1-2) "
             "with the real resource manager gets 1-3 raw TCP connections whose remote side never starts the handshake / completes it / sends garbage, listener.Accept is called "
             "or not, the accept timeout is an hour or 40 ms, and listener.Close is called at a forced stage (raw conn accepted and upgrading; upgraded conns waiting to be handed over "
             "with one more parked at the threshold; after a hand-over with another Accept blocked; after the accept timeout) or at a seeded point of a shuffled script; the externally "
             "visible events are logged in order and the model (Accept.v) must accept the sequence (internal steps closed under tau) and end with Close returned and the same "
             "per-connection observations; the monitor requires every raw conn closed, usage back, no goroutine left, the raw listener closed. Concurrent Close (kind 9): in every "
             "close-race case 1-3 goroutines call Swarm.Close concurrently (fake listeners whose Close takes up to 3 ms); each notes, the moment its call returns, which fake connections and "
             "listeners are still open; one that turns out to have been registered (its add returned nil) makes the caller's entry 0. QUIC (kind 7): real transports over loopback with real resource managers, "
             "a gater rejecting at InterceptAccept / InterceptSecured on either side, the server's resource manager refusing, a dial for the wrong peer.",
        describe=describe, key=key, what=what, crosscheck=60, search_seeds=[],
    )
    # if the balance theorem breaks, put the model's list of unbalanced paths into the notes
    orig_build = ctx.coq_build

    def build_and_report(targets, **kw):
        ok = orig_build(targets, **kw)
        if not ok:
            rep = unbalanced_report(ctx)
            ctx.notes.append("unbalanced paths according to the model: " + rep)
            ctx.obligations = [(n, o, (d + " || UNBALANCED: " + rep) if (not o and n.startswith("coq:c04/Properties")) else d) for (n, o, d) in ctx.obligations]
        return ok
    ctx.coq_build = build_and_report
    standard_flow(ctx, spec)

#!/usr/bin/env python3
"""C10 — connection gater: blocked peers/addresses/subnets never obtain a connection; rules persist.
See DESIGN.md section 6 (C10)."""
import os, re, sys
sys.path.insert(0, os.path.join(os.path.dirname(os.path.abspath(__file__)), "..", "tools"))
from vlib import *

OV_GATER = {"p2p/net/conngater/zz_c10_verif_test.go": "harness/overlay/conngater/c10_verif_test.go",
            "p2p/net/conngater/zz_c10_e2e_verif_test.go": "harness/overlay/conngater/c10_e2e_verif_test.go"}
OV_E2E = OV_GATER

# ---- gate call sites, regenerated from the source on every run ---------------
# family code, name, files searched, direction the calls found there belong to
#   direction: 0 outbound path, 1 inbound path, 2 both (the upgrader's `dir` parameter)
GATES = {"InterceptPeerDial": 1, "InterceptAddrDial": 2, "InterceptAccept": 3,
         "InterceptSecured": 4, "InterceptUpgraded": 6}
FAMILIES = [
    (0, "swarm", ["p2p/net/swarm/swarm_dial.go", "p2p/net/swarm/swarm.go", "p2p/net/swarm/swarm_listen.go"]),
    (1, "upgrader(tcp,websocket)", ["p2p/net/upgrader/listener.go", "p2p/net/upgrader/upgrader.go"]),
    (2, "quic", ["p2p/transport/quic/listener.go", "p2p/transport/quic/transport.go"]),
    (3, "webtransport", ["p2p/transport/webtransport/listener.go", "p2p/transport/webtransport/transport.go"]),
    (4, "webrtc", ["p2p/transport/webrtc/listener.go", "p2p/transport/webrtc/transport.go"]),
]


def strip_go_comments(src):
    src = re.sub(r"/\*.*?\*/", lambda m: re.sub(r"[^\n]", " ", m.group(0)), src, flags=re.S)
    return re.sub(r"//[^\n]*", "", src)


def gate_sites():
    """[(family, gate code, file, enclosing func, line)].  gate code: 1 PeerDial 2 AddrDial 3 Accept
    4 SecuredInbound 5 SecuredOutbound 6 Upgraded.  A call `InterceptSecured(dir, ...)` with a
    direction variable counts for both directions."""
    sites = []
    for fam, name, files in FAMILIES:
        for rel in files:
            p = os.path.join(REPO, rel)
            if not os.path.exists(p):
                continue
            src = strip_go_comments(open(p, errors="replace").read())
            funcs = [(m.start(), m.group(1)) for m in re.finditer(r"^func\s+(?:\([^)]*\)\s*)?(\w+)", src, re.M)]
            for m in re.finditer(r"\.(Intercept(?:PeerDial|AddrDial|Accept|Secured|Upgraded))\s*\(\s*([^,)]*)", src):
                fn = "?"
                for pos, nm in funcs:
                    if pos < m.start():
                        fn = nm
                line = src.count("\n", 0, m.start()) + 1
                g = m.group(1)
                if g == "InterceptSecured":
                    arg = m.group(2).strip()
                    if "DirInbound" in arg:
                        codes = [4]
                    elif "DirOutbound" in arg:
                        codes = [5]
                    else:
                        codes = [4, 5]
                else:
                    codes = [GATES[g]]
                for c in codes:
                    sites.append((fam, c, rel, fn, line))
    return sites


# listener functions that pass an inbound connection on, the gates each is responsible for,
# and the statements by which it passes the connection on (regexes).  Codes in the emitted
# sequence: 3 InterceptAccept, 4 InterceptSecured(inbound), 5 InterceptSecured(outbound),
# 13 delegated GatedMaListener.Accept, 14 delegated upgrader.Upgrade, 9 hand-off, 99 expected
# hand-off pattern not found.
HANDOFFS = [
    (1, "p2p/net/upgrader/listener.go", "gatedMaListener.Accept", [3], [r"return\s+conn\s*,\s*connScope\s*,\s*nil"], []),
    (1, "p2p/net/upgrader/upgrader.go", "upgrader.upgrade", [4, 5], [r"return\s+tc\s*,\s*nil"], []),
    (1, "p2p/net/upgrader/listener.go", "listener.handleIncoming", [13, 14], [r"l\.incoming\s*<-\s*conn"],
     [(13, r"l\.GatedMaListener\.Accept\s*\("), (14, r"l\.upgrader\.Upgrade\s*\(")]),
    (2, "p2p/transport/quic/listener.go", "listener.Accept", [3, 4],
     [r"connCh\s*<-\s*c\b", r"return\s+c\s*,\s*nil"], []),
    (3, "p2p/transport/webtransport/listener.go", "listener.httpHandler", [3], [r"l\.httpHandlerWithConnScope\s*\("], []),
    (3, "p2p/transport/webtransport/listener.go", "listener.httpHandlerWithConnScope", [4], [r"l\.queue\s*<-\s*conn"], []),
    (4, "p2p/transport/webrtc/listener.go", "listener.handleCandidate", [3, 4], [r"return\s+conn\s*,\s*nil"], []),
]


def func_bodies(src):
    """{'recv.name' or 'name': (start, end)} for top-level funcs"""
    ms = list(re.finditer(r"^func\s+(?:\(\s*\w+\s+\*?(\w+)(?:\[[^\]]*\])?\s*\)\s*)?(\w+)", src, re.M))
    res = {}
    for i, m in enumerate(ms):
        name = (m.group(1) + "." if m.group(1) else "") + m.group(2)
        res[name] = (m.start(), ms[i + 1].start() if i + 1 < len(ms) else len(src))
    return res


def handoff_order():
    rows = []
    for fam, rel, fn, req, pats, extra in HANDOFFS:
        p = os.path.join(REPO, rel)
        seq = [99]
        if os.path.exists(p):
            src = strip_go_comments(open(p, errors="replace").read())
            fb = func_bodies(src)
            if fn in fb:
                a, b = fb[fn]
                body = src[a:b]
                items = []
                for m in re.finditer(r"\.(Intercept(?:Accept|Secured))\s*\(\s*([^,)]*)", body):
                    if m.group(1) == "InterceptAccept":
                        items.append((m.start(), 3))
                    else:
                        arg = m.group(2)
                        if "DirInbound" in arg:
                            items.append((m.start(), 4))
                        elif "DirOutbound" in arg:
                            items.append((m.start(), 5))
                        else:
                            items += [(m.start(), 4), (m.start(), 5)]
                for code, rx in extra:
                    items += [(m.start(), code) for m in re.finditer(rx, body)]
                for rx in pats:
                    found = [(m.start(), 9) for m in re.finditer(rx, body)]
                    items += found if found else [(len(body), 99)]
                seq = [c for _, c in sorted(items)]
        rows.append((fam, rel, fn, req, seq))
    return rows


def consts(ctx):
    rows = handoff_order()
    ctx.add_const_raw("Definition c10_handoff_order : list (Z * list Z * list Z) :=\n  [%s]." % ";\n   ".join(
        "(%d, [%s], [%s])" % (fam, "; ".join(map(str, req)), "; ".join(map(str, seq))) for fam, _, _, req, seq in rows),
        "gates and hand-offs (9) in source order inside the listener functions:\n" + "\n".join(
            "   family %d %s %s requires %s: %s" % (fam, rel, fn, req, seq) for fam, rel, fn, req, seq in rows))
    ctx.coverage_extra["handoff_order"] = ["family %d %s %s requires %s sequence %s" % r for r in rows]
    ctx.obligations.append(("consts:c10_handoff_order(%d functions)" % len(rows), all(99 not in r[4] for r in rows),
                            "; ".join("%s: pattern not found" % r[2] for r in rows if 99 in r[4])))
    sites = gate_sites()
    rows = []
    for fam, name, _ in FAMILIES:
        codes = [c for (f, c, _, _, _) in sites if f == fam]
        rows.append("(%d, [%s])" % (fam, "; ".join(str(c) for c in codes)))
    comment = "Intercept* call sites found in /repo (family, gate codes in source order):\n" + "\n".join(
        "   family %d %-24s gate %d  %s:%d  func %s" % (f, dict((a, b) for a, b, _ in FAMILIES)[f], c, rel, ln, fn)
        for (f, c, rel, fn, ln) in sites)
    ctx.add_const_raw("Definition c10_gate_sites : list (Z * list Z) :=\n  [%s]." % ";\n   ".join(rows), comment)
    ctx.coverage_extra["gate_call_sites"] = ["family %d gate %d %s:%d %s" % (f, c, rel, ln, fn) for (f, c, rel, fn, ln) in sites]
    ctx.obligations.append(("consts:c10_gate_sites(%d call sites)" % len(sites), len(sites) > 0, ""))


def merge(parts, casefile):
    cov = {}
    with open(casefile, "w") as out:
        for p in parts:
            if os.path.exists(p):
                out.write(open(p).read())
            for k, v in read_cov(p).items():
                cov[k] = cov.get(k, 0) + v
    with open(casefile + ".cov", "w") as f:
        for k in sorted(cov):
            f.write("%s %d\n" % (k, cov[k]))


def harness(ctx, casefile, tier, seed):
    env = {"VERIF_TIER": tier, "VERIF_SEED": str(seed)}
    p1, p2, p3 = casefile + ".gater", casefile + ".e2e", casefile + ".res"
    for p in (p1, p2, p3, p1 + ".cov", p2 + ".cov", p3 + ".cov"):
        if os.path.exists(p):
            os.remove(p)
    rc1, out1 = ctx.go_test("p2p/net/conngater", "TestVerifC10$", OV_GATER, env=dict(env, VERIF_OUT=p1), timeout=1500)
    rc2, out2 = ctx.go_test("p2p/net/conngater", "TestVerifC10E2E$", OV_E2E, env=dict(env, VERIF_OUT=p2), timeout=2400)
    rc3, out3 = ctx.go_test("p2p/net/conngater", "TestVerifC10Res$", OV_E2E, env=dict(env, VERIF_OUT=p3), timeout=1500)
    merge([p1, p2, p3], casefile)
    return (rc1 or rc2 or rc3), out1 + "\n" + out2 + "\n" + out3


def warm(ctx):
    rc, out = ctx.go_test("p2p/net/conngater", "TestVerifNothing$", OV_GATER, timeout=1500)
    if rc != 0:
        ctx.obligations.append(("harness:compile", False, out[-1500:]))


def replay_harness(ctx, casefile, toks):
    if toks and toks[0] == 0:
        return ctx.go_test("p2p/net/conngater", "TestVerifC10Replay$", OV_GATER,
                           env={"VERIF_OUT": casefile, "VERIF_REPLAY_CASE": " ".join(map(str, toks))}, timeout=600)
    if toks and toks[0] == 2:
        return ctx.go_test("p2p/net/conngater", "TestVerifC10ResReplay$", OV_E2E,
                           env={"VERIF_OUT": casefile, "VERIF_REPLAY_CASE": " ".join(map(str, toks))}, timeout=600)
    return ctx.go_test("p2p/net/conngater", "TestVerifC10E2EReplay$", OV_E2E,
                       env={"VERIF_OUT": casefile, "VERIF_REPLAY_CASE": " ".join(map(str, toks))}, timeout=600)


# ---- decoding for humans -------------------------------------------------------
def ip_s(t):
    import ipaddress
    if t[0] == 4:
        return str(ipaddress.IPv4Address(t[4])) + " (4 bytes)"
    if t[0] == 16:
        v = ((t[1] * 2**32 + t[2]) * 2**32 + t[3]) * 2**32 + t[4]
        a = ipaddress.IPv6Address(v)
        if a.ipv4_mapped:
            return "::ffff:%s (16 bytes)" % a.ipv4_mapped
        return str(a)
    return "?"


def rule_s(t):
    if t[0] == 0:
        return "peer#%d" % t[1]
    if t[0] == 1:
        return "addr " + ip_s(t[1:6])
    return "subnet IPNet{%s, mask %d/%d}" % (ip_s(t[1:6]), t[7], 128 if t[6] else 32)


EV = {0: "", 1: " [datastore write fails]", 2: " [process stops after the datastore write; reopen]",
      3: " [process stops before the datastore write; reopen]"}


def call_s(t):
    if t[0] == 4:
        return "reopen"
    return "%s(%s)%s" % ("Block" if t[1] == 0 else "Unblock", rule_s(t[2:10]), EV.get(t[0], "?"))


def parse_gater(t):
    """-> (probes, events) with events = [(call tokens, res, answers, lists tokens, (reopened answers, reopened lists))]"""
    np_ = t[1]
    pos = 2
    probes = []
    for _ in range(np_):
        probes.append(t[pos:pos + 8])
        pos += 8
    nev = t[pos]
    pos += 1
    evs = []
    for _ in range(nev):
        call = t[pos:pos + 10]
        res = t[pos + 10]
        pos += 11
        views = []
        for _ in range(2):  # the running gater, a gater reopened on the same datastore
            ans = t[pos:pos + np_]
            pos += np_
            lists = []
            for w in (1, 5, 7):
                c = t[pos]
                lists.append([t[pos + 1 + i * w:pos + 1 + (i + 1) * w] for i in range(c)])
                pos += 1 + c * w
            views.append((ans, lists))
        evs.append((call, res, views[0][0], views[0][1], views[1]))
    return probes, evs


def probe_s(p):
    k = {1: "InterceptPeerDial", 2: "InterceptAddrDial", 3: "InterceptAccept", 4: "InterceptSecured(in)", 5: "InterceptSecured(out)"}.get(p[0], "?")
    if p[0] in (1, 4, 5):
        return "%s(peer#%d)" % (k, p[1])
    return "%s(%s, template %d)" % (k, ip_s(p[2:7]) if p[1] else "no IP", p[7])


def parse_e2e(t):
    d = {"dir": "outbound (G dials R)" if t[1] == 0 else "inbound (R dials G)", "transport": t[2] % 16,
         "dial_context": {0: "plain", 1: "WithForceDirectDial", 2: "WithSimultaneousConnect(client)", 3: "WithAllowLimitedConn",
                          4: "WithNoDial (NewStream)", 5: "QUIC server-role hole punch of G towards R in flight"}.get(t[2] // 16, "?"),
         "reachable": t[3]}
    nc = t[4]
    pos = 5
    d["calls"] = [call_s(t[pos + 10 * i:pos + 10 * i + 10]) for i in range(nc)]
    pos += 10 * nc
    d["peer"] = t[pos]
    na = t[pos + 1]
    pos += 2
    d["addrs"] = [(ip_s(t[pos + 6 * i + 1:pos + 6 * i + 6]) if t[pos + 6 * i] else "no IP") for i in range(na)]
    pos += 6 * na
    ne = t[pos]
    pos += 1
    names = {1: "InterceptPeerDial", 2: "InterceptAddrDial", 3: "TransportDial", 4: "InterceptAccept", 6: "InterceptSecured", 7: "InterceptUpgraded"}
    d["events"] = ["%s %s" % (names.get(t[pos + 4 * i], "?"), t[pos + 4 * i + 1:pos + 4 * i + 4]) for i in range(ne)]
    pos += 4 * ne
    d["G_conns"], d["G_connected_notifications"] = t[pos], t[pos + 1]
    return d


def parse_res(t):
    """resolver case -> dict"""
    nc = t[2]
    pos = 3
    d = {"calls": [call_s(t[pos + 10 * i:pos + 10 * i + 10]) for i in range(nc)]}
    pos += 10 * nc
    d["peer"] = t[pos]
    nk = t[pos + 1]
    pos += 2
    addrs = []
    for i in range(nk):
        if t[pos] == 0:
            addrs.append("%s %s" % (ip_s(t[pos + 1:pos + 6]), "wss" if t[pos + 6] else "ws"))
            pos += 7
            continue
        ok, n = t[pos + 1], t[pos + 2]
        pos += 3
        ans = [ip_s(t[pos + 5 * j:pos + 5 * j + 5]) for j in range(n)]
        pos += 5 * n
        dnsk, tls, th = t[pos], t[pos + 1], t[pos + 2]
        tip = ip_s(t[pos + 3:pos + 8]) if th else "nothing"
        pos += 8
        addrs.append("/dns%s/n%d.c10.example %s: the swarm's resolver %s; the transport's own lookup gives %s" % (
            dnsk or "", i, "wss" if tls else "ws", ("answers [%s]" % ", ".join(ans)) if ok else "returns an error", tip))
    d["addrs"] = addrs
    ne = t[pos]
    pos += 1
    evs = []
    for i in range(ne):
        e = t[pos + 8 * i:pos + 8 * i + 8]
        a = ip_s(e[2:7]) if e[1] else "an address without IP (a name)"
        if e[0] == 1:
            evs.append("InterceptPeerDial -> %s" % ("allow" if e[7] else "refuse"))
        elif e[0] == 2:
            evs.append("InterceptAddrDial(%s) -> %s" % (a, "allow" if e[7] else "refuse"))
        elif e[0] == 3:
            evs.append("transport.Dial(%s)" % a)
        elif e[0] == 8:
            evs.append("the transport opens a connection to %s" % a)
        else:
            evs.append(str(e))
    d["events"] = evs
    return d


def describe(t):
    try:
        if t and t[0] == 2:
            return dict(parse_res(t), kind="addresses known by name (resolver case)")
        if t and t[0] == 0:
            probes, evs = parse_gater(t)
            return {"kind": "gater", "calls": ["%s -> %s" % (call_s(c), {0: "nil", 1: "error", 2: "stopped"}.get(r, r)) for c, r, *_ in evs][:40],
                    "probes": len(probes)}
        if t and t[0] == 1:
            return dict(parse_e2e(t), kind="end-to-end")
    except Exception as ex:  # noqa
        return {"raw": t[:120], "decode_error": str(ex)}
    return {"raw": t[:120]}


def nontrivial(line):
    # non-trivial = the gater refused something: a 0 answer of an Intercept* probe in a
    # gater-level case; a refused gate (or no admitted connection) in an end-to-end case
    try:
        t = [int(x) for x in line.split()]
        if t[0] == 0:
            _, evs = parse_gater(t)
            return any(0 in e[2] for e in evs)
        if t[0] == 1:
            e = parse_e2e(t)
            return e["G_conns"] == 0
        if t[0] == 2:
            e = parse_res(t)
            return any("refuse" in x for x in e["events"])
    except Exception:
        pass
    return False


def canon_history(evs, upto):
    """canonical form of the calls up to and including event `upto`, with peers / addresses
    renamed in order of first use"""
    return "; ".join(call_s(e[0]) for e in evs[:upto + 1])


def key(tag, toks, d):
    # identity of a failure: clause + offending probe/list + the call history up to the failing event
    try:
        if toks[0] == 0 and len(d) >= 3 and d[0] == 902:
            probes, evs = parse_gater(toks)
            i, clause = d[1], d[2]
            where = ""
            if clause in (1, 5) and len(d) > 3 and 0 <= d[3] < len(probes):
                where = probe_s(probes[d[3]])
                where = re.sub(r", template \d+", "", where)
            return "C10:gater:clause%d:%s:%s" % (clause, where, canon_history(evs, i))
        if toks[0] == 2:
            e = parse_res(toks)
            ev = e["events"][d[2]] if len(d) > 2 and 0 <= d[2] < len(e["events"]) else ""
            return "C10:resolver:clause%s:%s:%s:%s" % (d[1], ev, "; ".join(e["addrs"]), "; ".join(e["calls"]))
        if toks[0] == 1:
            e = parse_e2e(toks)
            return "C10:e2e:%s:tpt%s:ctx=%s:%s:%s" % (e["dir"].split()[0], e["transport"], e["dial_context"], d[1:3], "; ".join(e["calls"]))
    except Exception:
        pass
    return "C10:%s:%s" % (d, " ".join(map(str, toks[:60])))


CLAUSE = {1: "an Intercept* answer contradicts the rules whose calls returned", 2: "ListBlockedPeers contradicts them",
          3: "ListBlockedAddrs contradicts them", 4: "ListBlockedSubnets contradicts them",
          5: "memory and datastore disagree: an Intercept* answer of the running gater differs from that of a gater reopened on the same datastore",
          6: "memory and datastore disagree: ListBlockedPeers of the running gater differs from that of a gater reopened on the same datastore",
          7: "memory and datastore disagree: ListBlockedAddrs of the running gater differs from that of a gater reopened on the same datastore",
          8: "memory and datastore disagree: ListBlockedSubnets of the running gater differs from that of a gater reopened on the same datastore",
          30: "outbound to a blocked peer: a transport was handed an address / opened a connection",
          31: "outbound: a transport was handed an address whose IP is blocked",
          32: "outbound: a transport opened a connection to a blocked IP",
          10: "outbound: transport dial to a blocked peer", 11: "outbound: connection to a blocked peer admitted",
          12: "outbound: transport dial to a blocked address", 13: "outbound: connection over a blocked address admitted",
          20: "inbound from a blocked address got past accept", 21: "inbound from a blocked address admitted",
          22: "inbound from a blocked peer got past the post-handshake gate", 23: "inbound from a blocked peer admitted"}


def what(tag, toks, d):
    try:
        if toks[0] == 0 and d[0] == 902:
            probes, evs = parse_gater(toks)
            s = "after %s: %s" % (canon_history(evs, d[1]), CLAUSE.get(d[2], d))
            if d[2] == 1 and 0 <= d[3] < len(probes):
                s += " (%s answered %s)" % (probe_s(probes[d[3]]), "allow" if evs[d[1]][2][d[3]] else "refuse")
            if d[2] == 5 and 0 <= d[3] < len(probes):
                s += " (%s: running gater %s, reopened gater %s)" % (
                    probe_s(probes[d[3]]), "allows" if evs[d[1]][2][d[3]] else "refuses",
                    "allows" if evs[d[1]][4][0][d[3]] else "refuses")
            return s
        if toks[0] == 2 and d[0] == 902:
            e = parse_res(toks)
            ev = e["events"][d[2]] if len(d) > 2 and 0 <= d[2] < len(e["events"]) else ""
            return "G knows the peer by [%s]; after %s: %s (%s)" % ("; ".join(e["addrs"]), "; ".join(e["calls"]) or "no rule calls", CLAUSE.get(d[1], d), ev)
        if toks[0] == 1 and d[0] == 902:
            e = parse_e2e(toks)
            return "%s [dial context: %s], after %s: %s" % (e["dir"], e["dial_context"], "; ".join(e["calls"]), CLAUSE.get(d[1], d))
    except Exception:
        pass
    return "monitor diag %s" % d


if __name__ == "__main__":
    ctx = Ctx("C10")
    ctx.assumptions = [
        "net.IP.String / net.IPNet.String are used as map and datastore keys: modelled as injective on (family, value) resp. (family, network, prefix length); canonicalSubnet = ParseCIDR(ipnet.String()) transcribed as masking the network number; peer.ID.String (base58) injective; exercised by the correspondence, not proved",
        "multiaddrs are abstracted to what manet.ToIP returns (IP of a leading /ip4 | /ip6 | /ip6zone+/ip6 component, or none); the harness builds real multiaddrs of every form and cross-checks ToIP on each",
        "IP values have 4 or 16 bytes and masks are CIDR masks of 4 or 16 bytes (what net.ParseIP / ParseCIDR / CIDRMask produce); IPNets for which String() prints <nil> and non-contiguous masks are outside the model",
        "the datastore is a key-value map with atomic Put/Delete and prefix Query (go-datastore MapDatastore behind namespace.Wrap) that stores a COPY of the value it is given (BlockAddr passes the caller's own slice []byte(ip) to Put; the harness overwrites every net.IP / *net.IPNet after the call returns, so its datastore wrapper copies as a persistent store does): modelled, not verified",
        "each gater method is one critical section; a process stop is modelled at the only point where it matters (between the datastore write and the in-memory update) and before the write",
        "pipelines: every transport dial / handshake that is not gated is assumed to succeed (worst case for the property)",
        "resolver cases: a transport handed an address that starts with a name resolves the name itself and connects to the result (websocket.maDial -> net.ResolveTCPAddr); the harness's recording Dial stands for that and for the operating system's resolver; madns / the swarm's resolver chain are the real code",
    ]
    standard_flow(ctx, dict(
        consts=consts,
        coq_targets=["c10/Properties.vo", "c10/Extract.vo"],
        props="c10/Properties.v",
        spec_module="c10.Spec",
        harness=harness,
        replay_harness=replay_harness, warm=warm,
        nontrivial=nontrivial,
        search_thorough=True,
        rule="gater level: the real BasicConnectionGater over a MapDatastore wrapped to fail / stop the process at a chosen write "
             "(error returned; stop after the write; stop before the write; clean restart), the abandoned gater replaced by a new one on the "
             "same datastore. Histories of Block*/Unblock* over 4 peers, IPv4 / IPv6 / IPv4-mapped-IPv6 addresses (4- and 16-byte forms), "
             "subnets in all four IPNet representations incl. /0 /1 /31 /32 /127 /128, canonical and with host bits set (the same subnet under different String() texts); "
             "a fixed corpus of the repaired defect (block 10.1.2.3/24, unblock 10.1.2.0/24, with/without restart and process stops); systematic: a base history and, for every call k and "
             "every fault kind, the same history with the fault at k; plus random mixes. After every call: ListBlockedPeers/Addrs/Subnets and "
             "InterceptPeerDial / InterceptAddrDial / InterceptAccept / InterceptSecured on multiaddrs of every form (ip4, ip6, mapped, "
             "ip6zone, dns*, unix, p2p-circuit; tcp, quic-v1, ws, wss, webtransport, webrtc-direct, relayed) aimed at the rules and at the first/last "
             "address of every subnet and the addresses just outside. end-to-end: real swarms (G with the gater wrapped in a recording "
             "delegate and counting transports, R without) over TCP (+ QUIC, WebSocket, WebTransport in the thorough tier), remote blocked by "
             "peer / address in each form / subnet, both directions, before and after a restart of the gater; outbound with every dial-context "
             "option (plain, WithForceDirectDial, WithSimultaneousConnect, WithAllowLimitedConn, WithNoDial) x blocked by address / subnet / peer; "
             "inbound QUIC while a server-role hole punch of G towards the remote is in flight and the remote is blocked in between; "
             "every call's net.IP / *net.IPNet argument is overwritten right after the call returns (caller-memory aliasing); address-form tables "
             "through the real gatedMaListener.Accept over a fake manet listener (ip4, ws, mapped, ip6, link-local, /ip6zone/<zone>/ip6/fe80::.., relayed) "
             "and through the real swarm dial path with a fake circuit transport (/ip4|ip6/<blocked>/.../p2p/<relay>/p2p-circuit), each x {address blocked in "
             "each byte form, subnet blocked, after restart, unblocked, unrelated rules}. Every observation is compared "
             "with the Coq model (conform_case) and judged by the property monitor (monitor_case).",
        describe=describe, key=key, what=what, crosscheck=60,
    ))

#!/usr/bin/env python3
"""C17 — observed addresses are advertised only with enough independent observers.
See DESIGN.md section 6 (C17) and coq/c17/Spec.v (wire format, reading of the property)."""
import os, re, sys
sys.path.insert(0, os.path.join(os.path.dirname(os.path.abspath(__file__)), "..", "tools"))
from vlib import *

PKG = "p2p/host/observedaddrs"
OVERLAY = {PKG + "/zz_c17_verif_test.go": "harness/overlay/observedaddrs/c17_verif_test.go"}
HPKG = "p2p/host/basic"
HOVERLAY = {HPKG + "/zz_c17_bridge_verif_test.go": "harness/overlay/basichost/c17_bridge_verif_test.go",
            HPKG + "/zz_c17_host_verif_test.go": "harness/overlay/basichost/c17_host_verif_test.go"}


def consts(ctx):
    ctx.gen_consts_go(PKG, ["ActivationThresh", "maxExternalThinWaistAddrsPerLocalAddr"])
    ctx.gen_consts_go("p2p/host/basic", ["maxObservedAddrsPerListenAddr"])


_chk = []


def harness(ctx, casefile, tier, seed):
    if ctx.tier == "thorough" and not _chk:
        _chk.append(1)
        ctx.coqchk(["Verif.c17.Properties"])
    rc, out = ctx.go_test(PKG, "TestVerifC17$", OVERLAY,
                          env={"VERIF_OUT": casefile, "VERIF_TIER": tier, "VERIF_SEED": str(seed)}, timeout=1500)
    if rc != 0 or not os.path.exists(casefile):
        return rc, out
    # host-level part (p2p/host/basic): its cases and coverage are appended
    hf = casefile + ".host"
    for p in (hf, hf + ".cov"):
        if os.path.exists(p):
            os.remove(p)
    rc2, out2 = ctx.go_test(HPKG, "TestVerifC17Host$", HOVERLAY,
                            env={"VERIF_OUT": hf, "VERIF_TIER": tier, "VERIF_SEED": str(seed)}, timeout=1500)
    if rc2 != 0 or not os.path.exists(hf):
        return (rc2 or 1), out2
    with open(casefile, "a") as f:
        f.write(open(hf).read())
    with open(casefile + ".cov", "a") as f:
        f.write(open(hf + ".cov").read())
    return 0, out + out2


def warm(ctx):
    rc, out = ctx.go_test(PKG, "TestVerifNothing$", OVERLAY, timeout=1500)
    if rc != 0:
        ctx.obligations.append(("harness:compile", False, out[-1500:]))


def replay_harness(ctx, casefile, toks):
    if toks and toks[0] == 18:
        return ctx.go_test(HPKG, "TestVerifC17HostReplay$", HOVERLAY,
                           env={"VERIF_OUT": casefile, "VERIF_REPLAY_CASE": " ".join(map(str, toks))}, timeout=600)
    return ctx.go_test(PKG, "TestVerifC17Replay$", OVERLAY,
                       env={"VERIF_OUT": casefile, "VERIF_REPLAY_CASE": " ".join(map(str, toks))}, timeout=600)


def parse(t):
    """decode a case line into (cfg, steps); steps = [(op, fors, all)]"""
    i = 3
    def pairs(i):
        k = t[i]; i += 1
        ps = [(t[i + 2 * j], t[i + 2 * j + 1]) for j in range(k)]
        return ps, i + 2 * k
    listen, i = pairs(i)
    queries, i = pairs(i)
    nc = t[i]; i += 1
    conns = []
    for _ in range(nc):
        conns.append(tuple(t[i:i + 13])); i += 13
    steps = []
    while i < len(t):
        if t[i] == 1:
            op = tuple(t[i:i + 8]); i += 8
        elif t[i] == 4:
            op = tuple(t[i:i + 10]); i += 10
        elif t[i] == 5:
            op = tuple(t[i:i + 14]); i += 14
        elif t[i] == 6:
            op = tuple(t[i:i + 2 + 2 * t[i + 1]]); i += 2 + 2 * t[i + 1]
        else:
            op = tuple(t[i:i + 2]); i += 2
        fors = []
        for _ in queries:
            k = t[i]; i += 1
            fors.append(t[i:i + k]); i += k
        al, i = pairs(i)
        steps.append((op, fors, al))
    return {"thresh": t[1], "mode": t[2], "listen": listen, "queries": queries, "conns": conns}, steps


def fmt_op(op):
    if op[0] == 5:
        def one(o):
            cls = [n for n, f in zip(("loopback", "nat64", "relay"), o[0:3]) if f]
            return "observedTW=%d fam=%d proto=%d%s" % (o[3], o[4], o[5], (" " + "+".join(cls)) if cls else "")
        return "observe_twice_in_quick_succession(conn=%d, first: %s; then: %s)" % (op[1], one(op[2:8]), one(op[8:14]))
    if op[0] in (1, 4):
        cls = [n for n, f in zip(("loopback", "nat64", "relay"), op[2:5]) if f]
        r = "observe(conn=%d, observedTW=%d fam=%d proto=%d%s)" % (op[1], op[5], op[6], op[7], (" " + "+".join(cls)) if cls else "")
        if op[0] == 4:
            r += "[conn %d closed+disconnected at the listenAddrs() call inside shouldRecordObservation: %s]" % (op[8], "delivered" if op[9] else "not reached")
        return r
    if op[0] == 6:
        return "listen_set_becomes(%s)[connections stay open]" % [(op[2 + 2 * j], op[3 + 2 * j]) for j in range(op[1])]
    if op[0] == 7:
        return "ActivationThresh=%d" % op[1]
    return ("markclosed(conn=%d)" if op[0] == 2 else "disconnect(conn=%d)") % op[1]


def parse_host(t):
    nx = t[4]
    xs = [(t[5 + 2 * j], t[6 + 2 * j]) for j in range(nx)]
    i = 5 + 2 * nx
    steps = []
    while i + 3 + 5 * nx <= len(t):
        op = tuple(t[i:i + 3]); i += 3
        rows = [tuple(t[i + 5 * j:i + 5 * j + 5]) for j in range(nx)]; i += 5 * nx
        steps.append((op, rows))
    return {"mode": t[1], "thresh": t[2], "nconn": t[3], "x(pub,hidden)": xs}, steps


def fmt_hop(op, nx):
    if op[0] == 1:
        return "conn %d reports %s" % (op[1], "a loopback address" if op[2] >= nx else "X%d" % op[2])
    return "conn %d disconnects" % op[1]


def describe(t):
    if t and t[0] == 18:
        cfg, steps = parse_host(t)
        nx = len(cfg["x(pub,hidden)"])
        cfg["mode"] = "Private with relay address" if cfg["mode"] == 1 else "plain"
        cfg["steps"] = ["%s; updateAddrs -> per X (inAddrsFor, inAddrs(1), inDirectAddrs, inAddrs, inHolePunchAddrs)=%s" % (fmt_hop(o, nx), [list(r) for r in rows]) for o, rows in steps]
        return cfg
    try:
        cfg, steps = parse(t)
    except Exception:
        return {"raw": t[:120]}
    return {"thresh": cfg["thresh"], "mode": "eventbus+notifiee" if cfg["mode"] else "direct calls", "listen(tw,rest)": cfg["listen"], "queries(tw,rest)": cfg["queries"],
            "conns(ltw,fam,proto,dir 1=in 2=out,rkind,ip...)": [list(c) for c in cfg["conns"]],
            "steps": ["%s -> AddrsFor=%s Addrs0=%s" % (fmt_op(o), f, a) for o, f, a in steps[:80]]}


def nontrivial(line):
    # a case is non-trivial when some AddrsFor/Addrs(0) answer was non-empty,
    # i.e. an observed address crossed the activation threshold
    try:
        t = [int(x) for x in line.split()]
        if t[0] == 18:
            # host case: non-trivial when an observed address reached a view of the host
            return any(r[2] or r[3] or r[4] for _, rows in parse_host(t)[1] for r in rows)
        _, steps = parse(t)
    except Exception:
        return False
    return any(al or any(fors) for _, fors, al in steps)


def key(tag, toks, d):
    if toks and toks[0] == 18:
        cfg, steps = parse_host(toks)
        idx = d[1] if len(d) > 1 else 0
        return "C17:host:%s:x=%s:mode=%s:hidden=%s:%s" % (tag, (d[2] - 100) if len(d) > 2 else "?", cfg["mode"], [h for _, h in cfg["x(pub,hidden)"]],
                                                       ";".join(fmt_hop(o, len(cfg["x(pub,hidden)"])) for o, _ in steps[:idx + 1]))
    # identity = failing clause (which answer) + configuration + the history up to the failing step
    try:
        cfg, steps = parse(toks)
        idx = d[1] if len(d) > 1 else 0
        which = d[2] if len(d) > 2 else 0
        hist = ";".join(fmt_op(o) for o, _, _ in steps[:idx + 1])
        return "C17:%s:which=%s:thresh=%d:listen=%s:conns=%s:%s" % (tag, which, cfg["thresh"], cfg["listen"], [c[0:7] for c in cfg["conns"]], hist)
    except Exception:
        return "C17:%s:%s" % (tag, " ".join(map(str, toks[:200])))


def what(tag, toks, d):
    if toks and toks[0] == 18:
        return "host view (DirectAddrs/Addrs/HolePunchAddrs) contains observed address X%s that the observed address manager no longer reports, after step %s (diag %s)" % (
            (d[2] - 100) if len(d) > 2 else "?", d[1] if len(d) > 1 else "?", d)
    which = d[2] if len(d) > 2 else "?"
    return "observed-address answer %s violates the property after step %s (diag %s)" % (
        "Addrs(0)" if which == -1 else "Addrs(0) (reports more for a local address than AddrsFor does)" if which == -3 else "AddrsFor(query %s)" % which, d[1] if len(d) > 1 else "?", d)


if __name__ == "__main__":
    ctx = Ctx("C17")
    ctx.assumptions = [
        "addresses enter the model as identities and class bits assigned by the harness by construction (thin-waist split, loopback/NAT64/relay class, IP family, tcp/udp) and cross-checked against manet.IsIPLoopback / IsNAT64IPv4ConvertedIPv6Addr / the p2p-circuit scan; go-multiaddr itself is trusted",
        "observer group: remote IP sent as IPv4 number or eight IPv6 groups parsed by net/netip from the harness's own strings (not through getObserver); an IPv4-mapped IPv6 remote is the IPv4 address (what net.IP.To4 does)",
        "a connection's local and remote multiaddr never change; a Disconnected notification implies IsClosed() is true; 'the connection closes' is the Disconnected notification (removeConn)",
        "reading of 'a connection's report is withdrawn when it changes': a re-report whose content never counts (loopback / NAT64 / relayed / no thin waist / inconsistent transport / not at a listen address) still replaces the connection's previous report, which is withdrawn; /repo did not do this before 09ed564 (fix: observedaddrs: ...), the model follows the repaired code; a report with countable content on a closed connection or from a remote without IP is ignored; a nil observed address is no report (not generated)",
        "listenAddrs() returns a fresh slice (as Swarm.ListenAddresses does) of the listen set current at the call; the listen set and ActivationThresh change only between operations (ops 6 / 7), never inside one; 'the activation threshold' is the current value of the package variable ActivationThresh (restored by the harness at the end of every case); a change of the listen set alone withdraws no earlier report (the code keeps it; the text does not demand more), the connection's next report is judged by the new set; each Manager method is one critical section (mutex not modelled); the worker channel, eventbus and NAT-type emitter are not modelled",
        "slices.SortFunc is modelled as insertion sort with the same total order (ties by Multiaddr.Compare = order of the ids the harness assigns by sorting with Compare)",
    ]
    standard_flow(ctx, dict(
        consts=consts,
        coq_targets=["c17/Properties.vo", "c17/Extract.vo"],
        props="c17/Properties.v",
        spec_module="c17.Spec",
        harness=harness,
        replay_harness=replay_harness, warm=warm,
        nontrivial=nontrivial,
        rule="seeded random histories (quick 3000 / thorough 60000 cases, 10-180 ops each) of maybeRecordObservation / IsClosed flips / removeConn "
             "on the real observedaddrs.Manager over real multiaddrs: 12 local addresses (TCP/QUIC/WebTransport/WS sharing thin waists, IPv4+IPv6, "
             "non-thin-waist), 18 remote IPs (same IP on several conns, IPv6 sharing a /64, sharing only a /56, other /56, IPv4-mapped, no IP), "
             "50 observed addresses of every class (public, private, loopback, NAT64, relayed, no thin waist, transports sharing a thin waist), "
             "ActivationThresh set to 1..5 per case before construction, connections of both directions (Stat().Direction inbound / outbound from the listen socket), in one case of three the listen set changes while connections stay open (listener closed / reopened / added, then tracked connections re-report) and ActivationThresh is raised / lowered after the manager exists, phase-structured (build-up on hot addresses, churn, noise, teardown, late reports on closed conns) "
             "plus a malformed stream; directed histories with 62..100 distinct observed addresses tracked for one local address before a change of report; "
             "directed histories (60 each): listener closed under thresh-1 observers of A plus one connection vouching for B that then switches to A (A must not activate), reopened later; ActivationThresh raised above the observers of an advertised address and lowered again; connections of both directions at a listen address closed one by one through the real Disconnected notifiee; directed event-bus histories with two reports of one connection close together (the first held at listenAddrs() until the second is queued); 1 observe in 10 runs with a hook on the listenAddrs() call inside shouldRecordObservation that closes and disconnects "
             "the observed (or another) connection before the manager's lock is taken. After every op AddrsFor(q) for every listen address and two non-listen addresses and Addrs(0) are recorded as lists "
             "(order kept), compared with the Coq model (conform_case) and judged by the property monitor (monitor_case). Non-trivial = some answer was "
             "non-empty (an address crossed the threshold); distinct = distinct case lines among those. "
             "Host level (quick 120 / thorough 1500 histories + 4 corpus): a real addrsManager fed by the real observedaddrs.Manager through the event bus "
             "and Disconnected notifications, observed addresses hidden by an AddrsFactory and/or the host Private with a relay address; after every op and "
             "updateAddrsSync, DirectAddrs/Addrs/HolePunchAddrs are compared per tracked address with what AddrsFor/Addrs(1) answer at that moment.",
        describe=describe, key=key, what=what, crosscheck=60,
    ))

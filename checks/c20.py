#!/usr/bin/env python3
"""C20 — black-hole detection.  See DESIGN.md section 6 (C20)."""
import os, re, sys
sys.path.insert(0, os.path.join(os.path.dirname(os.path.abspath(__file__)), "..", "tools"))
from vlib import *

OVERLAY = {"p2p/net/swarm/zz_c20_verif_test.go": "harness/overlay/swarm/c20_verif_test.go"}


def consts(ctx):
    # every BlackHoleSuccessCounter literal in non-test sources: (N, MinSuccesses).
    # The theorems need 1 <= N (with N = 0 HandleRequest divides by zero).
    pairs = []
    for root, _, files in os.walk(REPO):
        if "/.git" in root or "/test-plans" in root:
            continue
        for fn in files:
            if fn.endswith(".go") and not fn.endswith("_test.go"):
                src = open(os.path.join(root, fn), errors="replace").read()
                for m in re.finditer(r"BlackHoleSuccessCounter\{([^}]*)\}", src):
                    body = m.group(1)
                    n = re.search(r"\bN:\s*(-?\d+)", body)
                    s = re.search(r"\bMinSuccesses:\s*(-?\d+)", body)
                    if n:
                        pairs.append((int(n.group(1)), int(s.group(1)) if s else 0))
    ctx.add_const_raw("Definition bh_configs : list (Z * Z) := [%s]." %
                      "; ".join("(%s, %s)" % (fmt_z(a), fmt_z(b)) for a, b in pairs),
                      "BlackHoleSuccessCounter{N:, MinSuccesses:} literals found in /repo (non-test)")
    ctx.obligations.append(("consts:bh_configs(%d literals)" % len(pairs), len(pairs) > 0, ""))


def harness(ctx, casefile, tier, seed):
    return ctx.go_test("p2p/net/swarm", "TestVerifC20$", OVERLAY,
                       env={"VERIF_OUT": casefile, "VERIF_TIER": tier, "VERIF_SEED": str(seed)}, timeout=1500)


def warm(ctx):
    rc, out = ctx.go_test("p2p/net/swarm", "TestVerifNothing$", OVERLAY, timeout=1500)
    if rc != 0:
        ctx.obligations.append(("harness:compile", False, out[-1500:]))


def replay_harness(ctx, casefile, toks):
    return ctx.go_test("p2p/net/swarm", "TestVerifC20Replay$", OVERLAY,
                       env={"VERIF_OUT": casefile, "VERIF_REPLAY_CASE": " ".join(map(str, toks))}, timeout=600)


ST = {0: "Probing", 1: "Allowed", 2: "Blocked", 9: "nil"}


def describe(t):
    if t and t[0] == 0:
        ops = []
        for i in range(3, len(t) - 4, 5):
            ops.append("%s->%s" % ({0: "HandleRequest", 1: "Record(fail)", 2: "Record(ok)"}.get(t[i], "?"), ST.get(t[i + 1], t[i + 1])))
        return {"kind": "counter", "N": t[1], "MinSuccesses": t[2], "trace": ops[:60]}
    if t and t[0] == 1:
        return {"kind": "detector (rw+ro sharing counters)", "udp(N,min)": t[1:3], "ipv6(N,min)": t[3:5], "raw_ops": t[5:165]}
    return {"raw": t[:100]}


def nontrivial(line):
    # a case is non-trivial when a Blocked state/answer (2) was observed
    t = line.split()
    if t[0] == b"0":
        return b"2" in t[4::5]
    return b"2" in t[5:]


def key(tag, toks, d):
    # no known findings for C20: identity = kind + configuration + diagnostic + the trace prefix up to the failing step
    idx = d[1] if len(d) > 1 else 0
    if toks[0] == 0:
        return "C20:counter:N=%d:min=%d:%s" % (toks[1], toks[2], " ".join(map(str, toks[3:3 + 5 * (idx + 1)])))
    return "C20:detector:%s:%s" % (toks[1:5], d)


def what(tag, toks, d):
    return "black-hole %s trace violates the property at step %s (diag %s)" % (
        "counter" if toks[0] == 0 else "detector", d[1] if len(d) > 1 else "?", d)


if __name__ == "__main__":
    ctx = Ctx("C20")
    ctx.assumptions = [
        "addresses are abstracted to the three predicates FilterAddrs evaluates (manet.IsPublicAddr, isProtocolAddr UDP / IP6); the harness assigns classes by construction from real multiaddrs (direct and /p2p-circuit, the class of a circuit address being that of its relay hop) and cross-checks them with those predicates",
        "Go int is modelled as unbounded (nat/Z): the request counter does not wrap",
        "each method is one critical section (mutex not modelled); metrics calls ignored",
        "precondition 1 <= N (N = 0 divides by zero in HandleRequest): proved for every BlackHoleSuccessCounter literal found in /repo (regenerated obligation c20_configs_wf)",
    ]
    standard_flow(ctx, dict(
        consts=consts,
        coq_targets=["c20/Properties.vo", "c20/Extract.vo"],
        props="c20/Properties.v",
        spec_module="c20.Spec",
        harness=harness,
        replay_harness=replay_harness, warm=warm,
        nontrivial=nontrivial,
        rule="counter: EXHAUSTIVE enumeration of all op sequences over {HandleRequest, RecordResult(false), RecordResult(true)} "
             "of depth 9 (quick) / 11 (thorough) for every N in 1..4 and MinSuccesses in 0..N+1, plus seeded random phase-structured "
             "runs with N in 1..8 and 100; detector: seeded random histories of FilterAddrs over real multiaddrs of all 8 "
             "(public,udp,ip6) classes, each both as a direct address and as a /p2p-circuit address relayed through a hop of that class "
             "(classified by the outer transport address at both sites), directed prologues driving a counter to Blocked and directed "
             "probe episodes (requests for a peer with only a relayed public UDP/IPv6 address until the probe is let through, then its "
             "successful dial result), RecordResult and direct counter updates, Swarm.dialAddr with a scripted transport (dial ok / dial fails / context "
             "already cancelled / no transport / dial to self), nil/non-nil counters, read-only on/off. "
             "Every observation (returned state / State() after each op, per-address kept/black-holed flag) is compared with the "
             "Coq model (conform_case) and judged by the property monitors (monitor_case: per-step filter soundness, read-only and no-dial frozen, "
             "and the probe clause: never N consecutive refused pure requests of a kind while Blocked). A case is non-trivial when a Blocked "
             "state or answer was observed; distinct = distinct case lines among those.",
        describe=describe, key=key, what=what, crosscheck=300,
    ))

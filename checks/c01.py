#!/usr/bin/env python3
"""C01 — security handshakes authenticate the remote peer's identity.  See DESIGN.md section 6 (C01)."""
import os, sys
sys.path.insert(0, os.path.join(os.path.dirname(os.path.abspath(__file__)), "..", "tools"))
from vlib import *

HELPER = {"internal/verifc01/world.go": "harness/c01h/world.go"}
PARTS = [
    # (package, test, replay test, overlay entries)
    ("p2p/security/noise", "TestVerifC01Noise$", "TestVerifC01NoiseReplay$",
     {"p2p/security/noise/zz_c01_verif_test.go": "harness/overlay/noise/c01_verif_test.go"}),
]


def run_parts(ctx, casefile, tier, seed, which, extra_env=None):
    """Run the per-package harness tests, each into its own file, and
    concatenate the case files and the coverage counters."""
    rc_all, out_all, cov = 0, "", {}
    with open(casefile, "w") as merged:
        for idx, (pkg, test, rtest, entries) in enumerate(PARTS):
            part = "%s.part%d" % (casefile, idx)
            for p in (part, part + ".cov"):
                if os.path.exists(p):
                    os.remove(p)
            env = {"VERIF_OUT": part, "VERIF_TIER": tier, "VERIF_SEED": str(seed)}
            if extra_env:
                env.update(extra_env)
            rc, out = ctx.go_test(pkg, test if which == "run" else rtest, dict(HELPER, **entries), env=env, timeout=3000)
            if rc != 0 or not os.path.exists(part):
                rc_all = rc or 1
                out_all += "\n[%s]\n%s" % (pkg, out[-2500:])
                continue
            with open(part) as f:
                merged.write(f.read())
            for k, v in read_cov(part).items():
                cov[k] = cov.get(k, 0) + v
    with open(casefile + ".cov", "w") as f:
        for k in sorted(cov):
            f.write("%s %d\n" % (k, cov[k]))
    return rc_all, out_all


def harness(ctx, casefile, tier, seed):
    return run_parts(ctx, casefile, tier, seed, "run")


def replay_harness(ctx, casefile, toks):
    return run_parts(ctx, casefile, ctx.tier, ctx.seed, "replay", {"VERIF_REPLAY_CASE": " ".join(map(str, toks))})


def warm(ctx):
    for pkg, test, rtest, entries in PARTS:
        rc, out = ctx.go_test(pkg, "TestVerifNothing$", dict(HELPER, **entries), timeout=1500)
        if rc != 0:
            ctx.obligations.append(("harness:compile:" + pkg, False, out[-1500:]))


KT = {0: "Ed25519", 1: "ECDSA", 2: "Secp256k1", 3: "RSA"}
NAME = {0: '""', 1: "A", 2: "B", 3: "E", 9: "?"}
EK = {0: "none", 1: "bytes of component changed", 2: "truncated", 3: "extended", 4: "dropped", 5: "length prefix enlarged",
      6: "duplicated", 7: "spliced from a second session"}
CLS = {0: "completed", 1: "peer ID mismatch", 2: "bad signature", 3: "bad key/payload", 4: "noise read failed", 5: "i/o", 9: "not observed"}


def side(t):
    return {"holds": NAME.get(t[0]), "session_transport": t[1], "disable_check": t[2], "expects": NAME.get(t[3]), "prologue": t[4]}


def describe(t):
    try:
        if t[0] == 1:
            d = {"stack": "noise", "key_types": [KT.get(t[1]), KT.get(t[2])], "initiator": side(t[3:8]), "responder": side(t[8:13]),
                 "edit": {"kind": EK.get(t[13]), "message": t[14], "a": t[15], "b": t[16], "byte": t[17]}}
            if t[18]:
                d["forging_endpoint"] = {"is_initiator": t[19], "claims": {4: "junk", 5: "empty"}.get(t[20], NAME.get(t[20])),
                                         "signed_by": {4: "junk", 5: "empty"}.get(t[21], NAME.get(t[21])),
                                         "signed_message": {0: "prefix+static", 1: "prefix+another static", 2: "static only"}.get(t[22])}
            o = t[24:]
            d["observed"] = [{"initiator": [CLS.get(o[i]), NAME.get(o[i + 1])], "responder": [CLS.get(o[i + 3]), NAME.get(o[i + 4])]}
                             for i in range(0, len(o) - 5, 6)]
            return d
    except Exception:
        pass
    return {"raw": t[:80]}


def nontrivial(line):
    # non-trivial: an edit was applied, a payload was forged, or some side refused
    t = line.split()
    if t[0] == b"1":
        return t[13] != b"0" or t[18] != b"0" or any(x != b"0" for x in t[24::3])
    return True


def key(tag, toks, d):
    # identity of a failure: stack, clause, session/side, configuration, edit (without byte position), forge
    if toks[0] == 1:
        return "C01:noise:%s:%s:cfg=%s:edit=%s:forge=%s" % (tag, d[:4], toks[1:13], toks[13:17], toks[18:23])
    return "C01:%s:%s:%s" % (toks[0], tag, " ".join(map(str, toks[:40])))


def what(tag, toks, d):
    clause = {1: "reported peer ID is not the ID of the reported public key", 2: "completed reporting a peer whose key the remote does not hold",
              3: "completed with a peer other than the named expected peer", 4: "completed although it received edited/withheld/replayed handshake data",
              5: "completed although the payload was signed with a substituted key"}
    c = d[3] if len(d) > 3 else 0
    return "%s: %s (session %s, %s); %s" % ({1: "noise"}.get(toks[0], toks[0]), clause.get(c, "diag %s" % d), d[1] if len(d) > 1 else "?",
                                           {0: "initiator", 1: "responder"}.get(d[2] if len(d) > 2 else -1, "?"), json.dumps(describe(toks))[:400])


if __name__ == "__main__":
    ctx = Ctx("C01")
    ctx.assumptions = [
        "symbolic (Dolev-Yao) cryptography: SHA-256/HKDF/ChaChaPoly/X25519/signatures are free constructors; an AEAD box opens only under the same key, nonce and associated data; a signature verifies only for the key and message it was issued for (ideal scheme of c08/SymCrypto); computational soundness is outside Coq",
        "peer.IDFromPublicKey is injective (C08); the model numbers identity keys and peer IDs alike",
        "the per-key-type dimension (Ed25519, ECDSA, Secp256k1, RSA) is uniform in the symbolic model and is covered by the correspondence runs",
        "a duplicate of handshake message 2 or 3 arrives after the receiver's last handshake read: it is not handshake data for that receiver (it is rejected by the transport phase, C02)",
    ]
    standard_flow(ctx, dict(
        coq_targets=["c01/Properties.vo", "c01/Extract.vo"],
        props="c01/Properties.v",
        spec_module="c01.Spec",
        harness=harness, replay_harness=replay_harness, warm=warm,
        nontrivial=nontrivial,
        rule="Noise: real noise.Transport / SessionTransport pairs over an in-memory network with a message-aware man in the middle (deadlocks detected without timers). "
             "For Ed25519 and one other identity key type (quick; all four in thorough) on either side: (A) all 28x28 endpoint configurations (transport kind, DisablePeerIDCheck, "
             "expected peer \"\"/A/B/E, prologue nil/1/2) undisturbed; (B) every structural edit (a byte in the middle and at the end of every component, cuts at and one byte past every "
             "component boundary, cut by 1/16/17 bytes, length prefix enlarged, extended by 1/16 bytes, dropped, duplicated, spliced from a second concurrent session) of every message "
             "x 4x4 expected-peer settings x 5 prologue pairings; (C) every byte position of every handshake message (incl. the length prefix) flipped (sampled for the non-Ed25519 types in quick); "
             "(D) a cooperating malicious endpoint (flynn/noise driven directly) presenting 5 claimed identity keys x 7 signatures (own key over prefix+static / another static / static only, "
             "recorded signatures of A and B, junk, empty) x 4 settings x 2 prologues x both roles. Observed per endpoint: error class or RemotePeer()/RemotePublicKey(). "
             "Every outcome is compared with the Coq model (conform_case) and judged by the property monitor (monitor_case). Non-trivial = edited, forged or refused.",
        describe=describe, key=key, what=what, crosscheck=150,
    ))

#!/usr/bin/env python3
"""C01 — security handshakes authenticate the remote peer's identity.  See DESIGN.md section 6 (C01)."""
import os, re, sys
sys.path.insert(0, os.path.join(os.path.dirname(os.path.abspath(__file__)), "..", "tools"))
from vlib import *

HELPER = {"internal/verifc01/world.go": "harness/c01h/world.go"}
PARTS = [
    # (package, test, replay test, overlay entries, case tags)
    ("p2p/security/noise", "TestVerifC01Noise$", "TestVerifC01NoiseReplay$",
     {"p2p/security/noise/zz_c01_verif_test.go": "harness/overlay/noise/c01_verif_test.go"}, (1,)),
    ("p2p/security/tls", "TestVerifC01TLS$", "TestVerifC01TLSReplay$",
     {"p2p/security/tls/zz_c01_verif_test.go": "harness/overlay/tls/c01_verif_test.go"}, (2, 3)),
    ("p2p/net/swarm", "TestVerifC01Swarm$", None,
     {"p2p/net/swarm/zz_c01_verif_test.go": "harness/overlay/swarm/c01_verif_test.go"}, (4,)),
    ("p2p/transport/quic", "TestVerifC01Quic$", None,
     {"p2p/transport/quic/zz_c01_verif_test.go": "harness/overlay/quic/c01_verif_test.go"}, (5, 6)),
    ("p2p/net/upgrader", "TestVerifC01Upgrader$", None,
     {"p2p/net/upgrader/zz_c01_verif_test.go": "harness/overlay/upgrader/c01_verif_test.go"}, (7,)),
]


def consts(ctx):
    """Does PubKeyFromCertChain check the certificate's own signature explicitly?  (x509.Verify does
    not, for a certificate that is itself in the root pool: the defect this check found, repaired by
    8beaf91.)  The regenerated constant must be true (theorem c01_tls_self_signature_checked); whether
    the check works is decided by the correspondence: the harness presents certificates signed by
    another key / altered after signing (fixed corpus cases) and they must be rejected."""
    src = open(os.path.join(REPO, "p2p/security/tls/crypto.go"), errors="replace").read()
    m = re.search(r"func PubKeyFromCertChain\(.*?\n}\n", src, re.S)
    body = m.group(0) if m else ""
    flag = "CheckSignature" in body
    ctx.add_const_raw("Definition tls_self_signature_checked : bool := %s." % ("true" if flag else "false"),
                      "does PubKeyFromCertChain (p2p/security/tls/crypto.go) check the certificate's own signature explicitly (CheckSignature)?")
    ctx.obligations.append(("consts:PubKeyFromCertChain found", bool(m), ""))


def run_parts(ctx, casefile, tier, seed, which, extra_env=None, replay_tag=None):
    """Run the per-package harness tests (in parallel), each into its own file,
    and concatenate the case files and the coverage counters."""
    import threading
    results = {}

    def one(idx, pkg, test, entries):
        part = "%s.part%d" % (casefile, idx)
        for p in (part, part + ".cov"):
            if os.path.exists(p):
                os.remove(p)
        env = {"VERIF_OUT": part, "VERIF_TIER": tier, "VERIF_SEED": str(seed)}
        if extra_env:
            env.update(extra_env)
        # each part needs its own overlay file: ctx.overlay() writes to a fixed path
        ov = os.path.join(ctx.work, "overlay_part%d.json" % idx)
        rep = {os.path.join(REPO, "internal/verifh/verifh.go"): os.path.join(VERIF, "harness/verifh/verifh.go")}
        for k, v in dict(HELPER, **entries).items():
            rep[os.path.join(REPO, k)] = os.path.join(VERIF, v)
        with open(ov, "w") as f:
            json.dump({"Replace": rep}, f, indent=1)
        cmd = ["go", "test", "-tags", "verif", "-vet=off", "-overlay", ov, "-count=1", "-timeout", "3000s", "-run", test, "./" + pkg]
        results[idx] = ctx.sh(cmd, cwd=REPO, env=env, timeout=3060) + (part,)

    threads = []
    for idx, (pkg, test, rtest, entries, tags) in enumerate(PARTS):
        if which == "replay" and (rtest is None or replay_tag not in tags):
            continue
        th = threading.Thread(target=one, args=(idx, pkg, test if which == "run" else rtest, entries))
        th.start()
        threads.append(th)
    for th in threads:
        th.join()
    rc_all, out_all, cov = 0, "", {}
    with open(casefile, "w") as merged:
        for idx in sorted(results):
            rc, out, part = results[idx]
            if rc != 0 or not os.path.exists(part):
                rc_all = rc or 1
                out_all += "\n[%s]\n%s" % (PARTS[idx][0], out[-2500:])
                continue
            with open(part) as f:
                merged.write(f.read())
            for k, v in read_cov(part).items():
                cov[k] = cov.get(k, 0) + v
    with open(casefile + ".cov", "w") as f:
        for k in sorted(cov):
            f.write("%s %d\n" % (k, cov[k]))
    return rc_all, out_all


def harness(ctx, casefile, tier, seed):
    return run_parts(ctx, casefile, tier, seed, "run")


def replay_harness(ctx, casefile, toks):
    return run_parts(ctx, casefile, ctx.tier, ctx.seed, "replay", {"VERIF_REPLAY_CASE": " ".join(map(str, toks))}, replay_tag=toks[0])


def warm(ctx):
    for pkg, test, rtest, entries, tags in PARTS:
        rc, out = ctx.go_test(pkg, "TestVerifNothing$", dict(HELPER, **entries), timeout=1500)
        if rc != 0:
            ctx.obligations.append(("harness:compile:" + pkg, False, out[-1500:]))


KT = {0: "Ed25519", 1: "ECDSA", 2: "Secp256k1", 3: "RSA"}
NAME = {0: '""', 1: "A", 2: "B", 3: "E", 9: "?"}
EK = {0: "none", 1: "bytes of component changed", 2: "truncated", 3: "extended", 4: "dropped", 5: "length prefix enlarged",
      6: "duplicated", 7: "spliced from a second session"}
CLS = {0: "completed", 1: "peer ID mismatch", 2: "bad signature", 3: "bad key/payload", 4: "noise read failed", 5: "i/o", 8: "panic recovered into an error", 9: "not observed"}


def side(t):
    return {"holds": NAME.get(t[0]), "session_transport": t[1], "disable_check": t[2], "expects": NAME.get(t[3]), "prologue": t[4]}


TCLS = {0: "accepted", 1: "peer ID mismatch", 2: "signature invalid", 3: "public key does not unmarshal", 4: "extension is not ASN.1",
        5: "certificate verification failed", 6: "no libp2p extension", 7: "chain length != 1", 8: "x509 parse error"}


def chain_of(t):
    """decode CHAIN, return (description, rest)"""
    n, t = t[0], t[1:]
    certs = []
    for _ in range(n):
        key, signer, intact, timeok, ne = t[:5]
        t = t[5:]
        exts = []
        for _ in range(ne):
            k, crit, vk, pub, ss, sp, so = t[:7]
            t = t[7:]
            if k == 1:
                exts.append({"libp2p": "not ASN.1" if not vk else {"pubkey": {4: "junk", 5: "empty"}.get(pub, NAME.get(pub)),
                             "sig_by": {4: "junk", 5: "empty"}.get(ss, NAME.get(ss)), "prefixed": sp, "over_cert_key": so}, "critical": crit})
            else:
                exts.append({"other_oid": k, "critical": crit})
        certs.append({"cert_key": key, "signed_by_cert_key": signer, "intact": intact, "time_valid": timeok, "extensions": exts})
    return certs, t


def describe(t):
    try:
        if t[0] == 1:
            d = {"stack": "noise", "key_types": [KT.get(t[1] % 10), KT.get(t[2] % 10)], "initiator": side(t[3:8]), "responder": side(t[8:13]),
                 "edit": {"kind": EK.get(t[13]), "message": t[14], "a": t[15], "b": t[16], "byte": t[17]}}
            for who, x in (("initiator", t[1] // 10), ("responder", t[2] // 10)):
                if x:
                    d[who]["expects_identity_of_key_type"] = {5: "(a string that is not a well-formed peer ID)"}.get(x, KT.get(x - 1))
            if t[18]:
                d["forging_endpoint"] = {"is_initiator": t[19], "claims": {4: "junk", 5: "empty", 6: "nothing: the whole payload is zero-length", 7: "nothing: the payload is not a protobuf message"}.get(t[20], NAME.get(t[20]) if t[20] < 10 else "%s's key, non-canonical serialization %d" % (NAME.get(t[20] % 10), t[20] // 10)),
                                         "signed_by": {4: "junk", 5: "empty"}.get(t[21], NAME.get(t[21])),
                                         "signed_message": {0: "prefix+static", 1: "prefix+another static", 2: "static only"}.get(t[22])}
                if t[18] == 2:
                    d["forging_endpoint"]["also_sends_a_payload_in_message_1"] = 1
            if t[23]:
                d["panic"] = {"in_initiator": t[24], "at": {0: "Write #%d on the insecure conn" % t[26], 1: "Read #%d on the insecure conn" % t[26], 2: "early-data handler Send", 3: "early-data handler Received"}.get(t[25])}
            o = t[28:]
            d["observed"] = [{"initiator": [CLS.get(o[i]), NAME.get(o[i + 1])], "responder": [CLS.get(o[i + 3]), NAME.get(o[i + 4])]}
                             for i in range(0, len(o) - 5, 6)]
            return d
        if t[0] == 2:
            ch, r = chain_of(t[3:])
            return {"stack": "tls ConfigForPeer callback / PubKeyFromCertChain", "key_type": KT.get(t[1]), "expected": NAME.get(t[2]), "chain": ch,
                    "callback": [TCLS.get(r[0]), NAME.get(r[1])], "PubKeyFromCertChain": [TCLS.get(r[2]), NAME.get(r[3])]}
        if t[0] == 3:
            r = t[3:]
            sides = []
            for _ in range(2):
                ident, exp, holds = r[:3]
                ch, r = chain_of(r[3:])
                sides.append({"holds_identity": NAME.get(ident), "expects": NAME.get(exp), "holds_leaf_cert_key": holds, "chain": ch})
            ekn = dict(EK)
            ekn[8] = "duplicate of the last handshake record"
            return {"stack": "tls handshake", "key_types": [KT.get(t[1]), KT.get(t[2])], "client": sides[0], "server": sides[1],
                    "edit": {"kind": ekn.get(r[0]), "direction": {0: "client->server", 1: "server->client"}.get(r[1]), "record": r[2], "byte": r[3]},
                    "client_observed": {"completed": r[4] == 0, "remote": NAME.get(r[5]), "post": r[7]},
                    "server_observed": {"completed": r[8] == 0, "remote": NAME.get(r[9]), "post": r[11]}}
        if t[0] == 5:
            return {"stack": "quic transport (TLS identity)", "key_types": [KT.get(t[1]), KT.get(t[2])], "dialer_holds": NAME.get(t[3]), "listener_holds": NAME.get(t[4]),
                    "dial_expects": NAME.get(t[5]), "dial": {"returned_conn": t[6], "remote": NAME.get(t[7])}, "listener": {"accepted": t[9], "remote": NAME.get(t[10])}}
        if t[0] == 6:
            return {"stack": "quic hole punch (server role of a simultaneous connect)", "key_type": KT.get(t[1]), "peer_at_punched_address": NAME.get(t[2]),
                    "dial_for": NAME.get(t[3]), "who_connects": {0: "the peer at the punched address, from it", 1: "the dialled peer, from another address"}.get(t[4]),
                    "dial": {"returned_conn": t[5], "remote": NAME.get(t[6])}}
        if t[0] == 7:
            return {"stack": "upgrader", "security": {0: "noise", 1: "tls"}.get(t[1]), "key_type": KT.get(t[2]), "via": {0: "Upgrader.Upgrade", 1: "TcpTransport.Dial"}.get(t[3]),
                    "direction": {0: "outbound", 1: "inbound (server role)"}.get(t[4]), "expects": NAME.get(t[5]), "remote_holds": NAME.get(t[6]),
                    "returned_conn": t[7], "remote": NAME.get(t[8])}
        if t[0] == 4:
            return {"stack": "swarm", "op": {0: "dialAddr", 1: "DialPeer", 2: "dialPeer over scripted dial sync"}.get(t[3]), "local": t[1], "dialled_peer": t[2],
                    "transport_authenticated": t[4], "returned_conn": t[5], "returned_remote": t[6]}
    except Exception:
        pass
    return {"raw": t[:80]}


def nontrivial(line):
    # non-trivial: an edit was applied, a payload/certificate deviates, some side refused, or a wrong-peer conn was offered
    t = line.split()
    if t[0] == b"1":
        return t[13] != b"0" or t[18] != b"0" or t[23] != b"0" or any(x != b"0" for x in t[28::3])
    if t[0] == b"2":
        return t[-4] != b"0" or t[-2] != b"0"
    if t[0] == b"3":
        return t[-12] != b"0" or t[-8] != b"0" or t[-4] != b"0"
    if t[0] == b"4":
        return t[4] != t[2]
    if t[0] == b"5":
        return t[6] == b"0"
    if t[0] == b"6":
        return t[2] != t[3] or t[4] != b"0"
    if t[0] == b"7":
        return t[5] != t[6]
    return True


def key(tag, toks, d):
    # identity of a failure: stack, clause, call site/side, then the canonical history
    if toks[0] == 1:
        return "C01:noise:%s:%s:cfg=%s:edit=%s:forge=%s:panic=%s" % (tag, d[:4], toks[1:13], toks[13:17], toks[18:23], toks[23:27])
    if toks[0] == 2 and tag == "M" and len(d) >= 4 and d[2] == 8:
        # accepted a certificate that is not validly self-signed (1 signed by another key, 2 altered); d[1]: 0 callback, 1 direct
        return "C01:tls:PubKeyFromCertChain:%s:self-signature-not-checked:%d" % ({0: "ConfigForPeer-callback", 1: "direct"}.get(d[1]), d[3])
    if toks[0] == 3 and tag == "M" and len(d) >= 5 and d[3] == 8:
        return "C01:tls:handshake:%s:self-signature-not-checked:%d" % ({0: "client", 1: "server"}.get(d[2]), d[4])
    return "C01:%s:%s:%s:%s" % ({2: "tls-verify", 3: "tls-handshake", 4: "swarm", 5: "quic", 6: "quic-holepunch", 7: "upgrader"}.get(toks[0], toks[0]), tag, d[:5], " ".join(map(str, toks[:120])))


CLAUSE = {1: "reported peer ID is not the ID of the reported public key", 2: "completed reporting a peer whose key the remote does not hold",
          3: "completed with a peer other than the named expected peer", 4: "completed although it received edited/withheld/replayed handshake data",
          5: "completed although the payload/certificate was produced with a substituted key or the peer lacks the certificate's private key",
          6: "accepted a certificate chain that does not certify the reported key",
          7: "a dial handed back a connection authenticated as another peer",
          8: "accepted a certificate that is not validly self-signed (1 = signed with another key, 2 = altered after signing)"}


def what(tag, toks, d):
    if toks[0] == 1:
        c = d[3] if len(d) > 3 else 0
        return "noise: %s (session %s, %s); %s" % (CLAUSE.get(c, "diag %s" % d), d[1] if len(d) > 1 else "?",
                                                  {0: "initiator", 1: "responder"}.get(d[2] if len(d) > 2 else -1, "?"), json.dumps(describe(toks))[:400])
    if toks[0] == 2:
        c = d[2] if len(d) > 2 else 0
        return "tls %s: %s %s" % ({0: "ConfigForPeer callback", 1: "PubKeyFromCertChain"}.get(d[1] if len(d) > 1 else -1), CLAUSE.get(c, "diag %s" % d), d[3:])
    if toks[0] == 3:
        c = d[3] if len(d) > 3 else 0
        return "tls handshake, %s: %s %s" % ({0: "client", 1: "server"}.get(d[2] if len(d) > 2 else -1), CLAUSE.get(c, "diag %s" % d), d[4:])
    if toks[0] == 4:
        return "swarm: %s: %s" % (CLAUSE[7], json.dumps(describe(toks)))
    if toks[0] == 6:
        return "quic hole punch: %s; %s" % (CLAUSE.get(d[2] if len(d) > 2 else 0, "diag %s" % d), json.dumps(describe(toks)))
    if toks[0] == 7:
        return "upgrader (%s): %s; %s" % ({0: "outbound", 1: "inbound"}.get(d[2] if len(d) > 2 else -1), CLAUSE.get(d[3] if len(d) > 3 else 0, "diag %s" % d), json.dumps(describe(toks)))
    if toks[0] == 5:
        c = d[3] if len(d) > 3 else 0
        return "quic, %s: %s; %s" % ({0: "dialer", 1: "listener"}.get(d[2] if len(d) > 2 else -1), CLAUSE.get(c, "diag %s" % d), json.dumps(describe(toks)))
    return "diag %s" % d


if __name__ == "__main__":
    ctx = Ctx("C01")
    ctx.assumptions = [
        "symbolic (Dolev-Yao) cryptography: SHA-256/HKDF/ChaChaPoly/X25519/signatures are free constructors; an AEAD box opens only under the same key, nonce and associated data; a signature verifies only for the key and message it was issued for (ideal scheme of c08/SymCrypto); computational soundness is outside Coq",
        "peer.IDFromPublicKey is injective (C08); the model numbers identity keys and peer IDs alike",
        "the per-key-type dimension (Ed25519, ECDSA, Secp256k1, RSA) is uniform in the symbolic model and is covered by the correspondence runs",
        "a duplicate of handshake message 2 or 3 (Noise) or of the last handshake record of a direction (TLS) arrives after the receiver's last handshake read: it is not handshake data for that receiver (it is rejected by the transport phase, C02)",
        "TLS 1.3 (crypto/tls) is an ideal authenticated key exchange: a side completes only if the handshake records it received are the ones the peer sent, VerifyPeerCertificate accepted the peer's chain, and the peer proved possession of the leaf certificate's private key; legacy_record_version bytes and ChangeCipherSpec records are not authenticated by TLS 1.3 by design and are not edited",
        "x509.ParseCertificate rejects a certificate carrying an extension twice; x509.Verify with the certificate itself as only root checks validity period and unhandled critical extensions but NOT the signature; Certificate.CheckSignature verifies the signature over RawTBSCertificate with the certificate's own key (the repair of the defect this check found)",
        "TLS monitor ground truth: an endpoint can get only its own identity key certified for a certificate key it holds (unforgeability hypothesis presents_only_own of c01_tls_monitor_accepts_model_partial)",
    ]
    standard_flow(ctx, dict(
        consts=consts,
        coq_targets=["c01/Properties.vo", "c01/Extract.vo"],
        props="c01/Properties.v",
        spec_module="c01.Spec",
        harness=harness, replay_harness=replay_harness, warm=warm,
        nontrivial=nontrivial,
        rule="Noise: real noise.Transport / SessionTransport pairs over an in-memory network with a message-aware man in the middle (deadlocks detected without timers). "
             "For Ed25519 and one other identity key type (quick; all four in thorough) on either side: (A) all 28x28 endpoint configurations (transport kind, DisablePeerIDCheck, "
             "expected peer \"\"/A/B/E, prologue nil/1/2) undisturbed; (B) every structural edit (a byte in the middle and at the end of every component, cuts at and one byte past every "
             "component boundary, cut by 1/16/17 bytes, length prefix enlarged, extended by 1/16 bytes, dropped, duplicated, spliced from a second concurrent session) of every message "
             "x 4x4 expected-peer settings x 5 prologue pairings; (C) every byte position of every handshake message (incl. the length prefix) flipped (sampled for the non-Ed25519 types in quick); "
             "(D) a cooperating malicious endpoint (flynn/noise driven directly) presenting 11 claimed identity keys (A/B/E canonical, junk, empty, and valid NON-canonical protobuf serializations: unknown field appended, fields reordered, non-minimal varint) x 7 signatures (own key over prefix+static / another static / static only, "
             "recorded signatures of A and B, junk, empty) x 4 settings x 2 prologues x both roles; the same endpoint completing Noise XX correctly while OMITTING the libp2p payload: a zero-length payload / bytes that are not a protobuf message in its message 2 (towards an initiator) or message 3 (towards a responder), "
             "and, as initiator, a valid payload already in message 1 (where honest endpoints send none) followed by a good / zero-length / field-less / foreign-key / junk payload in message 3; (F) always, for ALL 4x4 key-type pairs and both roles: the side names an identity E of each of the four key types "
             "(ID embeds the key: Ed25519, Secp256k1; ID is the hash of the key: ECDSA, RSA) or a string that is not a peer ID while A/B (of each key type) answers, plain Transport and SessionTransport, with the controls 'names the answering peer' and 'check disabled'; (E) faults: a panic at the k-th Write / Read on the insecure connection and in the early-data handler's Send / Received, "
             "in either endpoint x 4 expected-peer settings x 2 prologues (a panic must be an error outcome, never a session whose peer was not verified). Observed per endpoint: error class or RemotePeer()/RemotePublicKey(). "
             "TLS: (2) the VerifyPeerCertificate callback of ConfigForPeer(exp) and PubKeyFromCertChain on certificates built with 29 presentations (extension public key / signature / certificate key replaced, "
             "victim's extension replayed, stolen certificate, extension absent / twice / not ASN.1 / critical, other extensions, chain length 0/2, signed by another key and altered after signing — the corpus of the repaired self-signature defect, now rejected —, expired) x 4 expectations x identities; "
             "(2c) a concurrent stream: 4 goroutines verifying the victim's genuine certificate while 4 verify forged chains (the victim's extension in the attacker's certificate), 20k verifications per key type quick / 400k thorough: every forged chain must be rejected in every interleaving; (3) real tls.Transport pairs whose certificates were replaced by those presentations on either side x expected-peer settings, and a record-aware man in the middle: byte flips of every handshake record "
             "(content type, length, payload; all positions in thorough), truncate/extend/drop/duplicate/splice; after an undisturbed handshake one byte is exchanged each way (first Read on the client reports a server-side rejection). "
             "Swarm: (4) dialAddr, DialPeer and dialPeer-over-a-scripted-dial-sync on a real Swarm whose transport authenticates every peer 0..4 for every dialled peer 1..4. "
             "QUIC: (5) real QUIC transports over loopback UDP (they reuse Identity.ConfigForPeer / PubKeyFromCertChain): dialer A or E x listener B or E x every expected peer x key types; Dial's result, the listener's Accept, RemotePeer()/RemotePublicKey() on both ends; (6) hole punching in the server role (WithSimultaneousConnect(ctx, false)): a dial for P towards the address where a peer Q lives while Q "
             "connects to our listener from that very address (and the controls Q = P, P from another address). Upgrader: (7) Upgrader.Upgrade and TcpTransport.Dial (incl. the simultaneous-connect server role) in both directions x expected peer "
             "matching/different/empty x remote B/E x real Noise and TLS over loopback TCP. "
             "Every outcome is compared with the Coq model (conform_case) and judged by the property monitor (monitor_case). Non-trivial = edited, forged/mutated, refused, or a wrong-peer connection offered.",
        describe=describe, key=key, what=what, crosscheck=150,
    ))

#!/usr/bin/env python3
"""C09 — address book: TTL, expiry and GC semantics, identical in both stores.
See DESIGN.md section 6 (C09)."""
import os, sys
sys.path.insert(0, os.path.join(os.path.dirname(os.path.abspath(__file__)), "..", "tools"))
from vlib import *

PKG = "p2p/host/peerstore/pstoreds"
OVERLAY = {
    "p2p/host/peerstore/pstoreds/zz_c09_verif_test.go": "harness/overlay/pstoreds/c09_verif_test.go",
    "p2p/host/peerstore/pstoremem/zz_c09_export.go": "harness/overlay/pstoremem/c09_export.go",
}


def consts(ctx):
    ctx.gen_consts_go("core/peerstore", ["PermanentAddrTTL", "ConnectedAddrTTL", "TempAddrTTL",
                                         "RecentlyConnectedAddrTTL", "AddressTTL"])


def harness(ctx, casefile, tier, seed):
    return ctx.go_test(PKG, "TestVerifC09$", OVERLAY,
                       env={"VERIF_OUT": casefile, "VERIF_TIER": tier, "VERIF_SEED": str(seed)}, timeout=2400)


def warm(ctx):
    rc, out = ctx.go_test(PKG, "TestVerifNothing$", OVERLAY, timeout=1500)
    if rc != 0:
        ctx.obligations.append(("harness:compile", False, out[-1500:]))


def replay_harness(ctx, casefile, toks):
    return ctx.go_test(PKG, "TestVerifC09Replay$", OVERLAY,
                       env={"VERIF_OUT": casefile, "VERIF_REPLAY_CASE": " ".join(map(str, toks))}, timeout=600)


CONN, PERM = 1 << 40, (1 << 40) + 1


def ttl_s(w):
    return "connected" if w == CONN else "permanent" if w == PERM else "%ds" % w


def decode(t):
    """case tokens -> (cfg dict, [(index, opcode, text)])"""
    cfg = dict(store="pstoremem" if t[0] == 0 else "pstoreds", cache=t[1], lookahead_s=t[2],
               per_peer_cap=t[3], global_cap=t[4], record_cap=t[5], peers=t[6], addrs=t[7])
    ops, i, k = [], 8, 0

    def raws(i):
        n = t[i]
        l = ["a%d%s" % (t[i + 1 + 2 * j], {0: "", 1: "/p2p/self", 2: "/p2p/other"}.get(t[i + 2 + 2 * j], "?")) for j in range(n)]
        return l, i + 1 + 2 * n
    try:
        while i < len(t):
            c = t[i]
            if c in (1, 2):
                l, j = raws(i + 3)
                ops.append((k, c, "%s(p%d, %s, ttl=%s)" % ("AddAddrs" if c == 1 else "SetAddrs", t[i + 1], l, ttl_s(t[i + 2]))))
                i = j
            elif c == 3:
                ops.append((k, c, "UpdateAddrs(p%d, %s -> %s)" % (t[i + 1], ttl_s(t[i + 2]), ttl_s(t[i + 3]))))
                i += 4
            elif c == 4:
                ops.append((k, c, "ClearAddrs(p%d)" % t[i + 1]))
                i += 2
            elif c == 5:
                l, j = raws(i + 6)
                ops.append((k, c, "ConsumePeerRecord(p%d, seq=%d, rec#%d, %s, ttl=%s%s) -> %s" % (
                    t[i + 1], t[i + 2], t[i + 3], l, ttl_s(t[i + 4]), ", BAD-SIGNER" if t[i + 5] else "",
                    {0: "rejected", 1: "accepted", 2: "error"}.get(t[j], t[j]))))
                i = j + 1
            elif c == 6:
                n = t[i + 2]
                ops.append((k, c, "Addrs(p%d) -> %s" % (t[i + 1], ["a%d" % x for x in t[i + 3:i + 3 + n]])))
                i += 3 + n
            elif c == 7:
                n = t[i + 1]
                ops.append((k, c, "PeersWithAddrs() -> %s" % ["p%d" % x for x in t[i + 2:i + 2 + n]]))
                i += 2 + n
            elif c == 8:
                ops.append((k, c, "GetPeerRecord(p%d) -> %s" % (t[i + 1], "nil" if t[i + 2] == 0 else "rec#%d" % t[i + 2])))
                i += 3
            elif c == 9:
                ops.append((k, c, "advance %ds" % t[i + 1]))
                i += 2
            elif c == 10:
                ops.append((k, c, "GC -> stored=%d records=%d heap=%d" % (t[i + 1], t[i + 2], t[i + 3])))
                i += 4
            elif c == 11:
                ops.append((k, c, "close+reopen"))
                i += 1
            else:
                ops.append((k, c, "?? undecodable from token %d" % i))
                break
            k += 1
    except IndexError:
        ops.append((k, -1, "?? truncated"))
    return cfg, ops


def describe(t):
    cfg, ops = decode(t)
    return {"config": cfg, "ops": ["%d: %s" % (k, s) for k, _, s in ops[:200]]}


def nontrivial(line):
    # non-trivial: the history contains a clock advance and a GC run and a signed record
    t = line.split()
    return len(t) > 30


CLAUSE = {1: "record-acceptance", 2: "Addrs-exactly-unexpired", 3: "record-retrievable-iff-continuously-live",
          4: "listed-peers", 5: "gc-removes-expired/bounded", 0: "other"}
OPN = {1: "AddAddrs", 2: "SetAddrs", 3: "UpdateAddrs", 4: "ClearAddrs", 5: "ConsumePeerRecord", 6: "Addrs",
       7: "PeersWithAddrs", 8: "GetPeerRecord", 9: "advance", 10: "GC", 11: "reopen"}

# A root is the operation at which the store's faithful model first stops commuting with the abstract
# book, with what the store held for that peer at that moment:  (index, opcode, stale, lapsed, sfx, result).
# reason: which piece of expired-but-still-held state the store consulted there.
SHAPE = {
    ("stale-seq", 5): "Consume(p,s,{a},t); advance>=t; Consume(p,<s,..) -> rejected",
    ("stale-entry", 1): "Add(p,{a},T); advance>=T; Add(p,{a},t<T); Update(p,T,0) removes a",
    ("stale-entry", 5): "Add(p,{a},T); advance>=T; Consume(p,s,{a},t<T); Update(p,T,0) removes a",
    ("stale-entry", 3): "Add(p,{a},t); advance>=t; Update(p,t,T) -> Addrs(p) returns a again",
    ("lapsed-record", 1): "Consume(p,s,{a},t); p loses every live address (expiry / Set 0 / Update 0 / ttl<=0); Add(p,{b},T) -> GetPeerRecord(p) returns the old record",
    ("lapsed-record", 2): "Consume(p,s,{a},t); p loses every live address; Set(p,{b},T) -> GetPeerRecord(p) returns the old record",
    ("lapsed-record", 3): "Consume(p,s,{a},t); advance>=t; Update(p,t,T) -> old record and address are back",
    ("lapsed-record", 5): "Consume(p,s,{a},t); p loses every live address; Add(p,{a},T) or nothing; Consume(p,>=s,{b},T) treats the lapsed record as previous",
    ("record-suffix", 5): "Consume(p,1,{a/p2p/p or a},T); Consume(p,2,{.. a with/without /p2p/p ..},t): raw-byte comparison of record addresses",
    ("gc-leaves-expired", 10): "ds, cache>0, lookahead GC: Consume/Add(p,{a},t); advance>=t; GetPeerRecord(p) (cleans the cached record, no flush); GC -> the datastore keeps the expired record",
}


def reason_of(store, root):
    _, opc, stale, lapsed, sfx, res = root
    if opc == 10:
        # GC left an expired entry in the store; for ds the flags are (cache, lookahead)
        if store == 1 and stale == 1 and lapsed == 1:
            return "gc-leaves-expired"
        return "gc-leaves-expired/cache=%d/lookahead=%d" % (stale, lapsed)
    if opc == 5 and res == 0 and lapsed:
        return "stale-seq"
    if lapsed:
        return "lapsed-record"
    if stale:
        return "stale-entry"
    if sfx:
        return "record-suffix"
    return "none"


def root_key(store, cache, root):
    r = reason_of(store, root)
    st = "mem" if store == 0 else "ds"
    return "C09:%s:%s:at=%s:shape=%s" % (st, r, OPN.get(root[1], root[1]), SHAPE.get((r, root[1]), "-"))


def roots_of(d):
    r = d[5:]
    return [tuple(r[i:i + 6]) for i in range(0, len(r) - 5, 6)]


def key(tag, toks, d):
    if not d or d[0] != 902:
        return "C09:malformed:%s" % d
    store, weak = d[3], d[4]
    if weak:
        return "C09:%s:weak-monitor:clause=%s:%s" % ("mem" if store == 0 else "ds", CLAUSE.get(d[2]), " ".join(map(str, toks[:120])))
    roots = roots_of(d)
    if not roots:
        # the property fails although the store's model agrees with the abstract book: not attributable
        return "C09:%s:unattributed:clause=%s:%s" % ("mem" if store == 0 else "ds", CLAUSE.get(d[2]), " ".join(map(str, toks[:160])))
    keys = sorted({root_key(store, toks[1], r) for r in roots})
    known = {k.get("key") for k in KNOWN}
    unknown = [k for k in keys if k not in known]
    if unknown:
        return unknown[0]
    # every root is a recorded finding: report each of them
    for k in keys[1:]:
        CTX.report_failure(k, "", {})
    return keys[0]


def what(tag, toks, d):
    if not d or d[0] != 902:
        return "malformed case %s" % d
    cfg, ops = decode(toks)
    at = next((s for k, _, s in ops if k == d[1]), "?")
    if len(d) > 4 and d[4] == 1:
        return "%s (cache=%s, BINDING caps per-peer=%s global=%s records=%s; weak monitor: nothing expired/removed returned, |Addrs(p)| <= cap + 2k, GC leaves nothing expired, the address named last by a write batch that fits under the cap is returned until its deadline): clause %s fails at op %d: %s" % (
            cfg["store"], cfg["cache"], cfg["per_peer_cap"], cfg["global_cap"], cfg["record_cap"], CLAUSE.get(d[2]), d[1], at)
    roots = roots_of(d)
    rs = "; ".join("op %d %s [%s; stale_entry=%d lapsed_record=%d record_suffix=%d result=%d]" % (r[0], OPN.get(r[1], r[1]), reason_of(d[3], r), r[2], r[3], r[4], r[5]) for r in roots[:4])
    return "%s (cache=%s lookahead=%s): clause %s fails at op %d: %s; roots: %s" % (
        cfg["store"], cfg["cache"], cfg["lookahead_s"], CLAUSE.get(d[2]), d[1], at, rs or "none (model agrees with the abstract book)")


if __name__ == "__main__":
    ctx = Ctx("C09")
    CTX = ctx
    KNOWN = [k for k in ctx.known if k.get("property") == "C09" and k.get("status") == "finding"]
    ctx.assumptions = [
        "clock advances are non-negative whole seconds and finite TTLs whole seconds (the datastore-backed book stores expiries as unix seconds); total clock advance below ConnectedAddrTTL (292 years) — the only hypothesis of the pstoremem theorems (clock_ok)",
        "the pstoreds theorems (c09_ds_refines_spec, c09_ds_trace_holds, c09_mem_ds_equivalent, c09_ds_bounded_after_gc) hold under ds_ok: whole-second non-negative clock steps staying one second below ConnectedAddrTTL; every TTL <= 0, whole seconds or >= ConnectedAddrTTL; seq >= 0; lookahead interval >= 0 (each clause shown necessary by a witness)",
        "the refinement / equivalence theorems are about the books whose caps never bind (default caps on small universes / caps disabled); histories with binding caps are judged by the weak monitor (soundness + the bound cap + 2k per peer + 'the address a write batch names last is returned if the batch fits under the cap', the last proved of both books' capped loops and, for pstoreds, of the whole capped book for the read that follows the write): under a binding cap the books drop addresses by design, pstoremem picks victims by Go map order on ties and pstoreds counts once per batch and evicts only among pre-existing entries, so 'exactly' and 'same answers' have no well-defined target there; pstoreds with a binding per-peer cap is replayed on the capped model (Model_cap.dc_step), pstoremem with binding caps is not replayed",
        "container/heap ordering abstracted: PopIfExpired pops every heap entry with expiry <= now; sort.Slice = a correct sort that keeps the order of equal expiries (Go's insertion sort for at most 12 entries; the order matters only for the capped pstoreds book's victim on ties); go-datastore map store and the ARC cache (never evicting: cache disabled or larger than the universe) behave as maps",
        "signed records: envelopes are real (ed25519, record.Seal); a record is identified by (peer, seq, address list)",
        "each book method is one critical section (mutexes not modelled); AddrStream not covered",
    ]
    standard_flow(ctx, dict(
        consts=consts,
        coq_targets=["c09/Properties.vo", "c09/Extract.vo"],
        props="c09/Properties.v",
        spec_module="c09.Spec",
        harness=harness,
        replay_harness=replay_harness, warm=warm,
        nontrivial=nontrivial,
        rule="fixed corpus (repaired-defect witnesses, open-finding witnesses, delete-the-nearest-expiry-then-the-entry-behind-expires (deleteInPlace leaves the record unsorted), exactly-at-expiry, class transitions, record life cycle, "
             "/p2p suffixes, reopen) on 5 store configurations, then seeded random histories over 1-3 peers x 2-5 addresses x TTLs "
             "{-1,0,10s,2m,15m,30m,1h,connected,permanent}: AddAddr(s)/SetAddr(s)/record batches of 1-4 with own/foreign /p2p suffixes, one in five naming an address twice (plainly, or once with /p2p/<self>), UpdateAddrs between "
             "classes, ClearAddrs, ConsumePeerRecord with real sealed envelopes (lower/equal/higher seq, empty, wrong signer), clock advances "
             "(exactly TTL, TTL-1, small, 0), GC runs, close/reopen; every history is run on pstoremem and on pstoreds (cache 0 / >0, full-purge / "
             "lookahead GC), one in five with binding caps; plus reopen inserted after every (3rd) prefix. Deadline-directed histories: a shadow book steers writes and clock advances relative to the deadlines assigned so far (re-add with a smaller TTL class late enough that now+ttl outlives the old deadline, or too early to; UpdateAddrs(old == new) as a refresh; UpdateAddrs to another class; SetAddrs late in the life; connected and back), and the clock is walked to one second before / exactly on / just after / between the old and new deadlines with reads (Addrs, PeersWithAddrs, GetPeerRecord, GC, close+reopen) there, on pstoremem and pstoreds with cache off and on. Binding per-peer caps (1-3): fixed cases and histories built around batches that mix overrides of connected-class entries with new finite addresses, batches larger than the cap, connected->finite moves followed by insertions, on pstoremem and pstoreds (cache off/on) with the same cap; judged by the weak monitor (soundness + |Addrs(p)| <= cap + 2k + 'the most recent assignment is kept'); how often the two books differ is counted. Victim-renamed histories (caps 2-4): the cap is filled by single insertions one second apart, then ONE AddAddrs/SetAddrs batch that fits under the cap names new address(es) and after them the stored entry with the nearest expiry (the cap's eviction victim), optionally other stored entries and repeated names, with reads right after, one second before the batch's deadline and on it. Every answer is compared with the "
             "Coq model of that store (conform_case) and judged against the abstract book by the property monitor (monitor_case).",
        describe=describe, key=key, what=what, crosscheck=150,
    ))

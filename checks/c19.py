#!/usr/bin/env python3
"""C19 — HTTP Peer-ID auth reports only proven identities.  See DESIGN.md section 6 (C19)."""
import os, re, sys
sys.path.insert(0, os.path.join(os.path.dirname(os.path.abspath(__file__)), "..", "tools"))
from vlib import *

HS = "p2p/http/auth/internal/handshake"
AUTH = "p2p/http/auth"
SYM = "p2p/http/auth/internal/verifc19"
OVERLAY = {
    SYM + "/term.go": "harness/overlay/httpauth/verifc19/term.go",
    SYM + "/world.go": "harness/overlay/httpauth/verifc19/world.go",
    SYM + "/abstract.go": "harness/overlay/httpauth/verifc19/abstract.go",
    HS + "/zz_c19_core_verif_test.go": "harness/overlay/httpauth/c19_core_verif_test.go",
    HS + "/zz_c19_gen_verif_test.go": "harness/overlay/httpauth/c19_gen_verif_test.go",
    HS + "/zz_c19_mut_verif_test.go": "harness/overlay/httpauth/c19_mut_verif_test.go",
    HS + "/zz_c19_fmt_verif_test.go": "harness/overlay/httpauth/c19_fmt_verif_test.go",
    HS + "/zz_c19_cli_verif_test.go": "harness/overlay/httpauth/c19_cli_verif_test.go",
    HS + "/zz_c19_cli2_verif_test.go": "harness/overlay/httpauth/c19_cli2_verif_test.go",
    HS + "/zz_c19_obj_verif_test.go": "harness/overlay/httpauth/c19_obj_verif_test.go",
    HS + "/zz_c19_dflt_verif_test.go": "harness/overlay/httpauth/c19_dflt_verif_test.go",
    HS + "/zz_c19_swap_verif_test.go": "harness/overlay/httpauth/c19_swap_verif_test.go",
    HS + "/zz_c19_cache_verif_test.go": "harness/overlay/httpauth/c19_cache_verif_test.go",
    HS + "/zz_c19_hosts_verif_test.go": "harness/overlay/httpauth/c19_hosts_verif_test.go",
    HS + "/zz_c19_e2e_verif_test.go": "harness/overlay/httpauth/c19_e2e_verif_test.go",
    HS + "/zz_c19_hook_verif.go": "harness/overlay/httpauth/c19_hook_verif.go",
}


def consts(ctx):
    ctx.gen_consts_go(HS, ["challengeTTL", "challengeLen", "maxHeaderSize"])
    src = open(os.path.join(REPO, HS, "handshake.go"), errors="replace").read()
    m = re.search(r'const\s+PeerIDAuthScheme\s*=\s*"([^"\\]*)"', src)
    ctx.obligations.append(("consts:PeerIDAuthScheme", bool(m), "" if m else "literal not found in handshake.go"))
    if m:
        ctx.add_const_raw("Definition peerIDAuthScheme : list Z := [%s]." % "; ".join(str(b) for b in m.group(1).encode()),
                          "PeerIDAuthScheme string literal (handshake.go)")


def merge(casefile, parts):
    cov = {}
    with open(casefile, "w") as out:
        for p in parts:
            if os.path.exists(p):
                out.write(open(p).read())
                for k, v in read_cov(p).items():
                    cov[k] = cov.get(k, 0) + v
    with open(casefile + ".cov", "w") as f:
        for k in sorted(cov):
            f.write("%s %d\n" % (k, cov[k]))


def harness(ctx, casefile, tier, seed):
    p1 = casefile + ".hs"
    for p in (p1, p1 + ".cov"):
        if os.path.exists(p):
            os.remove(p)
    rc, out = ctx.go_test(HS, "TestVerifC19HS$", OVERLAY,
                          env={"VERIF_OUT": p1, "VERIF_TIER": tier, "VERIF_SEED": str(seed)}, timeout=2400)
    merge(casefile, [p1])
    return rc, out


def warm(ctx):
    rc, out = ctx.go_test(HS, "TestVerifNothing$", OVERLAY, timeout=1500)
    if rc != 0:
        ctx.obligations.append(("harness:compile", False, out[-1500:]))


KIND = {1: "genDataToSign", 2: "header parser", 3: "request at a server", 4: "client handshake", 5: "AuthenticatedDo against a scripted server", 7: "history of AuthenticatedDo calls (token cache)",
        8: "history of AuthenticatedDo calls of one client across hostnames and servers (token map)"}


def describe(t):
    d = {"kind": KIND.get(t[0], t[0])}
    try:
        if t[0] == 3:
            d.update({"mode": {0: "handshake server", 1: "ServerPeerIDAuth over HTTP"}.get(t[1]), "server_key": t[2],
                      "secret": t[3], "token_ttl_ns": t[4], "hostname_atom": t[5], "now_ns": t[6]})
            # skip the table to find the header text
            p = skip_table(t, 13)
            ln = t[p]
            d["header"] = bytes(x & 255 for x in t[p + 1:p + 1 + ln]).decode("latin1")[:600]
            d["answer"] = t[p + 1 + ln:p + 4 + ln]
        elif t[0] == 2:
            d["header"] = bytes(x & 255 for x in t[2:2 + t[1]]).decode("latin1")[:600]
        elif t[0] == 4:
            d.update({"client_key": t[1], "hostname_atom": t[2], "steps": t[3]})
        elif t[0] == 8:
            d.update({"client_key": t[1], "atom_of_the_empty_host": t[2], "calls": t[3]})
            p, calls = 4, []
            for _ in range(t[3]):
                rh, uh, nf = t[p], t[p + 1], t[p + 2]
                p += 3 + nf
                nr = t[p]; p += 1
                sts = []
                for _ in range(nr):
                    sts.append(t[p])
                    p = skip_bytes(t, skip_bytes(t, skip_table(t, p + 1)))
                pid, nq = t[p], t[p + 1]
                p += 2
                for _ in range(nq):
                    p = skip_ohdr(t, p)
                calls.append({"req_host_atom": "(no Host)" if rh == t[2] else rh, "url_host_atom": uh,
                              "response_statuses": sts, "requests_sent": nq, "returned_id": pid})
            d["history"] = calls
    except Exception as e:  # description only
        d["describe_error"] = str(e)
    d["raw_prefix"] = t[:40]
    return d


def skip_term(t, p):
    tag = t[p]
    if tag == 0:
        return p + 2 + t[p + 1]
    if tag in (1, 2, 7):
        return p + 2
    if tag == 3:
        return skip_term(t, p + 3)
    if tag == 4:
        return skip_term(t, p + 2)
    if tag == 5:
        return skip_term(t, p + 1)
    if tag == 6:
        return skip_term(t, skip_term(t, p + 1))
    raise ValueError("bad term tag %r at %d" % (tag, p))


def skip_oterm(t, p):
    return p + 1 if t[p] == 0 else skip_term(t, p + 1)


def skip_bytes(t, p):
    return p + 1 + t[p]


def skip_table(t, p):
    n = t[p]; p += 1
    for _ in range(n):
        p = skip_bytes(t, p) + 1
        p = skip_oterm(t, p)
    return p


def skip_ohdr(t, p):
    n = t[p]; p += 1
    for _ in range(n):
        p = skip_term(t, p + 1)
    return p


def reported_id(t):
    """does the case contain a reported identity (server accept / client reports a server id)?"""
    if t[0] == 3:
        p = skip_bytes(t, skip_table(t, 13))
        return (t[p] == 0 and t[p + 2] >= 0) if t[1] == 0 else t[p + 1] >= 0
    if t[0] == 4:
        p = 4
        for _ in range(t[3]):
            p = skip_bytes(t, skip_bytes(t, skip_table(t, p + 2)))
            if t[p + 2] >= 0:
                return True
            p = skip_ohdr(t, p + 5)
        return False
    if t[0] in (7, 8):
        return True
    if t[0] == 5:
        p = 4 + t[3]
        n = t[p]; p += 1
        for _ in range(n):
            p = skip_bytes(t, skip_bytes(t, skip_table(t, p + 1)))
        return t[p] >= 0
    return False


def nontrivial(line):
    # a case is non-trivial when an identity was reported (server accept / client reports an id)
    try:
        return reported_id([int(x) for x in line.split()])
    except Exception:
        return False


def key(tag, toks, d):
    return "C19:%s:kind%d:%s:%s" % (tag, toks[0], d[:3], " ".join(map(str, toks[1:60])))


def what(tag, toks, d):
    if toks[0] == 3 and len(d) > 1 and d[1] == 6:
        return "server handed out a token naming a peer that this request does not prove (diag %s)" % d
    if toks[0] == 3:
        return "server reported peer id %s without a proof in the request (diag %s)" % (d[2] if len(d) > 2 else "?", d)
    if toks[0] == 4:
        return "client reported a server id that no received signature proves (step %s, diag %s)" % (d[2] if len(d) > 2 else "?", d)
    if toks[0] == 7:
        return "history of AuthenticatedDo calls: call %s returned server id %s that the handshake behind the token in use / this call does not prove (diag %s)" % (
            d[2] if len(d) > 2 else "?", d[3] if len(d) > 3 else "?", d)
    if toks[0] == 8 and len(d) > 1 and d[1] == 9:
        return "one ClientPeerIDAuth against several servers: call %s only presented a stored token and returned server id %s, but no handshake bound to a hostname this request names (its Host, or for a request without Host the empty name / its URL's host) proved that id: the token was obtained for another hostname (diag %s)" % (
            d[2] if len(d) > 2 else "?", d[3] if len(d) > 3 else "?", d)
    if toks[0] == 8:
        return "one ClientPeerIDAuth against several servers: call %s ran a handshake and returned server id %s that no signature received in this call proves for a hostname the request names (diag %s)" % (
            d[2] if len(d) > 2 else "?", d[3] if len(d) > 3 else "?", d)
    if toks[0] == 5:
        return "AuthenticatedDo returned server id %s that no response proves (diag %s)" % (d[2] if len(d) > 2 else "?", d)
    return "diag %s" % d


if __name__ == "__main__":
    ctx = Ctx("C19")
    ctx.assumptions = [
        "ideal cryptography: a signature verifies under a public key for a message iff it was issued for exactly that key and message; an HMAC tag checks iff it is the tag of that secret over those bytes (Section hypotheses, instantiated with the term algebra's computation rules); the four real key types and HMAC-SHA256 are exercised by the correspondence only",
        "encoding/json round-trips the opaque state exactly (ClientPublicKey empty = absent); base64.URLEncoding is used as is",
        "peer id <-> public key is a bijection on the harness' keys (property C08)",
        "the random source never fails and never repeats a challenge",
    ]
    ctx.notes = [
        "observed, allowed by the property's token clause: VerifyBearer does not compare the token's hostname with the request's, so a token is accepted at every hostname served with the same secret (counters server_accept_token_other_hostname_*)",
        "observed: core/crypto's ECDSA Verify ignores bytes after the DER signature, so altered signature bytes can still verify; the harness asks the real verifier and describes such bytes as a re-encoding of the known signature (counter altered_signature_bytes_still_verify_keytype_3), not as a forgery",
        "observed outside the property (robustness): a client-initiated request whose public-key decodes to more than ~650 bytes (a marshalled RSA-8192 key, or garbage from anyone) makes PeerIDAuthHandshakeServer.Run panic in addOpaqueParam (h.buf[len(opaqueVal):] with a value longer than the 1024-byte buffer); no identity is reported; the harness keeps keys below that size",
    ]
    ctx.notes.append("observed: for a hand-built request without Host (req.Host == \"\") ClientPeerIDAuth binds the handshake and the token-map entry to the empty hostname, not to req.URL.Host which the transport sends; an honest server signs for the Host it received, so such a request never authenticates against it (counters hosts_call_host_empty_*); all Host-less requests share the entry of the empty name, which is consistent (the handshake that filled it was bound to the empty name) and accepted by the monitor")
    standard_flow(ctx, dict(
        consts=consts,
        coq_targets=["c19/Properties.vo", "c19/Extract.vo"],
        props="c19/Properties.v",
        spec_module="c19.Spec",
        harness=harness, warm=warm,
        nontrivial=nontrivial,
        rule="per round (4 quick / 72 thorough; the four key types rotate through the server and client roles): 14 valid handshakes of both "
             "flows run by the real handshake client and server, then ~850 requests derived from them (drop / duplicate / swap each parameter "
             "between sessions, clients, servers, hostnames, secrets; 7 re-encodings; every field of the opaque state and of the token altered, "
             "re-MACed under a foreign secret and under the right one; crafted, reflected, cross-domain and transplanted signatures; cross use "
             "of token and challenge; time offsets -1s,-1ns,0,+1ns,+1s around challengeTTL and TokenTTL; 20 header formattings), each run on the "
             "real PeerIDAuthHandshakeServer (mode 0) and again over HTTP/HTTPS through the real ServerPeerIDAuth with 9 transport variants "
             "(mode 1: Next callback argument, status, response header); 8 sequences per round on ONE handshake-server object reused through "
             "Reset() (bearer of X, anonymous request, what was handed out replayed as bearer / as opaque, answers of other clients, random walk); "
             "two independent default-configured ServerPeerIDAuth instances (HmacKey unset) with challenges and tokens swapped between them and "
             "states forged under the empty key and a known wrong key; 96 malicious-server streams (honest signature under key A, then public-key=B "
             "of the same / another key type / the client's own key in the unchecked bearer-only answer and after the end; client-initiated, "
             "server-initiated and fallback flows) against the handshake client and as many against AuthenticatedDo over HTTP; 60 scripted adversarial response sequences to the real handshake "
             "client (kind 4) and 60 to the real ClientPeerIDAuth.AuthenticatedDo over HTTP (kind 5); 2 real-client/real-server runs over HTTP "
             "with stored and expired tokens; byte-level cases for genDataToSign (kind 1) and parsePeerIDAuthSchemeParams (kind 2). Every "
             "answer is compared with the Coq model (conform_case) and judged by the property monitor (monitor_case: a reported id needs a proof in this request; an emitted token must name a peer this request proves). A case is non-trivial "
             "(kind 7: 36 histories per round of AuthenticatedDo calls on one ClientPeerIDAuth whose hostname moves between servers: token accepted / rejected / failed re-authentication / other statuses / random; "
             "kind 8: 42 histories per round of ONE ClientPeerIDAuth used against three scripted servers with different keys at different addresses: requests with Host set to a name / to the URL's own host / "
             "to another server's address and hand-built requests without Host (URL.Host only); honest servers signing for the Host they were sent, servers signing for the empty name, a server that answers 200 "
             "without authenticating; stored-token reuse at the same and another address, rejected tokens and re-authentication, statuses 204/403/404/500 on the token path, random histories; the monitor demands "
             "that every returned id is proven for a hostname the request names, in the call or by the handshake bound to that hostname that produced the token). A case is non-trivial when an identity was reported (server accept / client reports a server id); distinct = distinct case lines among those.",
        describe=describe, key=key, what=what, crosscheck=60,
    ))

#!/usr/bin/env python3
"""C12 — limited (relayed) connections are never mistaken for direct ones.  See DESIGN.md section 6 (C12)."""
import os, re, sys
sys.path.insert(0, os.path.join(os.path.dirname(os.path.abspath(__file__)), "..", "tools"))
from vlib import *

OVERLAY = {"p2p/net/swarm/zz_c12_verif_test.go": "harness/overlay/swarm/c12_verif_test.go"}


OVERLAY_HP = {"p2p/protocol/holepunch/zz_c12_hp_verif_test.go": "harness/overlay/holepunch/c12_hp_verif_test.go"}


def harness(ctx, casefile, tier, seed):
    """two in-package runs (swarm scenarios, hole-punch decisions); their case files are concatenated"""
    parts = [("p2p/net/swarm", "TestVerifC12$", OVERLAY), ("p2p/protocol/holepunch", "TestVerifC12HP$", OVERLAY_HP)]
    rc_all, out_all, cov = 0, "", {}
    with open(casefile, "w") as dst:
        for i, (pkg, run, ov) in enumerate(parts):
            part = casefile + ".part%d" % i
            for p in (part, part + ".cov", part + ".live"):
                if os.path.exists(p):
                    os.remove(p)
            rc, out = ctx.go_test(pkg, run, ov, env={"VERIF_OUT": part, "VERIF_TIER": tier, "VERIF_SEED": str(seed)}, timeout=2400)
            rc_all = rc_all or rc
            out_all += out
            src = part
            if rc != 0 and os.path.exists(part + ".live"):
                # the implementation crashed the test binary: keep the cases finished before the crash
                src = part + ".live"
            if os.path.exists(src):
                data = open(src).read()
                dst.write(data[:data.rfind("\n") + 1])
            for k, v in read_cov(part).items():
                cov[k] = cov.get(k, 0) + v
    with open(casefile + ".cov", "w") as f:
        for k in sorted(cov):
            f.write("%s %d\n" % (k, cov[k]))
    return rc_all, out_all


def warm(ctx):
    for pkg, run, ov in [("p2p/net/swarm", "TestVerifC12Nothing$", OVERLAY), ("p2p/protocol/holepunch", "TestVerifC12HPNothing$", OVERLAY_HP)]:
        rc, out = ctx.go_test(pkg, run, ov, timeout=1500)
        if rc != 0:
            ctx.obligations.append(("harness:compile:" + pkg, False, out[-1500:]))


def replay_harness(ctx, casefile, toks):
    if toks and toks[0] == 0:
        return ctx.go_test("p2p/net/swarm", "TestVerifC12Replay$", OVERLAY,
                           env={"VERIF_OUT": casefile, "VERIF_REPLAY_CASE": " ".join(map(str, toks))}, timeout=600)
    return 1, "no replay for this kind"


OPN = {1: 3, 10: 3, 2: 2, 3: 2, 5: 2, 4: 5, 6: 3, 8: 4, 9: 1, 11: 3, 12: 4, 13: 3, 14: 2, 15: 6}
FORCE = {0: "0", 1: "1", 2: "1(empty reason string)"}
ST = {6: "Connect-returned-nil", 0: "runnable?", 1: "waiting-for-direct", 2: "in-OpenStream(conn %d)", 3: "in-dialPeer", 4: "OK(conn %d)", 5: "ERR(%d)"}
ERR = {1: "ErrNoConn", 2: "ErrLimitedConn", 3: "ctx", 4: "open-failed", 5: "ErrNoAddresses", 6: "ErrNoGoodAddresses",
       7: "ErrAllDialsFailed", 8: "max-dial-attempts"}


def parse_swarm(t):
    """[(op tokens, obs dict)] of a kind-0 case"""
    i, steps = 2, []
    try:
        while i < len(t):
            c = t[i]
            n = 2 + t[i + 1] if c == 7 else OPN.get(c)
            if n is None:
                break
            op = t[i:i + n]
            i += n
            nw, key, cn, m = t[i:i + 4]
            i += 4
            cf = t[i:i + m]
            i += m
            k = t[i]
            i += 1
            ths = [(t[i + 3 * j], t[i + 3 * j + 1], t[i + 3 * j + 2]) for j in range(k)]
            i += 3 * k
            d = t[i]
            i += 1
            dl = [(t[i + 2 * j], t[i + 2 * j + 1]) for j in range(d)]
            i += 2 * d
            steps.append((op, dict(nw=nw, key=key, cn=cn, conns=cf, calls=ths, dials=dl)))
    except IndexError:
        pass
    return steps


def op_str(op):
    c = op[0]
    if c in (1, 10, 13):
        return "conn arrives%s(limited=%d proxy=%d)" % ({10: " already-closed ", 13: " with a blocking Connected handler "}.get(c, " "), op[1], op[2])
    if c == 14:
        return "Connected handler of conn %d returns" % op[1]
    if c == 2:
        return "conn %d reports closed" % op[1]
    if c == 3:
        return "conn %d Close()" % op[1]
    if c == 4:
        return "%s(allow_limited=%d force_direct=%s no_dial=%d)" % ("DialPeer" if op[1] else "NewStream", op[2], FORCE.get(op[3], op[3]), op[4])
    if c == 15:
        return ("%s(allow_limited=%d force_direct=%s no_dial=%d) AND a conn (limited=0 proxy=%d) arrives while it runs: addConn is started when the "
                "call has just looked at the connection list in waitForDirectConn and has not registered yet (else: once the call has blocked)"
                % ("DialPeer" if op[1] else "NewStream", op[2], FORCE.get(op[3], op[3]), op[4], op[5]))
    if c == 5:
        return "cancel call %d" % op[1]
    if c == 6:
        return "OpenStream of call %d returns %s" % (op[1], "ok" if op[2] else "error")
    if c == 7:
        return "peer addrs := %s" % ["%d:%s" % (a // 4, {0: "direct", 1: "relay", 2: "notransport", 3: "dnsaddr"}.get(a % 4, "?")) for a in op[2:]]
    if c == 8:
        return "dial on addr %d returns %s" % (op[1], ("conn(limited=%d)" % op[3]) if op[2] else "error")
    if c == 12:
        return "BasicHost.Connect(allow_limited=%d force_direct=%s no_dial=%d)" % (op[1], FORCE.get(op[2], op[2]), op[3])
    if c == 11:
        return "Conn.NewStream on conn %d (allow_limited=%d)" % (op[1], op[2])
    if c == 9:
        return "advance DialPeerTimeout"
    return str(op)


def st_str(st):
    s = ST.get(st[0], "?%d" % st[0])
    if st[0] == 5:
        return "ERR(%s)" % ERR.get(st[1], st[1])
    return s % st[1] if "%d" in s else s


def describe(t):
    if t and t[0] == 0:
        return {"kind": "swarm scenario", "DialAttempts": t[1],
                "steps": ["%s -> waiters=%d connectedness=%s conns=[%s] calls=[%s] dials=%s" % (
                    op_str(op), ob["nw"], {0: "NotConnected", 1: "Connected", 2: "Limited"}.get(ob["cn"], ob["cn"]),
                    ",".join(("L" if f & 1 else "-") + ("P" if f & 2 else "-") + ("u" if f & 4 else "x") for f in ob["conns"]),
                    ", ".join(st_str(s) for s in ob["calls"]), ob["dials"]) for op, ob in parse_swarm(t)][:40]}
    if t and t[0] == 1:
        sub = {1: "getDirectConnection", 2: "Service.handleNewStream (receiver)", 3: "holePuncher.directConnect (initiator)",
               4: "netNotifiee.Connected"}.get(t[1], "?")
        return {"kind": "hole-punch decision: " + sub, "raw": t[1:160],
                "format": "see coq/c12/SpecHP.v; address flag = relay + 2*public; events 10 force sim | 11 allow nodial | 12 force sim client m flags"}
    return {"raw": t[:120]}


def nontrivial(line):
    # a swarm case is non-trivial when some call had to wait for a direct connection or a dial was parked
    t = line.split()
    if t[0] != b"0":
        # hole punch: a case in which the host was asked for something (NewStream / Connect), or a conn was found
        return t[1] != b"4" and (b"10" in t or b"11" in t or b"12" in t)
    steps = parse_swarm([int(x) for x in t])
    return any(any(s[0] in (1, 3) for s in ob["calls"]) for _, ob in steps)


def key(tag, toks, d):
    # identity of a failure: kind + violated clause + the stimuli up to and including the failing step
    if toks and toks[0] == 0:
        idx = d[1] if len(d) > 1 else 0
        clause = d[2] if len(d) > 2 else 0
        steps = parse_swarm(toks)[:idx + 1]
        return "C12:swarm:clause=%d:%s" % (clause, "|".join(" ".join(map(str, op)) for op, _ in steps))
    if toks and toks[0] == 1:
        return "C12:holepunch:sub=%d:%s" % (toks[1], " ".join(map(str, toks[2:120])))
    return "C12:%s:%s" % (toks[:1], d)


CLAUSES = {1: "a call returned a connection it must not get (stream over a limited conn without allow-limited, or force-direct dial returning a relayed conn)",
           2: "waiter list length differs from the number of calls waiting for a direct connection",
           3: "a direct connection arrived but a call is still waiting",
           4: "a call whose context ended while waiting did not fail",
           5: "Connectedness answer wrong (only limited conns must give Limited; Connected needs a non-limited conn)",
           6: "a force-direct dial was handed a relay address",
           9: "a NewStream call was answered ErrLimitedConn although no direct connection had just arrived (it must wait instead)",
           11: "a call is still waiting for a direct connection although a usable non-limited connection is listed",
           10: "a force-direct BasicHost.Connect reported success although no connection over a non-proxy transport exists"}


def what(tag, toks, d):
    if toks and toks[0] == 0 and len(d) > 2:
        return "swarm scenario step %d: %s" % (d[1], CLAUSES.get(d[2], d))
    if toks and toks[0] == 1:
        return "hole-punch decision (%s) breaks the property: relay address dialled / punch not over a relayed conn / success without a direct connection" % {
            1: "getDirectConnection", 2: "handleNewStream", 3: "directConnect", 4: "netNotifiee.Connected"}.get(toks[1], "?")
    return "monitor diag %s" % d


if __name__ == "__main__":
    ctx = Ctx("C12")
    ctx.assumptions = [
        "one remote peer; the swarm's atomic sections (conns lock, directConnNotifs lock, one dial-worker loop iteration) are the model's steps; the Go scheduler/memory model is taken as sequentially consistent at that granularity",
        "transports: the transport registered for P_CIRCUIT answers Proxy()=true and dials exactly the /p2p-circuit addresses, every other transport answers false; a conn's Transport() is the transport that dialled it",
        "dial ranking delays, the dial limiter and the dial backoff are outside this property (C05): the harness uses a zero-delay ranker, a transparent limiter and clears the backoff through its public API",
        "timeouts: a wait or dial started at most DialPeerTimeout ago has expired after virtual time advances by DialPeerTimeout; timers fire on time",
    ]
    standard_flow(ctx, dict(
        coq_targets=["c12/Properties.vo", "c12/Extract.vo"],
        props="c12/Properties.v",
        spec_module="c12.Spec",
        harness=harness,
        replay_harness=replay_harness, warm=warm,
        nontrivial=nontrivial,
        rule="seeded random scenarios against the real Swarm in a synctest bubble: 7 structured openings (limited conn + 1-4 waiting "
             "NewStream calls; direct conn appears; direct conn disappears while the woken calls open their stream; direct conn gone "
             "before use; force-direct and ordinary dials sharing one worker, with and without an existing relayed conn) followed by "
             "4-25 random stimuli (conn arrives limited/proxy/already-closed, conn reports closed, conn Close, NewStream/DialPeer with "
             "all 8 option sets, cancel, OpenStream returns ok/error, peerstore addrs change, dial returns conn/error, time advances by "
             "DialPeerTimeout; every force-direct option is set with a reason or with the EMPTY reason string, half and half; "
             "wire op 15: a NewStream/DialPeer call during which a non-limited conn arrives - addConn is started from the IsClosed "
             "callback of the only usable (limited) conn when the call is inside waitForDirectConn's bestConnToPeer, the call is held "
             "at the following Conn.Stat() until addConn is past its notify section or parked on the waiter-list lock). After every stimulus: waiter-list length, Connectedness, every call's state/result, parked dials with "
             "their force-direct flag are compared with the Coq model (conform_case) and judged by the property monitor (monitor_case). "
             "Non-trivial = some call waited for a direct connection or a dial was parked; distinct = distinct case lines among those.",
        describe=describe, key=key, what=what, crosscheck=150,
    ))

#!/usr/bin/env python3
"""C16 — AutoNAT v2 server: no amplification, rate limits.  See DESIGN.md section 6 (C16)."""
import os, re, sys
sys.path.insert(0, os.path.join(os.path.dirname(os.path.abspath(__file__)), "..", "tools"))
from vlib import *

PKG = "p2p/protocol/autonatv2"
OVERLAY = {PKG + "/zz_c16_verif_test.go": "harness/overlay/autonatv2/c16_verif_test.go",
           PKG + "/zz_c16_session_verif_test.go": "harness/overlay/autonatv2/c16_session_verif_test.go"}


def consts(ctx):
    """Named constants by compile-and-print; the three literal window expressions of
    rateLimiter.cleanup and the per-message minimum of readDialData are cut out of the
    source text and evaluated by the Go compiler as well."""
    src = open(os.path.join(REPO, PKG, "server.go"), errors="replace").read()
    exprs = {}
    m = re.search(r"func \(r \*rateLimiter\) cleanup\(now time\.Time\) \{(.*?)\n\}\n", src, re.S)
    wins = re.findall(r"now\.Sub\(\s*[\w.]+\s*\)\s*(>=|<)\s*([\w.*() ]+?)\s*\{", m.group(1)) if m else []
    ok = len(wins) == 3 and [w[0] for w in wins] == [">=", "<", "<"]
    if ok:
        exprs["rl_window_reqs"] = wins[0][1]
        exprs["rl_window_peer"] = wins[1][1]
        exprs["rl_window_dd"] = wins[2][1]
    ctx.obligations.append(("consts:cleanup-window-expressions(3 comparisons >=,<,<)", ok, "" if ok else "found %r" % (wins,)))
    m2 = re.search(r"func readDialData\(.*?\n\}\n", src, re.S)
    small = re.findall(r"if\s+bytesLen\s*<\s*([\w.]+)\s*&&\s*remain\s*>\s*0", m2.group(0)) if m2 else []
    ok2 = len(small) == 1
    if ok2:
        exprs["dialdata_min_msg"] = small[0]
    ctx.obligations.append(("consts:readDialData-min-message-size", ok2, "" if ok2 else "found %r" % (small,)))
    exprs["stream_timeout_ns"] = "streamTimeout"
    exprs["time_minute_ns"] = "time.Minute"   # also keeps the "time" import used
    # option wiring: what New(WithServerRateLimit(101, 102, 103, 104)) hands to the server's limiter
    for nm, fld in (("opt_wire_rpm", "RPM"), ("opt_wire_per_peer", "PerPeerRPM"), ("opt_wire_dial_data", "DialDataRPM"),
                    ("opt_wire_max_concurrent", "MaxConcurrentRequestsPerPeer")):
        exprs[nm] = "func() int { an, _ := New(nil, WithServerRateLimit(101, 102, 103, 104)); return an.srv.limiter.%s }()" % fld
    exprs["opt_wire_allow_private_default"] = "func() int { an, _ := New(nil); if an.srv.allowPrivateAddrs { return 1 }; return 0 }()"
    exprs["default_rpm"] = "defaultSettings().serverRPM"
    exprs["default_per_peer_rpm"] = "defaultSettings().serverPerPeerRPM"
    exprs["default_dial_data_rpm"] = "defaultSettings().serverDialDataRPM"
    exprs["default_max_concurrent"] = "defaultSettings().maxConcurrentRequestsPerPeer"
    exprs["default_allow_private"] = "map[bool]int{false: 0, true: 1}[defaultSettings().allowPrivateAddrs]"
    if not (ok and ok2):
        return
    # `go test` hides the output of a passing test unless -v is given: add it for this call
    orig = ctx.go_test
    ctx.go_test = lambda pkg, run, entries, env=None, timeout=3600, extra=(): orig(pkg, run, entries, env, timeout, tuple(extra) + ("-v",))
    try:
        ctx.gen_consts_go(PKG, ["maxMsgSize", "minHandshakeSizeBytes", "maxHandshakeSizeBytes", "maxPeerAddresses"],
                          exprs=exprs, extra_imports=("time",))
    finally:
        ctx.go_test = orig


def harness(ctx, casefile, tier, seed):
    return ctx.go_test(PKG, "TestVerifC16$", OVERLAY,
                       env={"VERIF_OUT": casefile, "VERIF_TIER": tier, "VERIF_SEED": str(seed)}, timeout=2400)


def warm(ctx):
    rc, out = ctx.go_test(PKG, "TestVerifNothing$", OVERLAY, timeout=1500)
    if rc != 0:
        ctx.obligations.append(("harness:compile", False, out[-1500:]))


def replay_harness(ctx, casefile, toks):
    return ctx.go_test(PKG, "TestVerifC16Replay$", OVERLAY,
                       env={"VERIF_OUT": casefile, "VERIF_REPLAY_CASE": " ".join(map(str, toks))}, timeout=600)


def ip_legend():
    """IP id -> spellings, read off the harness' table (one id = one IP, by exact equality of the IP)"""
    leg = {}
    try:
        src = open(os.path.join(VERIF, "harness/overlay/autonatv2/c16_session_verif_test.go")).read()
        tab = src[src.index("var c16IPs = []c16IP{"):]
        tab = tab[:tab.index("\n}\n")]
        for lit, v6, zone, i in re.findall(r'\{"([^"]+)",\s*(true|false),\s*"([^"]*)",\s*(\d+),', tab):
            sp = ("/ip6zone/%s/ip6/%s" % (zone, lit)) if zone else ("/ip6/" if v6 == "true" else "/ip4/") + lit
            leg.setdefault(int(i), []).append(sp)
    except (OSError, ValueError):
        pass
    leg[0] = ["(no IP literal: /memory, /dns4, not a multiaddr)"]
    leg[16] = ["/ip4/0.0.0.0"]
    return {str(k): " = ".join(v) for k, v in sorted(leg.items())}


def describe(t):
    if not t:
        return {"raw": t}
    if t[0] == 0:
        return {"kind": "rateLimiter history", "RPM": t[1], "PerPeerRPM": t[2], "DialDataRPM": t[3],
                "MaxConcurrentRequestsPerPeer": t[4], "ops(raw: 1 p t res nreqs npeer ninprog | 2 t res ndd | 3 p ninprog | 4)": t[5:205]}
    if t[0] == 1:
        return {"kind": "readDialData", "numBytes": t[1], "nmsgs": t[2], "msgs(kind L D)*, result, consumed": t[3:203]}
    if t[0] == 3:
        return {"kind": "option wiring", "passed to New (rpm, perPeer, dialData, maxConc, allowPrivate, amplification policy)": t[1:7],
                "found in the server": t[7:13]}
    if t[0] == 2:
        return {"kind": "server session", "limits(RPM,PerPeer,DialData,MaxConc)": t[1:5],
                "raw(stimulus 1 sid peer observedIPid t good n k (aid cls IPid)^k new request|5 sid peer observedIPid t stream opened|6 late request|2 data|3 close|4 clock; nev events (10 response|11 sid idx n DialDataRequest|12 peer aid DIAL|13 reset); npeers inProgress...)": t[5:305],
                "IP ids (the IP of the request's connection and of each address entry)": ip_legend()}
    return {"raw": t[:100]}


def nontrivial(line):
    """kind 0: the limiter refused at least once; kind 1: more than one message was consumed or the
    stream was refused; kind 2: the dialer recorded a dial or the server asked for dial data."""
    t = line.split()
    if t[0] == b"0":
        i = 5
        while i < len(t):
            if t[i] == b"1":
                if t[i + 3] == b"0":
                    return True
                i += 7
            elif t[i] == b"2":
                if t[i + 2] == b"0":
                    return True
                i += 4
            elif t[i] == b"3":
                i += 3
            else:
                i += 1
        return False
    if t[0] == b"3":
        return False
    if t[0] == b"1":
        return t[-2] != b"0" or int(t[-1]) >= 2
    # kind 2: walk the steps
    i = 5
    try:
        while i < len(t):
            k = t[i]
            if k == b"1":
                i += 8 + 3 * int(t[i + 7])
            elif k == b"6":
                i += 6 + 3 * int(t[i + 5])
            elif k == b"2" or k == b"5":
                i += 5
            elif k == b"3":
                i += 2
            else:
                i += 2
            nev = int(t[i]); i += 1
            for _ in range(nev):
                e = t[i]
                if e in (b"11", b"12"):
                    return True
                i += {b"10": 4, b"11": 4, b"12": 3, b"13": 2}[e]
            i += 1 + int(t[i])
    except (IndexError, KeyError, ValueError):
        return True
    return False


CLAUSES = {2: "global RPM window", 3: "per-peer RPM window", 4: "dial-data RPM window", 5: "concurrent requests of one peer",
           11: "dial not covered by a paid-for request of that peer", 12: "OK answer to a request naming no public dialable address",
           13: "NumBytes outside 30..100 kB", 19: "event for a stream that is not open", 1: "clock not monotone"}


def key(tag, toks, d):
    # identity of a failure: kind + failing clause + limits + the case prefix up to the failing event
    kind = toks[0] if toks else -1
    clause = d[2] if len(d) > 2 else (d[0] if d else -1)
    if kind == 1:
        return "C16:readDialData:%s:%s" % (d[:1], " ".join(map(str, toks[:60])))
    return "C16:kind%d:clause%s:limits%s:at%s:%s" % (kind, clause, toks[1:5], d[1] if len(d) > 1 else "?",
                                                 " ".join(map(str, toks[5:125])))


def what(tag, toks, d):
    kinds = {0: "rateLimiter history", 1: "readDialData stream", 2: "server session"}
    kind = toks[0] if toks else -1
    if kind == 1:
        return "readDialData returned nil after %s bytes of dial data for numBytes=%s (diag %s)" % (d[3] if len(d) > 3 else "?", toks[1], d)
    return "%s violates the property at event %s: %s (diag %s)" % (
        kinds.get(kind, "case"), d[1] if len(d) > 1 else "?", CLAUSES.get(d[2] if len(d) > 2 else -1, "?"), d)


if __name__ == "__main__":
    ctx = Ctx("C16")
    ctx.assumptions = [
        "time.Time is an int64 nanosecond count that does not overflow; the clock handed to the limiter does not run backwards (Go's monotonic clock) - hypothesis `mono`/`smono` of the window theorems; the concurrency bound needs no clock hypothesis",
        "each rateLimiter method is one critical section (it holds r.mu throughout); concurrent calls are modelled as their interleavings",
        "an entry of DialRequest.addrs is abstracted to (parses, manet.IsPublicAddr, dialerHost.Network().CanDial, identity of its IP literal); the harness computes the first three with the real predicates on real multiaddrs and checks them against the class expected by construction",
        "NumBytes drawn by the server's RNG and the random wait before the dial are inputs of the model; hypothesis op_wf: minHandshakeSizeBytes <= n < maxHandshakeSizeBytes (rand.Intn's contract); the monitor checks 30000 <= n <= 100000 on every observed DialDataRequest",
        "dial-data bytes of a message: len(Data) for a well-formed DialDataResponse, the whole length for a message that is not one (the most it could carry); hypothesis msg_wf relates the two (checked on every case by conform_case)",
        "overlapping dial-backs of one peer share the dialer host's peerstore (a Connect may also dial the other in-flight request's already paid-for address); the harness' dialer fails every dial at once, so dials never overlap: not modelled",
        "dial status / dial-back stream (nonce delivery) are not part of the property and not modelled; the recording transport fails every dial",
    ]
    standard_flow(ctx, dict(
        consts=consts,
        coq_targets=["c16/Properties.vo", "c16/Extract.vo"],
        props="c16/Properties.v",
        spec_module="c16.Spec",
        harness=harness,
        replay_harness=replay_harness, warm=warm,
        nontrivial=nontrivial,
        rule="kind 0 (rateLimiter, virtual clock): EXHAUSTIVE enumeration of all sequences of depth 3 (quick) / 4 (thorough) over "
             "{Accept p0, Accept p1, AcceptDialDataRequest, CompleteRequest} x clock steps {0, 30 s, 1 min - 1 ns} with limits (2,1,1,1), plus seeded "
             "random histories (20..220 / 620 ops) with production, small and degenerate limits, 1..10 peers, clock steps aimed at the window edge of "
             "earlier accepted requests (exactly one minute, +-1 ns), bursts, jumps over the window, Close, spurious CompleteRequest; after each call "
             "the answer and len(reqs), len(peerReqs[p]), len(dialDataReqs), inProgressReqs[p] are compared with the Coq model. "
             "kind 1 (readDialData): sweep of every data length 0..300 and 8180..8190 as deciding message, random streams of well-formed / raw / tiny / "
             "oversized / truncated messages, early EOF, exactly-enough and one-byte-short totals, readers that return a few bytes per Read. "
             "kind 2 (serveDialRequest): seeded sessions in a synctest bubble on scripted streams with a real swarm as dialer whose transport records "
             "every Dial: 1..3 peers, request lists of 0..55 entries (public/private/no-transport/gated/DNS/unspecified/malformed, own and foreign IPs, "
             "IPv4-in-IPv6; the IP the request comes from and the IPs it names are drawn from neighbourhoods of near-equal IPs, "
             "most entries close to the observed IP: equal, IPv4 vs its IPv4-mapped IPv6 spelling (either side), NAT64/6to4 embeddings of the IPv4, "
             "other family, same /64 with another interface id, last bit only, first interface-id bit only, same /48 or /56 other /64, same /32, "
             "one high bit only, IPv4 first/last bit only, /ip6zone in front of either side; 'same IP' in model and monitor is exact equality "
             "of the 16 IP bytes, the id table is checked against the multiaddr's raw bytes), wrong message types, garbage, EOF, dial-data plans (correct, short, tiny, oversized, broken, one byte short), client "
             "close, stalls past the stream deadline, streams that are opened and send their request later or never (in flight after Accept "
             "without owing dial data), up to 6 overlapping requests, a third of the sessions with DialDataRPM 0..2 x MaxConcurrent 1..3 and requests that "
             "mostly need dial data, idle pauses across the one-minute window; after every stimulus the limiter's inProgressReqs entry of every peer is "
             "compared with the model (conformance only; the monitor counts in-flight requests from the session events alone). Every response, "
             "DialDataRequest, reset and dial is compared with the model (conform_case) and judged by the property monitor (monitor_case). "
             "Non-trivial: a limiter refusal (kind 0); more than one message consumed or an error (kind 1); a dial or a dial-data request (kind 2).",
        describe=describe, key=key, what=what, crosscheck=150,
    ))

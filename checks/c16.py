#!/usr/bin/env python3
"""C16 — AutoNAT v2 server: no amplification, rate limits.  See DESIGN.md section 6 (C16)."""
import os, re, sys
sys.path.insert(0, os.path.join(os.path.dirname(os.path.abspath(__file__)), "..", "tools"))
from vlib import *

PKG = "p2p/protocol/autonatv2"
OVERLAY = {PKG + "/zz_c16_verif_test.go": "harness/overlay/autonatv2/c16_verif_test.go",
           PKG + "/zz_c16_session_verif_test.go": "harness/overlay/autonatv2/c16_session_verif_test.go"}


def consts(ctx):
    """Named constants by compile-and-print; the three literal window expressions of
    rateLimiter.cleanup and the per-message minimum of readDialData are cut out of the
    source text and evaluated by the Go compiler as well."""
    src = open(os.path.join(REPO, PKG, "server.go"), errors="replace").read()
    exprs = {}
    m = re.search(r"func \(r \*rateLimiter\) cleanup\(now time\.Time\) \{(.*?)\n\}\n", src, re.S)
    wins = re.findall(r"now\.Sub\(\s*[\w.]+\s*\)\s*(>=|<)\s*([\w.*() ]+?)\s*\{", m.group(1)) if m else []
    ok = len(wins) == 3 and [w[0] for w in wins] == [">=", "<", "<"]
    if ok:
        exprs["rl_window_reqs"] = wins[0][1]
        exprs["rl_window_peer"] = wins[1][1]
        exprs["rl_window_dd"] = wins[2][1]
    ctx.obligations.append(("consts:cleanup-window-expressions(3 comparisons >=,<,<)", ok, "" if ok else "found %r" % (wins,)))
    m2 = re.search(r"func readDialData\(.*?\n\}\n", src, re.S)
    small = re.findall(r"if\s+bytesLen\s*<\s*([\w.]+)\s*&&\s*remain\s*>\s*0", m2.group(0)) if m2 else []
    ok2 = len(small) == 1
    if ok2:
        exprs["dialdata_min_msg"] = small[0]
    ctx.obligations.append(("consts:readDialData-min-message-size", ok2, "" if ok2 else "found %r" % (small,)))
    exprs["stream_timeout_ns"] = "streamTimeout"
    exprs["time_minute_ns"] = "time.Minute"   # also keeps the "time" import used
    exprs["default_rpm"] = "defaultSettings().serverRPM"
    exprs["default_per_peer_rpm"] = "defaultSettings().serverPerPeerRPM"
    exprs["default_dial_data_rpm"] = "defaultSettings().serverDialDataRPM"
    exprs["default_max_concurrent"] = "defaultSettings().maxConcurrentRequestsPerPeer"
    exprs["default_allow_private"] = "map[bool]int{false: 0, true: 1}[defaultSettings().allowPrivateAddrs]"
    if not (ok and ok2):
        return
    # `go test` hides the output of a passing test unless -v is given: add it for this call
    orig = ctx.go_test
    ctx.go_test = lambda pkg, run, entries, env=None, timeout=3600, extra=(): orig(pkg, run, entries, env, timeout, tuple(extra) + ("-v",))
    try:
        ctx.gen_consts_go(PKG, ["maxMsgSize", "minHandshakeSizeBytes", "maxHandshakeSizeBytes", "maxPeerAddresses"],
                          exprs=exprs, extra_imports=("time",))
    finally:
        ctx.go_test = orig


def harness(ctx, casefile, tier, seed):
    return ctx.go_test(PKG, "TestVerifC16$", OVERLAY,
                       env={"VERIF_OUT": casefile, "VERIF_TIER": tier, "VERIF_SEED": str(seed)}, timeout=2400)


def warm(ctx):
    rc, out = ctx.go_test(PKG, "TestVerifNothing$", OVERLAY, timeout=1500)
    if rc != 0:
        ctx.obligations.append(("harness:compile", False, out[-1500:]))


def replay_harness(ctx, casefile, toks):
    return ctx.go_test(PKG, "TestVerifC16Replay$", OVERLAY,
                       env={"VERIF_OUT": casefile, "VERIF_REPLAY_CASE": " ".join(map(str, toks))}, timeout=600)


def describe(t):
    if not t:
        return {"raw": t}
    if t[0] == 0:
        return {"kind": "rateLimiter history", "RPM": t[1], "PerPeerRPM": t[2], "DialDataRPM": t[3],
                "MaxConcurrentRequestsPerPeer": t[4], "ops(raw: 1 p t res nreqs npeer ninprog | 2 t res ndd | 3 p ninprog | 4)": t[5:205]}
    if t[0] == 1:
        return {"kind": "readDialData", "numBytes": t[1], "nmsgs": t[2], "msgs(kind L D)*, result, consumed": t[3:203]}
    if t[0] == 2:
        return {"kind": "server session", "limits(RPM,PerPeer,DialData,MaxConc)": t[1:5], "raw": t[5:305]}
    return {"raw": t[:100]}


def nontrivial(line):
    t = line.split()
    if t[0] == b"0":
        # at least one refusal by the limiter
        return True
    return True


def key(tag, toks, d):
    return "C16:kind%d:%s:%s" % (toks[0] if toks else -1, d[:6], " ".join(map(str, toks[:120])))


def what(tag, toks, d):
    kinds = {0: "rateLimiter history", 1: "readDialData stream", 2: "server session"}
    return "%s violates the property at event %s (diag %s)" % (kinds.get(toks[0] if toks else -1, "case"), d[1] if len(d) > 1 else "?", d)


if __name__ == "__main__":
    ctx = Ctx("C16")
    ctx.assumptions = []
    standard_flow(ctx, dict(
        consts=consts,
        coq_targets=["c16/Properties.vo", "c16/Extract.vo"],
        props="c16/Properties.v",
        spec_module="c16.Spec",
        harness=harness,
        replay_harness=replay_harness, warm=warm,
        nontrivial=nontrivial,
        rule="TODO",
        describe=describe, key=key, what=what, crosscheck=150,
    ))

#!/usr/bin/env python3
"""C11 — circuit relay v2.  See DESIGN.md section 6 (C11)."""
import os, re, sys
sys.path.insert(0, os.path.join(os.path.dirname(os.path.abspath(__file__)), "..", "tools"))
from vlib import *

PKG = "p2p/protocol/circuitv2/relay"
OVERLAY = {
    "p2p/net/mock/zz_c11_export.go": "harness/overlay/mocknet/c11_export.go",
    PKG + "/zz_c11_export_verif_test.go": "harness/overlay/relay/c11_export_verif_test.go",
    PKG + "/zz_c11_verif_test.go": "harness/overlay/relay/c11_verif_test.go",
    PKG + "/zz_c11_env_verif_test.go": "harness/overlay/relay/c11_env_verif_test.go",
    PKG + "/zz_c11_ops_verif_test.go": "harness/overlay/relay/c11_ops_verif_test.go",
    PKG + "/zz_c11_run_verif_test.go": "harness/overlay/relay/c11_run_verif_test.go",
    PKG + "/zz_c11_gen_verif_test.go": "harness/overlay/relay/c11_gen_verif_test.go",
    PKG + "/zz_c11_main_verif_test.go": "harness/overlay/relay/c11_main_verif_test.go",
    PKG + "/zz_c11_client_verif_test.go": "harness/overlay/relay/c11_client_verif_test.go",
    PKG + "/zz_c11_batch_verif_test.go": "harness/overlay/relay/c11_batch_verif_test.go",
}


def consts(ctx):
    ctx.gen_consts_go(PKG, ["maxMessageSize"], extra_imports=("time", "github.com/libp2p/go-libp2p/core/network"), exprs={
        "ReservationPriorityHigh": "network.ReservationPriorityHigh",
        "StreamTimeout_ms": "StreamTimeout / time.Millisecond",
        "HandshakeTimeout_ms": "HandshakeTimeout / time.Millisecond",
        "ConnectTimeout_ms": "ConnectTimeout / time.Millisecond",
        "def_MaxReservations": "DefaultResources().MaxReservations",
        "def_MaxCircuits": "DefaultResources().MaxCircuits",
        "def_MaxReservationsPerIP": "DefaultResources().MaxReservationsPerIP",
        "def_MaxReservationsPerASN": "DefaultResources().MaxReservationsPerASN",
        "def_BufferSize": "DefaultResources().BufferSize",
        "def_ReservationTTL_ms": "DefaultResources().ReservationTTL / time.Millisecond",
        "def_LimitData": "DefaultLimit().Data",
        "def_LimitDuration_ms": "DefaultLimit().Duration / time.Millisecond",
    })
    # the period of the collection ticker in Relay.background()
    src = open(os.path.join(REPO, PKG, "relay.go")).read()
    m = re.search(r"func \(r \*Relay\) background\(\) \{\s*ticker := time\.NewTicker\(time\.(Minute|Second)\)", src)
    ok = m is not None
    if ok:
        ctx.add_const_raw("Definition gc_period_ms : Z := %d." % (60000 if m.group(1) == "Minute" else 1000),
                          "period of the gc ticker in Relay.background() (source text)")
    ctx.obligations.append(("consts:gc_period", ok, "" if ok else "ticker literal not found in background()"))
    # proto.RecordDomain / proto.RecordCodec (source text of proto/voucher.go)
    vsrc = open(os.path.join(REPO, "p2p/protocol/circuitv2/proto/voucher.go")).read()
    md = re.search(r'const RecordDomain = "([^"]*)"', vsrc)
    mc = re.search(r"var RecordCodec = \[\]byte\{([^}]*)\}", vsrc)
    ok2 = md is not None and mc is not None
    if ok2:
        ctx.add_const_raw("Definition RecordDomain_z : list Z := [%s]." % "; ".join(str(b) for b in md.group(1).encode()),
                          "proto.RecordDomain = %r" % md.group(1))
        ctx.add_const_raw("Definition RecordCodec_z : list Z := [%s]." % "; ".join(str(int(x.strip(), 0)) for x in mc.group(1).split(",") if x.strip()),
                          "proto.RecordCodec")
    ctx.obligations.append(("consts:voucher_domain_codec", ok2, "" if ok2 else "RecordDomain/RecordCodec not found in voucher.go"))


def harness(ctx, casefile, tier, seed):
    return ctx.go_test(PKG, "TestVerifC11$", OVERLAY,
                       env={"VERIF_OUT": casefile, "VERIF_TIER": tier, "VERIF_SEED": str(seed)}, timeout=3000)


def warm(ctx):
    rc, out = ctx.go_test(PKG, "TestVerifNothing$", OVERLAY, timeout=1500)
    if rc != 0:
        ctx.obligations.append(("harness:compile", False, out[-1500:]))


def replay_harness(ctx, casefile, toks):
    return ctx.go_test(PKG, "TestVerifC11Replay$", OVERLAY,
                       env={"VERIF_OUT": casefile, "VERIF_REPLAY_CASE": " ".join(map(str, toks))}, timeout=900)


NARGS = {10: 2, 11: 2, 12: 4, 13: 7, 14: 3, 15: 2, 16: 2, 17: 1, 18: 0}
NOBS = {12: 8, 13: 3}
OPN = {10: "open", 11: "close", 12: "RESERVE", 13: "CONNECT", 14: "send", 15: "closewrite", 16: "reset", 17: "advance", 18: "Relay.Close"}


def parse(t):
    """-> (cfg dict, [(code, t, args, obs, snapshot)])"""
    if not t or t[0] != 1 or len(t) < 13:
        return None, []
    n = t[12]
    cfg = dict(zip(["ttl", "maxrsvp", "maxcirc", "maxip", "maxasn", "buf", "limited", "limdata", "limdur", "memlimit", "svcout", "n"], t[1:13]))
    i = 13
    cfg["addrs"] = [t[i + 6 * k:i + 6 * k + 6] for k in range(n)]
    i += 6 * n
    ops = []
    while i < len(t):
        code = t[i]
        if code not in NARGS:
            break
        na, no = NARGS[code], NOBS.get(code, 0)
        tt = t[i + 1]
        args = t[i + 2:i + 2 + na]
        obs = t[i + 2 + na:i + 2 + na + no]
        j = i + 2 + na + no
        if j + 4 + 12 * n >= len(t):
            break
        nc = t[j + 4 + 12 * n]
        ln = 4 + 12 * n + 1 + 5 * nc
        ops.append((code, tt, args, obs, t[j:j + ln]))
        i = j + ln
    return cfg, ops


def describe(t):
    cfg, ops = parse(t)
    if cfg is None:
        return {"raw": t[:100]}
    return {"cfg": cfg, "ops": ["%s@%d %s -> %s" % (OPN.get(c, c), tt, a, o) for (c, tt, a, o, s) in ops][:80]}


def nontrivial(line):
    # a case is non-trivial when a circuit was granted (CONNECT with relay status OK)
    t = [int(x) for x in line.split()]
    cfg, ops = parse(t)
    return any(c == 13 and o[1] == 100 for (c, tt, a, o, s) in ops)


KEY_CAPS = ("C11:clause=2(caps):constraints.Reserve<-handleReserve:hist=[p holds a reservation granted from address A; "
            "RESERVE by p from address B is refused (cap of B's IP/ASN, or total); RESERVE by q is granted within A's cap although p still holds]")
KEY_RACE = ("C11:clause=4(lifecycle):handleReserve:hist=[open p; RESERVE p; p's last connection closes before handleReserve takes r.mx "
            "(disconnected() already ran); reservation recorded for the disconnected peer, kept until TTL]")


def group_key(cfg, ops, toks, g):
    """identity of one failing event g = [902, index, clause, peer/circuit]"""
    idx, cl, k = g[1], g[2], g[3]
    if idx >= len(ops):
        # the trailing batch of concurrent requests (code 19): identity = clause + the requests
        tail = []
        if 19 in toks:
            i = len(toks) - 1 - toks[::-1].index(19)
            while i >= 0 and not (toks[i] == 19 and i + 3 < len(toks) and 0 < toks[i + 2] <= 64):
                i -= 1
            tail = toks[i:i + 4 + 7 * toks[i + 2]] if i >= 0 else []
        caps = "%d/%d/%d/%d" % (cfg["maxrsvp"], cfg["maxip"], cfg["maxasn"], cfg["maxcirc"])
        return "C11:concurrent-batch:clause=%d:k=%d:caps=%s:batch=%s" % (cl, k, caps, ",".join(map(str, tail[:40])))
    c, tt, a, o, s = ops[idx]
    n = cfg["n"]
    if cl == 2 and c == 12 and o[1] == 1:
        # a refused refresh earlier in the history: RESERVE by a peer holding a reservation, relay status 200
        for j in range(1, idx):
            c2, t2, a2, o2, s2 = ops[j]
            if c2 == 12 and o2[2] == 200 and ops[j - 1][4][4 + 12 * (a2[0] - 1)] >= 0:
                return KEY_CAPS
    if cl == 4 and c == 12 and a[3] == 2 and o[1] == 1 and k == a[0] and s[4 + 12 * (k - 1) + 10] == 0 and s[4 + 12 * (k - 1) + 11] == 0:
        return KEY_RACE
    hist = ";".join("%d:%s" % (c2, ",".join(map(str, a2))) for (c2, t2, a2, o2, s2) in ops[:idx + 1])
    caps = "%d/%d/%d/%d" % (cfg["maxrsvp"], cfg["maxip"], cfg["maxasn"], cfg["maxcirc"])
    addrs = "|".join(",".join(map(str, x)) for x in cfg["addrs"])
    return "C11:clause=%d:at=%s:k=%d:obs=%s:caps=%s:addrs=%s:hist=%s" % (cl, OPN.get(c, c), k, ",".join(map(str, o[:3])), caps, addrs, hist)


def pick_group(toks, d):
    """d is a sequence of groups of 4; the first group that is not a known finding decides"""
    cfg, ops = parse(toks)
    if cfg is None or len(d) < 4:
        return None, None, "C11:%s" % d
    known = {k.get("key") for k in load_known() if k.get("property") == "C11"}
    first = None
    for i in range(0, len(d) - 3, 4):
        g = d[i:i + 4]
        if g[0] != 902:
            break
        kk = group_key(cfg, ops, toks, g)
        if first is None:
            first = (g, kk)
        if kk not in known:
            return g, ops, kk
    return first[0], ops, first[1]


def key(tag, toks, d):
    return pick_group(toks, d)[2]


CLAUSE = {1: "a circuit was granted although the conditions (reservation, no relay hop, ACL, circuit caps) do not hold",
          2: "a reservation was granted beyond the total / per-IP / per-ASN cap",
          3: "the reservation voucher is not signed by the relay for exactly the reserving peer",
          4: "a reservation exists that should have disappeared (peer disconnected / expired and collected / never granted)",
          5: "circuit counters, connection-manager tags or reserved memory did not return to their previous values",
          6: "more than the configured bytes forwarded, or the circuit outlived the configured duration"}


def what(tag, toks, d):
    g = pick_group(toks, d)[0] or d
    return "%s (event %s, peer/circuit %s)" % (CLAUSE.get(g[2] if len(g) > 2 else 0, "monitor diag %s" % d), g[1] if len(g) > 1 else "?", g[3] if len(g) > 3 else "?")


if __name__ == "__main__":
    ctx = Ctx("C11")
    ctx.assumptions = [
        "one harness operation = one atomic step of the model: the harness waits for quiescence (synctest.Wait) between stimuli; concurrent requests racing on r.mx are NOT generated (the decisive sections of handleReserve/handleConnect/cleanup run under r.mx; the one cross-goroutine race that matters, RESERVE vs. the peer's own disconnect, is forced through the ACL callback)",
        "Go maps are total functions peer -> value; Go int/int64 are unbounded Z; time is virtual (testing/synctest), in ms since Relay creation, and collections happen exactly at the ticks of the one-minute ticker",
        "the connection manager is the real BasicConnMgr: a peer's tags disappear with its last connection (so disconnected() not untagging is not observable: candidate 9b of DESIGN section 9 dismissed); the resource manager is the real rcmgr with a limit on the relay service scope only; rcmgr's checkMemory formula ((1+prio)*limit/256) is transcribed, priorities re-read from the source",
        "mocknet streams ignore deadlines and have no scopes: the relay's streams are wrapped by the harness (deadline-honouring Read, real rcmgr stream scope opened/closed like the swarm does, WithNoDial honoured); yamux/QUIC stream deadlines themselves are not exercised",
        "a half-closed circuit whose remaining direction flows TOWARDS an endpoint that reset/disconnected is kept by the code until the next write or the deadline (the relay only notices on the side it reads from); the model tears it down at once and the generator never produces that state (safeToDrop)",
        "cryptography (record.Seal / ConsumeEnvelope) enters through the correspondence only: every granted voucher is verified with the real code against the relay's key; the model states the fields",
        "limited connections: the relay host may also hold a LIMITED (relayed) connection to a peer (connection index 2; faked by the harness at the Network().Connectedness level, which the relay's notifiee and handleReserve consult): Connectedness is then Limited when no direct connection is left, disconnected() must still drop the reservation and handleReserve must refuse; requests are never sent over the fake connection, and the connection manager does not see it (with a real limited connection the connmgr would keep the peer, and since disconnected() does not untag, the 'relay-reservation' tag would probably survive the reservation: not exercised)",
        "concurrency: half of the random histories end with a batch of 2-5 RESERVE/CONNECT requests launched at once (racing on r.mx, the counters and the constraints); the interleaving is the scheduler's, so the batch is judged at quiescence by the monitor only (caps, lifecycle, CONNECT conditions incl. MaxCircuits at quiescence, counters/tags/memory, limits), not replayed on the model",
        "hypotheses of the theorems: 0 <= ReservationTTL and 0 <= caps only ; the headline c11_monitor_accepts_model additionally needs peers among 1..n and a monotone clock with >= 1 ms per operation, checked on every recorded event (ev_okb) (the one-address and no-race hypotheses of the first round are gone with the fixes 648cd92 and 6afff63 in /repo; their former counterexamples are corpus cases: directed histories (a),(b),(d) of the harness and corpus_*_fixed in Properties.v)",
    ]
    standard_flow(ctx, dict(
        consts=consts,
        coq_targets=["c11/Properties.vo", "c11/Extract.vo"],
        props="c11/Properties.v",
        spec_module="c11.Spec",
        harness=harness, replay_harness=replay_harness, warm=warm,
        nontrivial=nontrivial,
        rule="4 directed histories (refused refresh through the per-IP and the per-ASN cap, data around the limit + duration limit, "
             "RESERVE racing with disconnect) and seeded random histories (600 quick / 2400 thorough, 20-60 ops) over 3-5 peers with two source "
             "addresses each (shared IPv4 addresses, IPv6 addresses in two real ASNs, ASN-less IPv6, relayed /p2p-circuit addresses, DNS addresses), "
             "small caps (MaxReservations 2-4, per-IP 1-2, per-ASN 1-3, MaxCircuits 1-2), rcmgr service limits that bind at 1-3 circuits: "
             "open/close connections, RESERVE (ACL allow/deny, disconnect injected while the ACL is consulted), CONNECT (stop handler: ok, reset, "
             "malformed, non-OK status, wrong type, silent until HandshakeTimeout, stop stream cannot be opened, EOF; source: malformed peer id, "
             "disconnects before the response, wrong message type, silent until StreamTimeout), payloads of limit-1/limit/limit+1/limit+50 bytes per "
             "direction, half-close, reset, time steps around TTL / gc ticks / duration limit, Relay.Close. After every op at quiescence: statuses "
             "seen by the client and recorded by the relay, voucher checked with the real crypto, Relay.rsvp/conns, constraints.total/ips/asns, "
             "connmgr tags, service-scope Stat(), bytes/EOF seen by both endpoints of every circuit. Everything is compared with the Coq model "
             "(conform_case) and judged by the property monitor (monitor_case). Non-trivial = a circuit was granted.",
        describe=describe, key=key, what=what, crosscheck=40,
    ))

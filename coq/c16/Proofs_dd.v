(* C16 — readDialData byte accounting *)
From Coq Require Import List ZArith Bool Lia.
From Verif Require Import lib.Wire gen.Consts_c16 c16.Model c16.Spec.
Import ListNotations.
Local Open Scope Z_scope.

Lemma bytes_len_le : forall L, bytes_len L <= L - 4.
Proof.
  intro L. unfold bytes_len. cbv zeta.
  destruct (L - 2 >? 127) eqn:E1;
    [destruct (L - 2 - 1 - 2 >? 127) eqn:E2 | destruct (L - 2 - 2 >? 127) eqn:E2]; lia.
Qed.

(* the four subtractions undo exactly the framing of a well-formed
   DialDataResponse that fits the read buffer *)
Lemma bytes_len_exact : forall D, 1 <= D -> wf_len D <= maxMsgSize ->
  bytes_len (wf_len D) = D.
Proof.
  intros D H1 H2. unfold wf_len, varint_len, maxMsgSize in *.
  destruct (D <=? 0) eqn:E0; [lia|].
  unfold bytes_len. cbv zeta.
  destruct (D <? 128) eqn:Ea; [|destruct (D <? 16384) eqn:Eb].
  - destruct (1 + 1 + D <? 128) eqn:Ec.
    + replace (1 + 1 + (1 + 1 + D) - 2) with (D + 2) by lia.
      destruct (D + 2 >? 127) eqn:Ed; [lia|].
      replace (D + 2 - 2) with D by lia. destruct (D >? 127) eqn:Ee; lia.
    + destruct (1 + 1 + D <? 16384) eqn:Ec2; [|lia].
      replace (1 + 2 + (1 + 1 + D) - 2) with (D + 3) by lia.
      destruct (D + 3 >? 127) eqn:Ed; [|lia].
      replace (D + 3 - 1 - 2) with D by lia. destruct (D >? 127) eqn:Ee; lia.
  - destruct (1 + 2 + D <? 128) eqn:Ec; [lia|].
    destruct (1 + 2 + D <? 16384) eqn:Ec2; [|lia].
    replace (1 + 2 + (1 + 2 + D) - 2) with (D + 4) by lia.
    destruct (D + 4 >? 127) eqn:Ed; [|lia].
    replace (D + 4 - 1 - 2) with (D + 1) by lia. destruct (D + 1 >? 127) eqn:Ee; lia.
  - destruct (1 + 3 + D <? 128) eqn:Ec; [lia|].
    destruct (1 + 3 + D <? 16384) eqn:Ec2; lia.
Qed.

(* what one message is counted for never exceeds the dial data it carries *)
Lemma counted_le_data : forall L D, msg_wf (MFull L D) = true -> L <= maxMsgSize ->
  bytes_len L <= D /\ 0 <= D.
Proof.
  intros L D H HL. unfold msg_wf in H.
  apply andb_true_iff in H. destruct H as [H0 H]. apply Z.leb_le in H0.
  apply orb_true_iff in H. destruct H as [H|H].
  - apply Z.eqb_eq in H. subst D. pose proof (bytes_len_le L). lia.
  - apply andb_true_iff in H. destruct H as [Hd He]. apply Z.leb_le in Hd. apply Z.eqb_eq in He.
    split; [|exact Hd].
    destruct (Z.eq_dec D 0) as [->|Hn].
    + subst L. vm_compute. discriminate.
    + subst L. rewrite bytes_len_exact; lia.
Qed.

Lemma dd_step_more : forall remain L D r', msg_wf (MFull L D) = true ->
  dd_step remain L = DDMore r' -> remain - D <= r' /\ 0 <= D.
Proof.
  intros remain L D r' Hw H. unfold dd_step in H.
  destruct (L >? maxMsgSize) eqn:EL; [discriminate|].
  assert (HL : L <= maxMsgSize) by lia.
  destruct (counted_le_data L D Hw HL) as [Hb Hd].
  cbv zeta in H.
  destruct (bytes_len L >? 0) eqn:Eb;
  destruct ((bytes_len L <? dialdata_min_msg) && (_ >? 0)) eqn:Es; try discriminate;
  destruct (_ >? 0) eqn:Er in H; try discriminate; inversion H; subst; lia.
Qed.

Lemma dd_step_done : forall remain L D, msg_wf (MFull L D) = true -> 0 < remain ->
  dd_step remain L = DDDone -> remain <= D.
Proof.
  intros remain L D Hw Hpos H. unfold dd_step in H.
  destruct (L >? maxMsgSize) eqn:EL; [discriminate|].
  assert (HL : L <= maxMsgSize) by lia.
  destruct (counted_le_data L D Hw HL) as [Hb Hd].
  cbv zeta in H.
  destruct (bytes_len L >? 0) eqn:Eb;
  destruct ((bytes_len L <? dialdata_min_msg) && (_ >? 0)) eqn:Es; try discriminate;
  destruct (_ >? 0) eqn:Er in H; try discriminate; lia.
Qed.

(* a message that carries fewer than the minimum while bytes remain is an error *)
Lemma dd_step_small : forall remain L, L <= maxMsgSize ->
  bytes_len L < dialdata_min_msg -> 0 < remain - Z.max 0 (bytes_len L) ->
  dd_step remain L = DDSmall.
Proof.
  intros remain L HL Hs Hr. unfold dd_step.
  destruct (L >? maxMsgSize) eqn:EL; [lia|]. cbv zeta.
  destruct (bytes_len L >? 0) eqn:Eb.
  - replace (bytes_len L <? dialdata_min_msg) with true by (symmetry; apply Z.ltb_lt; lia).
    replace (remain - bytes_len L >? 0) with true by (symmetry; apply Z.gtb_lt; lia). reflexivity.
  - replace (bytes_len L <? dialdata_min_msg) with true by (symmetry; apply Z.ltb_lt; lia).
    replace (remain >? 0) with true by (symmetry; apply Z.gtb_lt; lia). reflexivity.
Qed.

Lemma rdd_sound : forall msgs n c res cns,
  forallb msg_wf msgs = true ->
  read_dial_data n msgs c = (res, cns) -> res = 0 ->
  exists k : nat, cns = c + Z.of_nat k /\ n <= sum_data (firstn k msgs).
Proof.
  induction msgs as [|m r IH]; intros n c res cns Hw H Hres.
  - cbn [read_dial_data] in H. destruct (n <=? 0) eqn:En.
    + inversion H; subst. exists 0%nat. cbn. lia.
    + inversion H; subst. discriminate.
  - cbn [read_dial_data] in H. destruct (n <=? 0) eqn:En.
    + inversion H; subst. exists 0%nat. cbn. lia.
    + cbn [forallb] in Hw. apply andb_true_iff in Hw. destruct Hw as [Hm Hr].
      destruct m as [L D|]; [|inversion H; subst; discriminate].
      destruct (dd_step n L) eqn:Ed.
      * inversion H; subst; discriminate.
      * inversion H; subst; discriminate.
      * destruct (IH _ _ _ _ Hr H Hres) as [k [Hc Hs]].
        destruct (dd_step_more _ _ _ _ Hm Ed) as [H1 H2].
        exists (S k). split; [lia|]. cbn [firstn sum_data msg_data]. lia.
      * inversion H; subst. exists 1%nat. split; [lia|].
        cbn [firstn sum_data msg_data].
        assert (n <= D) by (apply (dd_step_done n L D Hm); [lia|exact Ed]). lia.
Qed.

(* headline for kind-1 cases: the monitor accepts whatever the model answers *)
Lemma holds_dialdata_model : forall n msgs, forallb msg_wf msgs = true ->
  let '(res, cns) := read_dial_data n msgs 0 in holds_dialdata n msgs res cns = [].
Proof.
  intros n msgs Hw. destruct (read_dial_data n msgs 0) as [res cns] eqn:E.
  unfold holds_dialdata. destruct (res =? 0) eqn:Er; [|reflexivity].
  apply Z.eqb_eq in Er. destruct (rdd_sound _ _ _ _ _ Hw E Er) as [k [Hc Hs]].
  replace (Z.to_nat cns) with k by lia.
  destruct (n <=? 0) eqn:En; [reflexivity|]. cbn [orb].
  replace (n <=? sum_data (firstn k msgs)) with true by (symmetry; apply Z.leb_le; exact Hs).
  reflexivity.
Qed.

(* readable form: nil is returned only after numBytes bytes of dial data *)
Lemma read_dial_data_bytes_l : forall n msgs cns, forallb msg_wf msgs = true ->
  read_dial_data n msgs 0 = (0, cns) ->
  n <= 0 \/ n <= sum_data (firstn (Z.to_nat cns) msgs).
Proof.
  intros n msgs cns Hw H. destruct (rdd_sound _ _ _ _ _ Hw H eq_refl) as [k [Hc Hs]].
  right. replace (Z.to_nat cns) with k by lia. exact Hs.
Qed.

(* C16 — AutoNAT v2 server.  Executable model transcribed from
   /repo/p2p/protocol/autonatv2/server.go (rateLimiter, readDialData,
   serveDialRequest) and msg_reader.go.  No proofs in this file.

   Times are int64 nanoseconds (Z); peers, stream ids and address ids are
   small integers assigned by the harness.  Constants come from
   gen/Consts_c16.v, which is re-read from /repo on every run. *)
From Coq Require Import List ZArith Bool.
From Verif Require Import gen.Consts_c16.
Import ListNotations.
Local Open Scope Z_scope.

Definition len {A} (l : list A) : Z := Z.of_nat (length l).

(* Go maps whose missing keys read as the zero value: total functions *)
Definition upd {A} (m : Z -> A) (k : Z) (v : A) : Z -> A :=
  fun x => if x =? k then v else m x.

(* ---- rateLimiter ------------------------------------------------------- *)

Record rl_cfg := mkCfg { RPM : Z; PerPeerRPM : Z; DialDataRPM : Z; MaxConc : Z }.

Record rl := mkRl {
  rl_closed : bool;
  rl_reqs : list (Z * Z);        (* reqs: (peer, time), oldest first *)
  rl_peer : Z -> list Z;         (* peerReqs *)
  rl_dd : list Z;                (* dialDataReqs *)
  rl_inprog : Z -> Z             (* inProgressReqs *)
}.

Definition rl_init : rl := mkRl false [] (fun _ => []) [] (fun _ => 0).

(* the inner loops of cleanup: index of the first entry with now.Sub(t) < w,
   slice from there *)
Fixpoint drop_stale (w now : Z) (l : list Z) : list Z :=
  match l with
  | [] => []
  | t :: r => if now - t <? w then l else drop_stale w now r
  end.

(* the outer loop of cleanup over r.reqs: for every leading entry with
   now.Sub(e.Time) >= w the peer's list is trimmed; stops at the first fresh
   entry *)
Fixpoint cleanup_reqs (now : Z) (rq : list (Z * Z)) (pm : Z -> list Z)
  : list (Z * Z) * (Z -> list Z) :=
  match rq with
  | [] => ([], pm)
  | (p, t) :: r =>
      if rl_window_reqs <=? now - t
      then cleanup_reqs now r (upd pm p (drop_stale rl_window_peer now (pm p)))
      else (rq, pm)
  end.

Definition rl_cleanup (l : rl) (now : Z) : rl :=
  let '(rq, pm) := cleanup_reqs now (rl_reqs l) (rl_peer l) in
  mkRl (rl_closed l) rq pm (drop_stale rl_window_dd now (rl_dd l)) (rl_inprog l).

(* Accept *)
Definition rl_accept (c : rl_cfg) (l : rl) (p now : Z) : rl * bool :=
  if rl_closed l then (l, false) else
  let l1 := rl_cleanup l now in
  if MaxConc c <=? rl_inprog l1 p then (l1, false)
  else if (RPM c <=? len (rl_reqs l1)) || (PerPeerRPM c <=? len (rl_peer l1 p)) then (l1, false)
  else (mkRl false (rl_reqs l1 ++ [(p, now)]) (upd (rl_peer l1) p (rl_peer l1 p ++ [now]))
             (rl_dd l1) (upd (rl_inprog l1) p (rl_inprog l1 p + 1)), true).

(* AcceptDialDataRequest *)
Definition rl_accept_dd (c : rl_cfg) (l : rl) (now : Z) : rl * bool :=
  if rl_closed l then (l, false) else
  let l1 := rl_cleanup l now in
  if DialDataRPM c <=? len (rl_dd l1) then (l1, false)
  else (mkRl false (rl_reqs l1) (rl_peer l1) (rl_dd l1 ++ [now]) (rl_inprog l1), true).

(* CompleteRequest *)
Definition rl_complete (l : rl) (p : Z) : rl :=
  if rl_closed l then l else
  let v := rl_inprog l p - 1 in
  mkRl false (rl_reqs l) (rl_peer l) (rl_dd l) (upd (rl_inprog l) p (if v <=? 0 then 0 else v)).

(* Close *)
Definition rl_close (l : rl) : rl :=
  mkRl true (rl_reqs l) (fun _ => []) [] (fun _ => 0).

(* operation language of the limiter (kind-0 cases and theorems) *)
Inductive rop :=
| RAccept (p t : Z)
| RAcceptDD (t : Z)
| RComplete (p : Z)
| RClose.

(* what the harness observes after each call: the answer and the sizes of the
   structures the call touched *)
Inductive robs :=
| OAccept (ok : bool) (nreqs npeer ninprog : Z)
| OAcceptDD (ok : bool) (ndd : Z)
| OComplete (ninprog : Z)
| OClose.

Definition rl_step (c : rl_cfg) (l : rl) (o : rop) : rl * robs :=
  match o with
  | RAccept p t => let '(l', ok) := rl_accept c l p t in
                   (l', OAccept ok (len (rl_reqs l')) (len (rl_peer l' p)) (rl_inprog l' p))
  | RAcceptDD t => let '(l', ok) := rl_accept_dd c l t in (l', OAcceptDD ok (len (rl_dd l')))
  | RComplete p => let l' := rl_complete l p in (l', OComplete (rl_inprog l' p))
  | RClose => (rl_close l, OClose)
  end.

Fixpoint rl_trace (c : rl_cfg) (l : rl) (ops : list rop) : list (rop * robs) :=
  match ops with
  | [] => []
  | o :: r => let '(l', x) := rl_step c l o in (o, x) :: rl_trace c l' r
  end.

(* ---- readDialData ------------------------------------------------------ *)

(* the length arithmetic on one message of [L] bytes *)
Definition bytes_len (L : Z) : Z :=
  let b := L - 2 in
  let b := if b >? 127 then b - 1 else b in
  let b := b - 2 in
  if b >? 127 then b - 1 else b.

Inductive dd_res :=
| DDErr               (* ReadMsg failed: EOF, truncated, invalid varint, sz > len(Buf) *)
| DDSmall             (* "dial data msg too small" *)
| DDMore (remain : Z) (* loop continues *)
| DDDone.             (* loop condition remain > 0 false: return nil *)

(* one iteration of the loop on a complete message of L bytes (msgReader
   refuses sz > len(Buf) = maxMsgSize) *)
Definition dd_step (remain L : Z) : dd_res :=
  if L >? maxMsgSize then DDErr else
  let b := bytes_len L in
  let remain' := if b >? 0 then remain - b else remain in
  if (b <? dialdata_min_msg) && (remain' >? 0) then DDSmall
  else if remain' >? 0 then DDMore remain' else DDDone.

(* a message as the reader meets it *)
Inductive dmsg :=
| MFull (L D : Z)     (* a complete message of L bytes; D = dial-data bytes it carries *)
| MBroken.            (* truncated message / invalid length prefix / reader error *)

(* result code (0 = nil, 1 = read error, 2 = too small) and number of complete
   messages consumed *)
Fixpoint read_dial_data (remain : Z) (msgs : list dmsg) (consumed : Z) : Z * Z :=
  if remain <=? 0 then (0, consumed) else
  match msgs with
  | [] => (1, consumed)                      (* EOF *)
  | MBroken :: _ => (1, consumed)
  | MFull L _ :: r =>
      match dd_step remain L with
      | DDErr => (1, consumed)
      | DDSmall => (2, consumed + 1)
      | DDMore remain' => read_dial_data remain' r (consumed + 1)
      | DDDone => (0, consumed + 1)
      end
  end.

(* ---- serveDialRequest -------------------------------------------------- *)

(* an entry of DialRequest.addrs as the server sees it: does it parse, is it
   public (manet.IsPublicAddr), can the dialer host dial it (Network().CanDial),
   and the identity of its IP (0 = no IP, e.g. a DNS name) *)
Record addr := mkAddr { a_id : Z; a_parse : bool; a_pub : bool; a_dial : bool; a_ip : Z }.

Definition usable (a : addr) : bool := a_parse a && a_pub a && a_dial a.

(* the address loop: first usable entry among the first maxPeerAddresses *)
Fixpoint select_from (i : Z) (l : list addr) : option (Z * addr) :=
  match l with
  | [] => None
  | a :: r => if maxPeerAddresses <=? i then None
              else if usable a then Some (i, a) else select_from (i + 1) r
  end.
Definition select_addr (l : list addr) : option (Z * addr) := select_from 0 l.

(* amplificationAttackPrevention: data is required unless both addresses have
   an IP and the IPs are equal *)
Definition need_data (obs_ip : Z) (a : addr) : bool :=
  (obs_ip =? 0) || (a_ip a =? 0) || negb (obs_ip =? a_ip a).

Definition ST_REJECTED : Z := 100.
Definition ST_REFUSED : Z := 101.
Definition ST_OK : Z := 200.

(* a request in flight: waiting for its DialRequest message (w_req = true; the
   address fields are then unused) or for dial data *)
Record wstream := mkW {
  w_sid : Z; w_peer : Z; w_addr : addr; w_idx : Z; w_remain : Z; w_req : bool; w_obs : Z
}.

Definition no_addr : addr := mkAddr 0 false false false 0.

Record sstate := mkS { s_rl : rl; s_wait : list wstream }.

Definition s_init : sstate := mkS rl_init [].

Inductive sop :=
| SReq (sid p obs_ip t : Z) (good : bool) (addrs : list addr) (n : Z)
    (* a stream from peer p arrives at time t; good = the first message is a
       DialRequest (otherwise: garbage, another message type, or EOF);
       n = the numBytes the server's RNG draws if it asks for data *)
| SOpen (sid p obs_ip t : Z)
    (* a stream from peer p arrives at time t but the client does not send its
       request yet: the server has called Accept and blocks reading *)
| SLate (sid t : Z) (good : bool) (addrs : list addr) (n : Z)
    (* the first message of such a stream arrives at time t *)
| SData (sid : Z) (m : dmsg)    (* the client writes one dial-data message *)
| SEof (sid : Z)                (* the client closes / resets its side *)
| STimeout (t : Z).             (* the clock passes every open stream's deadline *)

Inductive sev :=
| ERespond (sid status idx : Z)
| EAsk (sid idx n : Z)
| EDial (p aid : Z)
| EReset (sid : Z).

Fixpoint find_w (sid : Z) (l : list wstream) : option wstream :=
  match l with
  | [] => None
  | w :: r => if w_sid w =? sid then Some w else find_w sid r
  end.

Definition remove_w (sid : Z) (l : list wstream) : list wstream :=
  filter (fun w => negb (w_sid w =? sid)) l.

(* dialBack followed by the OK response and the deferred CompleteRequest *)
Definition finish_dial (l : rl) (sid p : Z) (a : addr) (idx : Z) : rl * list sev :=
  (rl_complete l p, [EDial p (a_id a); ERespond sid ST_OK idx]).

Definition s_step (c : rl_cfg) (s : sstate) (o : sop) : sstate * list sev :=
  match o with
  | SReq sid p obs t good addrs n =>
      match find_w sid (s_wait s) with
      | Some _ => (s, [])          (* stream ids are unique: ignored *)
      | None =>
      let '(l1, ok) := rl_accept c (s_rl s) p t in
      if negb ok then (mkS l1 (s_wait s), [ERespond sid ST_REJECTED 0])
      else if negb good then (mkS (rl_complete l1 p) (s_wait s), [EReset sid])
      else match select_addr addrs with
      | None => (mkS (rl_complete l1 p) (s_wait s), [ERespond sid ST_REFUSED 0])
      | Some (idx, a) =>
          if need_data obs a then
            let '(l2, ok2) := rl_accept_dd c l1 t in
            if negb ok2 then (mkS (rl_complete l2 p) (s_wait s), [ERespond sid ST_REJECTED 0])
            else if n <=? 0 then
              let '(l3, evs) := finish_dial l2 sid p a idx in
              (mkS l3 (s_wait s), EAsk sid idx n :: evs)
            else (mkS l2 (s_wait s ++ [mkW sid p a idx n false obs]), [EAsk sid idx n])
          else
            let '(l3, evs) := finish_dial l1 sid p a idx in (mkS l3 (s_wait s), evs)
      end
      end
  | SOpen sid p obs t =>
      match find_w sid (s_wait s) with
      | Some _ => (s, [])
      | None =>
      let '(l1, ok) := rl_accept c (s_rl s) p t in
      if negb ok then (mkS l1 (s_wait s), [ERespond sid ST_REJECTED 0])
      else (mkS l1 (s_wait s ++ [mkW sid p no_addr 0 0 true obs]), [])
      end
  | SLate sid t good addrs n =>
      match find_w sid (s_wait s) with
      | None => (s, [])
      | Some w =>
      if negb (w_req w) then (s, []) else
      let p := w_peer w in
      let l1 := s_rl s in
      let rest := remove_w sid (s_wait s) in
      if negb good then (mkS (rl_complete l1 p) rest, [EReset sid])
      else match select_addr addrs with
      | None => (mkS (rl_complete l1 p) rest, [ERespond sid ST_REFUSED 0])
      | Some (idx, a) =>
          if need_data (w_obs w) a then
            let '(l2, ok2) := rl_accept_dd c l1 t in
            if negb ok2 then (mkS (rl_complete l2 p) rest, [ERespond sid ST_REJECTED 0])
            else if n <=? 0 then
              let '(l3, evs) := finish_dial l2 sid p a idx in
              (mkS l3 rest, EAsk sid idx n :: evs)
            else (mkS l2 (map (fun x => if w_sid x =? sid
                                        then mkW (w_sid x) (w_peer x) a idx n false (w_obs x) else x)
                              (s_wait s)), [EAsk sid idx n])
          else
            let '(l3, evs) := finish_dial l1 sid p a idx in (mkS l3 rest, evs)
      end
      end
  | SData sid m =>
      match find_w sid (s_wait s) with
      | None => (s, [])
      | Some w =>
          let rest := remove_w sid (s_wait s) in
          if w_req w then (mkS (rl_complete (s_rl s) (w_peer w)) rest, [EReset sid]) else
          match m with
          | MBroken => (mkS (rl_complete (s_rl s) (w_peer w)) rest, [EReset sid])
          | MFull L _ =>
              match dd_step (w_remain w) L with
              | DDErr | DDSmall => (mkS (rl_complete (s_rl s) (w_peer w)) rest, [EReset sid])
              | DDMore r' =>
                  (mkS (s_rl s)
                       (map (fun x => if w_sid x =? sid
                                      then mkW (w_sid x) (w_peer x) (w_addr x) (w_idx x) r' false (w_obs x) else x)
                            (s_wait s)), [])
              | DDDone =>
                  let '(l3, evs) := finish_dial (s_rl s) sid (w_peer w) (w_addr w) (w_idx w) in
                  (mkS l3 rest, evs)
              end
          end
      end
  | SEof sid =>
      match find_w sid (s_wait s) with
      | None => (s, [])
      | Some w => (mkS (rl_complete (s_rl s) (w_peer w)) (remove_w sid (s_wait s)), [EReset sid])
      end
  | STimeout _ =>
      (mkS (fold_left (fun l w => rl_complete l (w_peer w)) (s_wait s) (s_rl s)) [],
       map (fun w => EReset (w_sid w)) (s_wait s))
  end.

Fixpoint s_trace (c : rl_cfg) (s : sstate) (ops : list sop) : list (sop * list sev) :=
  match ops with
  | [] => []
  | o :: r => let '(s', evs) := s_step c s o in (o, evs) :: s_trace c s' r
  end.

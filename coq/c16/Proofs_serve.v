(* C16 — serveDialRequest: what is dialled, for whom, and after how much data *)
From Coq Require Import List ZArith Bool Lia.
From Verif Require Import lib.Wire gen.Consts_c16 c16.Model c16.Spec c16.Proofs_dd c16.Proofs_rl.
Import ListNotations.
Local Open Scope Z_scope.

Lemma consts_data_l :
  minHandshakeSizeBytes = SPEC_MIN_DATA /\ maxHandshakeSizeBytes = SPEC_MAX_DATA.
Proof. split; reflexivity. Qed.

(* ---- the address loop ---------------------------------------------------- *)
Lemma select_from_sound : forall l i idx a, select_from i l = Some (idx, a) ->
  In a l /\ usable a = true /\ i <= idx < maxPeerAddresses /\
  nth_error l (Z.to_nat (idx - i)) = Some a /\
  forall j b, (j < Z.to_nat (idx - i))%nat -> nth_error l j = Some b -> usable b = false.
Proof.
  induction l as [|x r IH]; intros i idx a H; cbn [select_from] in H; [discriminate|].
  destruct (maxPeerAddresses <=? i) eqn:Em; [discriminate|]. apply Z.leb_gt in Em.
  destruct (usable x) eqn:Eu.
  - inversion H; subst. replace (idx - idx) with 0 by lia. cbn.
    split; [left; reflexivity|]. split; [exact Eu|]. split; [lia|]. split; [reflexivity|]. intros j b Hj. lia.
  - destruct (IH _ _ _ H) as [H1 [H2 [H3 [H4 H5]]]].
    replace (Z.to_nat (idx - i)) with (S (Z.to_nat (idx - (i + 1)))) by lia.
    split; [right; exact H1|]. split; [exact H2|]. split; [lia|]. split; [exact H4|].
    intros j b Hj Hn. destruct j as [|j]; cbn in Hn.
    + inversion Hn; subst; exact Eu.
    + apply (H5 j b); [lia|exact Hn].
Qed.

Lemma select_none_no_usable : forall l, has_usable l = false -> select_addr l = None.
Proof.
  unfold select_addr, has_usable. intro l. generalize 0.
  induction l as [|x r IH]; intros i H; cbn [select_from]; [reflexivity|].
  cbn [existsb] in H. apply orb_false_iff in H. destruct H as [H1 H2].
  destruct (maxPeerAddresses <=? i); [reflexivity|]. rewrite H1. apply IH, H2.
Qed.

Lemma need_data_false : forall obs a, need_data obs a = false -> ip_differs obs a = false.
Proof.
  unfold need_data, ip_differs. intros obs a H.
  apply orb_false_iff in H. destruct H as [H H3]. apply orb_false_iff in H. destruct H as [H1 H2].
  rewrite H1, H2. cbn [negb andb]. apply negb_false_iff in H3. rewrite H3. reflexivity.
Qed.

(* ---- coupling of the model's waiting requests with the monitor's streams -- *)
Definition wrel (w : wstream) (m : mstream) : Prop :=
  w_sid w = m_sid m /\ w_peer w = m_peer m /\ w_obs w = m_obs m /\
  if w_req w then m_addrs m = [] /\ m_asked m = None
  else In (w_addr w) (m_addrs m) /\ usable (w_addr w) = true /\ 0 < w_remain w /\
       exists n, m_asked m = Some n /\ n - w_remain w <= m_sent m.

Definition srel (s : sstate) (l : list mstream) : Prop :=
  Forall2 wrel (s_wait s) l /\ NoDup (map w_sid (s_wait s)).

Lemma f2_sids : forall ws l, Forall2 wrel ws l -> map w_sid ws = map m_sid l.
Proof. induction 1 as [|w m ws l H _ IH]; [reflexivity|]. cbn. destruct H as [H _]. rewrite H, IH. reflexivity. Qed.

Lemma find_w_none : forall sid ws, find_w sid ws = None -> ~ In sid (map w_sid ws).
Proof.
  induction ws as [|w r IH]; intro H; cbn; [tauto|]. cbn [find_w] in H.
  destruct (w_sid w =? sid) eqn:E; [discriminate|]. apply Z.eqb_neq in E. intros [A|A]; [lia|exact (IH H A)].
Qed.

Lemma find_w_some : forall sid ws w, find_w sid ws = Some w -> In w ws /\ w_sid w = sid.
Proof.
  induction ws as [|x r IH]; intros w H; cbn [find_w] in H; [discriminate|].
  destruct (w_sid x =? sid) eqn:E.
  - inversion H; subst. apply Z.eqb_eq in E. split; [left; reflexivity|exact E].
  - destruct (IH _ H). split; [right|]; assumption.
Qed.

Lemma in_flight_false : forall sid l, ~ In sid (map m_sid l) -> in_flight sid l = false.
Proof.
  unfold in_flight. induction l as [|m r IH]; intro H; [reflexivity|]. cbn in *.
  destruct (m_sid m =? sid) eqn:E; [apply Z.eqb_eq in E; tauto|]. apply IH. tauto.
Qed.

Lemma in_flight_true : forall sid l, In sid (map m_sid l) -> in_flight sid l = true.
Proof.
  unfold in_flight. induction l as [|m r IH]; intro H; [destruct H|]. cbn in *.
  destruct H as [H|H]; [rewrite H, Z.eqb_refl; reflexivity|]. rewrite (IH H). apply orb_true_r.
Qed.

Lemma drop_notin : forall sid l, ~ In sid (map m_sid l) -> drop_stream sid l = l.
Proof.
  induction l as [|m r IH]; intro H; [reflexivity|]. cbn in *.
  destruct (m_sid m =? sid) eqn:E; [apply Z.eqb_eq in E; tauto|]. cbn. f_equal. apply IH. tauto.
Qed.

Lemma drop_app_new : forall sid l x, ~ In sid (map m_sid l) -> m_sid x = sid ->
  drop_stream sid (l ++ [x]) = l.
Proof.
  intros. unfold drop_stream. rewrite filter_app. fold (drop_stream sid l). rewrite drop_notin by assumption.
  cbn. rewrite H0, Z.eqb_refl. cbn. apply app_nil_r.
Qed.

Lemma find_app_new : forall sid l x, ~ In sid (map m_sid l) -> m_sid x = sid ->
  find_stream sid (l ++ [x]) = Some x.
Proof.
  induction l as [|m r IH]; intros x H Hx; cbn in *.
  - rewrite Hx, Z.eqb_refl. reflexivity.
  - destruct (m_sid m =? sid) eqn:E; [apply Z.eqb_eq in E; tauto|]. apply IH; tauto.
Qed.

Lemma in_flight_app_new : forall sid l x, m_sid x = sid -> in_flight sid (l ++ [x]) = true.
Proof. intros. apply in_flight_true. rewrite map_app. apply in_or_app. right. left. exact H. Qed.

Lemma map_notin_id : forall sid (g : mstream -> mstream) l, ~ In sid (map m_sid l) ->
  map (fun s => if m_sid s =? sid then g s else s) l = l.
Proof.
  induction l as [|m r IH]; intro H; [reflexivity|]. cbn in *.
  destruct (m_sid m =? sid) eqn:E; [apply Z.eqb_eq in E; tauto|]. f_equal. apply IH. tauto.
Qed.

Lemma f2_find : forall ws l sid w, Forall2 wrel ws l -> find_w sid ws = Some w ->
  exists m, find_stream sid l = Some m /\ wrel w m /\ In m l.
Proof.
  induction 1 as [|w0 m0 ws l H0 _ IH]; intro H; cbn [find_w] in H; [discriminate|].
  cbn [find_stream find]. destruct H0 as [Hs Hrest]. rewrite <- Hs.
  destruct (w_sid w0 =? sid) eqn:E.
  - inversion H; subst. exists m0. split; [reflexivity|]. split; [split; assumption|left; reflexivity].
  - destruct (IH H) as [m [A [B C]]]. exists m. split; [exact A|]. split; [exact B|right; exact C].
Qed.

Lemma f2_filter : forall sid ws l, Forall2 wrel ws l ->
  Forall2 wrel (remove_w sid ws) (drop_stream sid l).
Proof.
  induction 1 as [|w m ws l H _ IH]; [constructor|].
  unfold remove_w, drop_stream in *. cbn [filter]. destruct H as [Hs Hr]. rewrite <- Hs.
  destruct (negb (w_sid w =? sid)); [constructor; [split; assumption|exact IH]|exact IH].
Qed.

Lemma f2_map : forall (f : wstream -> wstream) (g : mstream -> mstream) ws l,
  Forall2 wrel ws l -> (forall w m, In w ws -> wrel w m -> wrel (f w) (g m)) ->
  Forall2 wrel (map f ws) (map g l).
Proof.
  induction 1 as [|w m ws l H _ IH]; intro G; [constructor|]. cbn [map]. constructor.
  - apply G; [left; reflexivity|exact H].
  - apply IH. intros. apply G; [right|]; assumption.
Qed.

Lemma nodup_filter_sids : forall sid ws, NoDup (map w_sid ws) -> NoDup (map w_sid (remove_w sid ws)).
Proof.
  induction ws as [|w r IH]; intro H; [constructor|]. cbn in *. inversion H; subst.
  unfold remove_w in *. cbn [filter]. destruct (negb (w_sid w =? sid)); [|apply IH; assumption].
  cbn. constructor; [|apply IH; assumption]. intro A. apply H2.
  apply in_map_iff in A. destruct A as [x [A1 A2]]. apply filter_In in A2. destruct A2 as [A2 _].
  apply in_map_iff. exists x. split; assumption.
Qed.

Lemma nodup_unique : forall ws w x, NoDup (map w_sid ws) -> In w ws -> In x ws -> w_sid x = w_sid w -> x = w.
Proof.
  induction ws as [|y r IH]; intros w x H Hw Hx E; [destruct Hw|]. cbn in H. inversion H; subst.
  destruct Hw as [Hw|Hw]; destruct Hx as [Hx|Hx]; subst; auto.
  - exfalso. apply H2. rewrite <- E. apply in_map, Hx.
  - exfalso. apply H2. rewrite E. apply in_map, Hw.
Qed.

Lemma nodup_snoc : forall (l : list Z) x, NoDup l -> ~ In x l -> NoDup (l ++ [x]).
Proof.
  induction l as [|y r IH]; intros x N H; cbn; [constructor; [tauto|constructor]|].
  inversion N; subst. constructor.
  - rewrite in_app_iff. cbn. intros [A|[A|[]]]; [tauto|]. apply H. left. symmetry. exact A.
  - apply IH; [assumption|]. intro A. apply H. right. exact A.
Qed.

(* more data sent never breaks the coupling *)
Lemma wrel_add_sent : forall w m d, 0 <= d -> wrel w m ->
  wrel w (mkM (m_sid m) (m_peer m) (m_obs m) (m_addrs m) (m_asked m) (m_sent m + d)).
Proof.
  intros w m d Hd [A [B [O C]]]. unfold wrel. cbn [m_sid m_peer m_obs m_addrs m_asked m_sent].
  split; [exact A|]. split; [exact B|]. split; [exact O|].
  destruct (w_req w); [exact C|].
  destruct C as [C [D [E [n [F G]]]]]. split; [exact C|]. split; [exact D|]. split; [exact E|].
  exists n. split; [exact F|lia].
Qed.

Definition add_sent (sid d : Z) (l : list mstream) : list mstream :=
  map (fun s => if m_sid s =? sid
                then mkM (m_sid s) (m_peer s) (m_obs s) (m_addrs s) (m_asked s) (m_sent s + d) else s) l.

Lemma f2_add_sent : forall sid d ws l, 0 <= d -> Forall2 wrel ws l -> Forall2 wrel ws (add_sent sid d l).
Proof.
  intros sid d ws l Hd H. induction H as [|w m ws l H _ IH]; [constructor|].
  unfold add_sent in *. cbn [map]. constructor; [|exact IH].
  destruct (m_sid m =? sid); [apply wrel_add_sent; assumption|exact H].
Qed.

Lemma add_sent_sids : forall sid d l, map m_sid (add_sent sid d l) = map m_sid l.
Proof.
  intros. unfold add_sent. rewrite map_map. apply map_ext. intro s. destruct (m_sid s =? sid); reflexivity.
Qed.

Lemma find_add_sent : forall sid d l m0, find_stream sid l = Some m0 ->
  let m1 := mkM (m_sid m0) (m_peer m0) (m_obs m0) (m_addrs m0) (m_asked m0) (m_sent m0 + d) in
  find_stream sid (add_sent sid d l) = Some m1 /\ In m1 (add_sent sid d l).
Proof.
  induction l as [|x r IH]; intros m0 H; cbn [find_stream find] in H; [discriminate|].
  unfold add_sent. cbn [map find_stream find]. destruct (m_sid x =? sid) eqn:E.
  - inversion H; subst. cbn [m_sid]. rewrite E. split; [reflexivity|left; reflexivity].
  - rewrite E. destruct (IH _ H) as [A B]. split; [exact A|right; exact B].
Qed.

Lemma msg_data_nonneg : forall m, msg_wf m = true -> 0 <= msg_data m.
Proof.
  intros [L D|] H; cbn; [|lia]. unfold msg_wf in H.
  apply andb_true_iff in H. destruct H as [H0 H]. apply Z.leb_le in H0.
  apply orb_true_iff in H. destruct H as [H|H].
  - apply Z.eqb_eq in H. lia.
  - apply andb_true_iff in H. destruct H as [H _]. apply Z.leb_le in H. exact H.
Qed.

(* every open stream is reset by a timeout, in order, and nothing stays open *)
Lemma timeout_events : forall ws l, Forall2 wrel ws l -> NoDup (map w_sid ws) ->
  dmon_events l (map (fun w => EReset (w_sid w)) ws) = inl [].
Proof.
  induction 1 as [|w m ws l H F IH]; intro N; [reflexivity|].
  cbn [map dmon_events dmon_event]. cbn [map] in N. apply NoDup_cons_iff in N. destruct N as [H1 H2].
  destruct H as [Hs _].
  assert (Hin : in_flight (w_sid w) (m :: l) = true) by (cbn; rewrite <- Hs, Z.eqb_refl; reflexivity).
  rewrite Hin.
  assert (Hd : drop_stream (w_sid w) (m :: l) = l).
  { unfold drop_stream. cbn [filter]. rewrite <- Hs, Z.eqb_refl. cbn [negb].
    apply drop_notin. rewrite <- (f2_sids _ _ F). exact H1. }
  rewrite Hd. apply IH, H2.
Qed.

Definition set_addrs (sid : Z) (addrs : list addr) (l : list mstream) : list mstream :=
  map (fun s => if m_sid s =? sid
                then match m_addrs s, m_asked s with
                     | [], None => mkM (m_sid s) (m_peer s) (m_obs s) addrs None (m_sent s)
                     | _, _ => s
                     end
                else s) l.

Lemma set_addrs_sid1 : forall sid addrs s,
  m_sid (if m_sid s =? sid
         then match m_addrs s, m_asked s with
              | [], None => mkM (m_sid s) (m_peer s) (m_obs s) addrs None (m_sent s)
              | _, _ => s
              end
         else s) = m_sid s.
Proof.
  intros. destruct (m_sid s =? sid); [|reflexivity].
  destruct (m_addrs s); [destruct (m_asked s)|]; reflexivity.
Qed.

Lemma set_addrs_sids : forall sid addrs l, map m_sid (set_addrs sid addrs l) = map m_sid l.
Proof.
  intros. unfold set_addrs. rewrite map_map. apply map_ext. intro s. apply set_addrs_sid1.
Qed.

Lemma drop_set_addrs : forall sid addrs l, drop_stream sid (set_addrs sid addrs l) = drop_stream sid l.
Proof.
  intros. unfold drop_stream, set_addrs. induction l as [|m r IH]; [reflexivity|].
  cbn [map filter]. rewrite set_addrs_sid1. destruct (m_sid m =? sid) eqn:E; cbn [negb]; [exact IH|].
  rewrite IH. reflexivity.
Qed.

Lemma find_set_addrs : forall sid addrs l m0, find_stream sid l = Some m0 ->
  m_addrs m0 = [] -> m_asked m0 = None ->
  let m1 := mkM (m_sid m0) (m_peer m0) (m_obs m0) addrs None (m_sent m0) in
  find_stream sid (set_addrs sid addrs l) = Some m1 /\ In m1 (set_addrs sid addrs l).
Proof.
  induction l as [|x r IH]; intros m0 H Ha Hk; cbn [find_stream find] in H; [discriminate|].
  unfold set_addrs. cbn [map find_stream find]. rewrite set_addrs_sid1. destruct (m_sid x =? sid) eqn:E.
  - inversion H; subst. rewrite Ha, Hk. split; [reflexivity|left; reflexivity].
  - destruct (IH _ H Ha Hk) as [A B]. split; [exact A|right; exact B].
Qed.

(* hypotheses on the inputs of the model: the RNG draws NumBytes in
   [minHandshakeSizeBytes, maxHandshakeSizeBytes), and the harness' claim
   about each message's payload is consistent with its length *)
Definition op_wf (o : sop) : Prop :=
  match o with
  | SReq _ _ _ _ _ _ n => minHandshakeSizeBytes <= n < maxHandshakeSizeBytes
  | SLate _ _ _ _ n => minHandshakeSizeBytes <= n < maxHandshakeSizeBytes
  | SData _ m => msg_wf m = true
  | _ => True
  end.

Ltac mon_simpl :=
  cbn [dmon_stimulus dmon_events dmon_event].

Lemma step_ok : forall c s l o s' evs, srel s l -> op_wf o -> s_step c s o = (s', evs) ->
  exists l1 l2, dmon_stimulus l o evs = inl l1 /\ dmon_events l1 evs = inl l2 /\ srel s' l2.
Proof.
  intros c s l o s' evs [F N] Hwf H. pose proof (f2_sids _ _ F) as Hsids.
  destruct o as [sid p obs t good addrs n|sid p obs t|sid t good addrs n|sid m|sid|t]; cbn [s_step] in H.
  - (* a new request *)
    cbn [op_wf] in Hwf. unfold minHandshakeSizeBytes, maxHandshakeSizeBytes in Hwf.
    destruct (find_w sid (s_wait s)) as [w|] eqn:Ef.
    { inversion H; subst. destruct (find_w_some _ _ _ Ef) as [Hi Hs].
      assert (in_flight sid l = true) by (apply in_flight_true; rewrite <- Hsids, <- Hs; apply in_map, Hi).
      exists l, l. mon_simpl. rewrite H0. repeat split; auto. }
    pose proof (find_w_none _ _ Ef) as Hnot. rewrite Hsids in Hnot.
    set (new := mkM sid p obs addrs None 0).
    assert (Hst : dmon_stimulus l (SReq sid p obs t good addrs n) evs = inl (l ++ [new])).
    { mon_simpl. rewrite (in_flight_false _ _ Hnot). reflexivity. }
    assert (Hend : forall st idx, st <> ST_OK ->
                   dmon_events (l ++ [new]) [ERespond sid st idx] = inl l).
    { intros st idx Hne. mon_simpl. rewrite (find_app_new sid l new Hnot eq_refl).
      replace (st =? ST_OK) with false by (symmetry; apply Z.eqb_neq; exact Hne). cbn [andb].
      rewrite (drop_app_new sid l new Hnot eq_refl). reflexivity. }
    assert (Hreset : dmon_events (l ++ [new]) [EReset sid] = inl l).
    { mon_simpl. rewrite (in_flight_app_new sid l new eq_refl).
      rewrite (drop_app_new sid l new Hnot eq_refl). reflexivity. }
    destruct (rl_accept c (s_rl s) p t) as [l1 ok] eqn:Ea.
    destruct ok; cbn [negb] in H.
    2:{ inversion H; subst. exists (l ++ [new]), l. repeat split; auto. apply Hend. discriminate. }
    destruct good; cbn [negb] in H.
    2:{ inversion H; subst. exists (l ++ [new]), l. repeat split; auto. }
    destruct (select_addr addrs) as [[idx a]|] eqn:Es.
    2:{ inversion H; subst. exists (l ++ [new]), l. repeat split; auto. apply Hend. discriminate. }
    destruct (select_from_sound _ _ _ _ Es) as [Hin [Hus _]].
    assert (Hhas : has_usable addrs = true).
    { unfold has_usable. apply existsb_exists. exists a. split; assumption. }
    assert (Hparse : a_parse a = true).
    { unfold usable in Hus. apply andb_true_iff in Hus. destruct Hus as [Hus _].
      apply andb_true_iff in Hus. destruct Hus as [Hus _]. exact Hus. }
    destruct (need_data obs a) eqn:End.
    + destruct (rl_accept_dd c l1 t) as [l2 ok2] eqn:Ead.
      destruct ok2; cbn [negb] in H.
      2:{ inversion H; subst. exists (l ++ [new]), l. repeat split; auto. apply Hend. discriminate. }
      destruct (n <=? 0) eqn:En; [apply Z.leb_le in En; lia|].
      inversion H; subst; clear H.
      set (new' := mkM sid p obs addrs (Some n) 0).
      exists (l ++ [new]), (l ++ [new']). split; [exact Hst|]. split.
      * mon_simpl. rewrite (in_flight_app_new sid l new eq_refl). cbn [negb].
        unfold SPEC_MIN_DATA, SPEC_MAX_DATA.
        replace (30000 <=? n) with true by (symmetry; apply Z.leb_le; lia).
        replace (n <=? 100000) with true by (symmetry; apply Z.leb_le; lia). cbn [andb negb].
        rewrite map_app. rewrite (map_notin_id sid _ l Hnot). cbn [map new m_sid].
        rewrite Z.eqb_refl. reflexivity.
      * split; cbn [s_wait].
        -- apply Forall2_app; [exact F|]. constructor; [|constructor].
           unfold wrel. cbn. split; [reflexivity|]. split; [reflexivity|]. split; [reflexivity|]. split; [exact Hin|]. split; [exact Hus|]. split; [lia|]. exists n. split; [reflexivity|lia].
        -- rewrite map_app. cbn [map w_sid]. apply nodup_snoc; [exact N|apply find_w_none, Ef].
    + unfold finish_dial in H. inversion H; subst; clear H.
      exists (l ++ [new]), l. split; [exact Hst|]. split; [|split; assumption].
      mon_simpl.
      assert (Hd : existsb (dial_by p (a_id a)) (l ++ [new]) = true).
      { apply existsb_exists. exists new. split; [apply in_or_app; right; left; reflexivity|].
        unfold dial_by. cbn [new m_peer m_addrs m_obs]. rewrite Z.eqb_refl, Hhas. cbn [andb].
        apply existsb_exists. exists a. split; [exact Hin|].
        rewrite Z.eqb_refl, Hparse, (need_data_false _ _ End). reflexivity. }
      rewrite Hd. rewrite (find_app_new sid l new Hnot eq_refl). cbn [new m_addrs]. rewrite Hhas.
      cbn [negb andb]. rewrite andb_false_r.
      rewrite (drop_app_new sid l new Hnot eq_refl). reflexivity.
  - (* a stream that does not send its request yet *)
    destruct (find_w sid (s_wait s)) as [w|] eqn:Ef.
    { inversion H; subst. destruct (find_w_some _ _ _ Ef) as [Hi Hs].
      assert (in_flight sid l = true) by (apply in_flight_true; rewrite <- Hsids, <- Hs; apply in_map, Hi).
      exists l, l. mon_simpl. rewrite H0. repeat split; auto. }
    pose proof (find_w_none _ _ Ef) as Hnot. rewrite Hsids in Hnot.
    set (new := mkM sid p obs [] None 0).
    assert (Hst : dmon_stimulus l (SOpen sid p obs t) evs = inl (l ++ [new])).
    { mon_simpl. rewrite (in_flight_false _ _ Hnot). reflexivity. }
    destruct (rl_accept c (s_rl s) p t) as [l1 ok] eqn:Ea.
    destruct ok; cbn [negb] in H.
    + inversion H; subst s' evs; clear H. exists (l ++ [new]), (l ++ [new]).
      split; [exact Hst|]. split; [reflexivity|]. split; cbn [s_wait].
      * apply Forall2_app; [exact F|]. constructor; [|constructor].
        unfold wrel. cbn. repeat split; reflexivity.
      * rewrite map_app. cbn [map w_sid]. apply nodup_snoc; [exact N|apply find_w_none, Ef].
    + inversion H; subst s' evs; clear H. exists (l ++ [new]), l.
      split; [exact Hst|]. split; [|split; assumption].
      mon_simpl. rewrite (find_app_new sid l new Hnot eq_refl). cbn [andb].
      rewrite (drop_app_new sid l new Hnot eq_refl). reflexivity.
  - (* the late request of such a stream *)
    cbn [op_wf] in Hwf. unfold minHandshakeSizeBytes, maxHandshakeSizeBytes in Hwf.
    assert (Hst : dmon_stimulus l (SLate sid t good addrs n) evs = inl (set_addrs sid addrs l)) by reflexivity.
    destruct (find_w sid (s_wait s)) as [w|] eqn:Ef.
    2:{ inversion H; subst s' evs. exists (set_addrs sid addrs l), (set_addrs sid addrs l).
        split; [reflexivity|]. split; [reflexivity|]. split; [|exact N].
        replace (set_addrs sid addrs l) with l; [exact F|]. symmetry.
        pose proof (find_w_none _ _ Ef) as Hnot. rewrite Hsids in Hnot.
        unfold set_addrs. apply (map_notin_id sid _ l Hnot). }
    destruct (find_w_some _ _ _ Ef) as [Hwin Hws].
    destruct (f2_find _ _ _ _ F Ef) as [m0 [Hf0 [Hrel0 Hm0in]]].
    destruct Hrel0 as [A [B [O Cx]]].
    destruct (w_req w) eqn:Ereq; cbn [negb] in H.
    2:{ (* not waiting for a request: ignored; the monitor's entry has addresses and is left alone *)
        inversion H; subst s' evs. exists (set_addrs sid addrs l), (set_addrs sid addrs l).
        split; [reflexivity|]. split; [reflexivity|]. split; [|exact N].
        unfold set_addrs. rewrite <- (map_id (s_wait s)). apply f2_map; [exact F|].
        intros x mx Hx Hr. destruct (m_sid mx =? sid) eqn:Ex; [|exact Hr].
        destruct Hr as [A' [B' [O' C']]]. apply Z.eqb_eq in Ex.
        assert (x = w) by (apply (nodup_unique (s_wait s)); auto; lia). subst x.
        rewrite Ereq in C'. destruct (m_addrs mx) eqn:Em; [destruct C' as [[] _]|].
        unfold wrel. rewrite Ereq, Em.
        split; [exact A'|]. split; [exact B'|]. split; [exact O'|exact C']. }
    destruct Cx as [Hnoaddr Hnoask].
    destruct (find_set_addrs sid addrs l m0 Hf0 Hnoaddr Hnoask) as [Hf1 Hin1]. cbv zeta in Hf1, Hin1.
    set (m1 := mkM (m_sid m0) (m_peer m0) (m_obs m0) addrs None (m_sent m0)) in *.
    assert (Hinfl : in_flight sid (set_addrs sid addrs l) = true).
    { apply in_flight_true. rewrite set_addrs_sids, <- Hsids, <- Hws. apply in_map, Hwin. }
    assert (Hrest : srel (mkS (s_rl s) (remove_w sid (s_wait s))) (drop_stream sid (set_addrs sid addrs l))).
    { split; cbn [s_wait]; [rewrite drop_set_addrs; apply f2_filter, F|apply nodup_filter_sids, N]. }
    assert (Hrest' : forall lx, srel (mkS lx (remove_w sid (s_wait s))) (drop_stream sid (set_addrs sid addrs l))).
    { intro lx. destruct Hrest as [R1 R2]. split; assumption. }
    assert (Hend : forall st idx, (st =? ST_OK) && negb (has_usable addrs) = false ->
                   dmon_events (set_addrs sid addrs l) [ERespond sid st idx] =
                   inl (drop_stream sid (set_addrs sid addrs l))).
    { intros st idx Hne. mon_simpl. rewrite Hf1. cbn [m1 m_addrs]. rewrite Hne. reflexivity. }
    assert (Hreset : dmon_events (set_addrs sid addrs l) [EReset sid] =
                     inl (drop_stream sid (set_addrs sid addrs l))).
    { mon_simpl. rewrite Hinfl. reflexivity. }
    cbv zeta in H.
    destruct good; cbn [negb] in H.
    2:{ inversion H; subst s' evs. exists (set_addrs sid addrs l), (drop_stream sid (set_addrs sid addrs l)). split; [reflexivity|]. split; [exact Hreset|apply Hrest']. }
    destruct (select_addr addrs) as [[idx a]|] eqn:Es.
    2:{ inversion H; subst s' evs. exists (set_addrs sid addrs l), (drop_stream sid (set_addrs sid addrs l)). split; [reflexivity|].
        split; [apply Hend; reflexivity|apply Hrest']. }
    destruct (select_from_sound _ _ _ _ Es) as [Hin [Hus _]].
    assert (Hhas : has_usable addrs = true).
    { unfold has_usable. apply existsb_exists. exists a. split; assumption. }
    assert (Hparse : a_parse a = true).
    { unfold usable in Hus. apply andb_true_iff in Hus. destruct Hus as [Hus _].
      apply andb_true_iff in Hus. destruct Hus as [Hus _]. exact Hus. }
    destruct (need_data (w_obs w) a) eqn:End.
    + destruct (rl_accept_dd c (s_rl s) t) as [l2 ok2] eqn:Ead.
      destruct ok2; cbn [negb] in H.
      2:{ inversion H; subst s' evs. exists (set_addrs sid addrs l), (drop_stream sid (set_addrs sid addrs l)). split; [reflexivity|].
          split; [apply Hend; reflexivity|apply Hrest']. }
      destruct (n <=? 0) eqn:En; [apply Z.leb_le in En; lia|].
      inversion H; subst s' evs; clear H.
      exists (set_addrs sid addrs l),
             (map (fun s0 => if m_sid s0 =? sid
                             then mkM (m_sid s0) (m_peer s0) (m_obs s0) (m_addrs s0) (Some n) 0 else s0)
                  (set_addrs sid addrs l)).
      split; [reflexivity|]. split.
      * mon_simpl. rewrite Hinfl. cbn [negb]. unfold SPEC_MIN_DATA, SPEC_MAX_DATA.
        replace (30000 <=? n) with true by (symmetry; apply Z.leb_le; lia).
        replace (n <=? 100000) with true by (symmetry; apply Z.leb_le; lia). cbn [andb negb]. reflexivity.
      * split; cbn [s_wait].
        -- unfold set_addrs. rewrite map_map. apply f2_map; [exact F|].
           intros x mx Hx Hr. destruct Hr as [A' [B' [O' C']]]. rewrite set_addrs_sid1.
           rewrite <- A'. destruct (w_sid x =? sid) eqn:Ex.
           ++ apply Z.eqb_eq in Ex. assert (x = w) by (apply (nodup_unique (s_wait s)); auto; lia). subst x.
              rewrite Ereq in C'. destruct C' as [Ca Ck]. rewrite Ca, Ck.
              unfold wrel. cbn. split; [reflexivity|]. split; [exact B'|]. split; [exact O'|].
              split; [exact Hin|]. split; [exact Hus|]. split; [lia|]. exists n. split; [reflexivity|lia].
           ++ split; [exact A'|]. split; [exact B'|]. split; [exact O'|exact C'].
        -- rewrite map_map. replace (map _ (s_wait s)) with (map w_sid (s_wait s)); [exact N|].
           apply map_ext. intro x. destruct (w_sid x =? sid); reflexivity.
    + unfold finish_dial in H. inversion H; subst s' evs; clear H.
      exists (set_addrs sid addrs l), (drop_stream sid (set_addrs sid addrs l)). split; [reflexivity|]. split; [|apply Hrest'].
      mon_simpl.
      assert (Hd : existsb (dial_by (w_peer w) (a_id a)) (set_addrs sid addrs l) = true).
      { apply existsb_exists. exists m1. split; [exact Hin1|].
        unfold dial_by. cbn [m1 m_peer m_addrs m_obs]. rewrite <- B, Z.eqb_refl, Hhas. cbn [andb].
        apply existsb_exists. exists a. split; [exact Hin|].
        rewrite Z.eqb_refl, Hparse, <- O, (need_data_false _ _ End). reflexivity. }
      rewrite Hd, Hf1. cbn [m1 m_addrs]. rewrite Hhas. cbn [negb]. rewrite andb_false_r. reflexivity.
  - (* a dial-data message *)
    cbn [op_wf] in Hwf. pose proof (msg_data_nonneg _ Hwf) as Hd0.
    assert (Hst : dmon_stimulus l (SData sid m) evs = inl (add_sent sid (msg_data m) l)) by reflexivity.
    pose proof (f2_add_sent sid _ _ _ Hd0 F) as F1.
    pose proof (add_sent_sids sid (msg_data m) l) as Hsids1.
    destruct (find_w sid (s_wait s)) as [w|] eqn:Ef.
    2:{ inversion H; subst s' evs. exists (add_sent sid (msg_data m) l), (add_sent sid (msg_data m) l).
        repeat split; auto. }
    destruct (find_w_some _ _ _ Ef) as [Hwin Hws].
    destruct (f2_find _ _ _ _ F1 Ef) as [ms [Hfs [Hrel Hmin]]].
    assert (Hinfl : in_flight sid (add_sent sid (msg_data m) l) = true).
    { apply in_flight_true. rewrite Hsids1, <- Hsids, <- Hws. apply in_map, Hwin. }
    assert (Hreset : forall s1, s1 = mkS (rl_complete (s_rl s) (w_peer w)) (remove_w sid (s_wait s)) ->
              exists l1 l2, dmon_stimulus l (SData sid m) [EReset sid] = inl l1 /\
                            dmon_events l1 [EReset sid] = inl l2 /\ srel s1 l2).
    { intros s1 ->. exists (add_sent sid (msg_data m) l), (drop_stream sid (add_sent sid (msg_data m) l)).
      split; [reflexivity|]. split; [mon_simpl; rewrite Hinfl; reflexivity|].
      split; cbn [s_wait]; [apply f2_filter, F1|apply nodup_filter_sids, N]. }
    destruct (w_req w) eqn:Ereq.
    { inversion H; subst s' evs. apply Hreset. reflexivity. }
    destruct m as [L D|].
    2:{ inversion H; subst s' evs. apply Hreset. reflexivity. }
    destruct (dd_step (w_remain w) L) as [| |r'|] eqn:Ed.
    + inversion H; subst s' evs. apply Hreset. reflexivity.
    + inversion H; subst s' evs. apply Hreset. reflexivity.
    + (* more data needed *)
      inversion H; subst s' evs; clear H.
      exists (add_sent sid D l), (add_sent sid D l). split; [reflexivity|]. split; [reflexivity|].
      split; cbn [s_wait].
      * unfold add_sent. apply f2_map; [exact F|].
        intros x mx Hx Hr. destruct Hr as [A [B [O Cx]]].
        rewrite <- A. destruct (w_sid x =? sid) eqn:Ex; [|split; [exact A|split; [exact B|split; [exact O|exact Cx]]]].
        apply Z.eqb_eq in Ex. assert (x = w) by (apply (nodup_unique (s_wait s)); auto; lia). subst x.
        rewrite Ereq in Cx. destruct Cx as [C [E [G [n0 [I J]]]]].
        destruct (dd_step_more _ _ _ _ Hwf Ed) as [K1 K2].
        assert (0 < r').
        { unfold dd_step in Ed. destruct (L >? maxMsgSize); [discriminate|]. cbv zeta in Ed.
          destruct (_ && _); [discriminate|]. destruct (_ >? 0) eqn:Eg in Ed; [|discriminate].
          inversion Ed; subst. lia. }
        unfold wrel. cbn. split; [reflexivity|]. split; [exact B|]. split; [exact O|].
        split; [exact C|]. split; [exact E|]. split; [assumption|].
        exists n0. split; [exact I|]. cbn in Hd0. lia.
      * rewrite map_map. replace (map _ (s_wait s)) with (map w_sid (s_wait s)); [exact N|].
        apply map_ext. intro x. destruct (w_sid x =? sid); reflexivity.
    + (* enough: dial, answer *)
      unfold finish_dial in H. inversion H; subst s' evs; clear H.
      destruct (f2_find _ _ _ _ F Ef) as [m0 [Hf0 [Hrel0 _]]].
      destruct (find_add_sent sid D l m0 Hf0) as [Hfs1 Hmin1]. cbv zeta in Hfs1, Hmin1.
      clear ms Hfs Hrel Hmin.
      set (ms := mkM (m_sid m0) (m_peer m0) (m_obs m0) (m_addrs m0) (m_asked m0) (m_sent m0 + D)) in *.
      destruct Hrel0 as [A [B [O Cx]]]. rewrite Ereq in Cx. destruct Cx as [C [E [G [n0 [I J]]]]].
      assert (Hdone : w_remain w <= D) by (apply (dd_step_done _ L D Hwf G Ed)).
      assert (Hhas : has_usable (m_addrs m0) = true).
      { unfold has_usable. apply existsb_exists. exists (w_addr w). split; assumption. }
      assert (Hparse : a_parse (w_addr w) = true).
      { unfold usable in E. apply andb_true_iff in E. destruct E as [E _].
        apply andb_true_iff in E. destruct E as [E _]. exact E. }
      exists (add_sent sid D l), (drop_stream sid (add_sent sid D l)).
      split; [reflexivity|]. split.
      * mon_simpl.
        assert (Hd : existsb (dial_by (w_peer w) (a_id (w_addr w))) (add_sent sid D l) = true).
        { apply existsb_exists. exists ms. split; [exact Hmin1|].
          unfold dial_by. cbn [ms m_peer m_addrs m_obs]. rewrite <- B, Z.eqb_refl, Hhas. cbn [andb].
          apply existsb_exists. exists (w_addr w). split; [exact C|].
          rewrite Z.eqb_refl, Hparse. cbn [andb].
          unfold paid. unfold ms. cbn [m_asked m_sent]. rewrite I.
          replace (n0 <=? m_sent m0 + D) with true; [apply orb_true_r|].
          symmetry. apply Z.leb_le. lia. }
        cbn [msg_data] in *. rewrite Hd, Hfs1. cbn [ms m_addrs]. rewrite Hhas.
        cbn [negb]. rewrite andb_false_r. reflexivity.
      * split; cbn [s_wait]; [apply f2_filter, F1|apply nodup_filter_sids, N].
  - (* client closes *)
    destruct (find_w sid (s_wait s)) as [w|] eqn:Ef.
    2:{ inversion H; subst s' evs. exists l, l. repeat split; auto. }
    inversion H; subst s' evs; clear H. destruct (find_w_some _ _ _ Ef) as [Hwin Hws].
    exists l, (drop_stream sid l). split; [reflexivity|]. split.
    + mon_simpl. rewrite in_flight_true; [reflexivity|]. rewrite <- Hsids, <- Hws. apply in_map, Hwin.
    + split; cbn [s_wait]; [apply f2_filter, F|apply nodup_filter_sids, N].
  - (* timeout *)
    inversion H; subst s' evs; clear H. exists l, []. split; [reflexivity|].
    split; [apply timeout_events; assumption|]. split; cbn [s_wait]; constructor.
Qed.

Lemma dmon_run_model : forall c ops s l i, srel s l -> Forall op_wf ops ->
  dmon_run l i (s_trace c s ops) = [].
Proof.
  intros c ops. induction ops as [|o r IH]; intros s l i R W; [reflexivity|].
  cbn [s_trace]. destruct (s_step c s o) as [s' evs] eqn:E. cbn [dmon_run].
  inversion W; subst.
  destruct (step_ok _ _ _ _ _ _ R H1 E) as [l1 [l2 [A [B C]]]].
  rewrite A, B. apply IH; assumption.
Qed.

Lemma holds_dials_model : forall c ops, Forall op_wf ops ->
  holds_dials (s_trace c s_init ops) = [].
Proof.
  intros. apply dmon_run_model; [|exact H]. split; cbn; constructor.
Qed.

(* ---- the sentences of the property, read off one step -------------------- *)

(* a request naming no public dialable address: no dial, no data request, and
   the answer (if the limiter let it in) is E_DIAL_REFUSED *)
Lemma no_usable_no_dial_l : forall c s sid p obs t addrs n s' evs,
  has_usable addrs = false ->
  s_step c s (SReq sid p obs t true addrs n) = (s', evs) ->
  evs = [] \/ evs = [ERespond sid ST_REJECTED 0] \/ evs = [ERespond sid ST_REFUSED 0].
Proof.
  intros c s sid p obs t addrs n s' evs Hn H. cbn [s_step] in H.
  destruct (find_w sid (s_wait s)); [inversion H; auto|].
  destruct (rl_accept c (s_rl s) p t) as [l1 ok]. destruct ok; cbn [negb] in H; [|inversion H; auto].
  rewrite (select_none_no_usable _ Hn) in H. inversion H; auto.
Qed.

(* whatever is dialled while a request is being taken in is the first usable
   entry among the first maxPeerAddresses of THAT request, the dial goes to the
   requesting peer, and the entry's IP equals the observed one *)
Lemma dial_on_request_l : forall c s sid p obs t good addrs n s' evs q aid,
  0 < n ->
  s_step c s (SReq sid p obs t good addrs n) = (s', evs) -> In (EDial q aid) evs ->
  q = p /\ exists idx a, select_addr addrs = Some (idx, a) /\ a_id a = aid /\
                         need_data obs a = false /\ ip_differs obs a = false.
Proof.
  intros c s sid p obs t good addrs n s' evs q aid Hn H Hin. cbn [s_step] in H.
  destruct (find_w sid (s_wait s)); [inversion H; subst; destruct Hin|].
  destruct (rl_accept c (s_rl s) p t) as [l1 ok].
  destruct ok; cbn [negb] in H; [|inversion H; subst; destruct Hin as [A|[]]; discriminate].
  destruct good; cbn [negb] in H; [|inversion H; subst; destruct Hin as [A|[]]; discriminate].
  destruct (select_addr addrs) as [[idx a]|] eqn:Es; [|inversion H; subst; destruct Hin as [A|[]]; discriminate].
  destruct (need_data obs a) eqn:End.
  - destruct (rl_accept_dd c l1 t) as [l2 ok2].
    destruct ok2; cbn [negb] in H; [|inversion H; subst; destruct Hin as [A|[]]; discriminate].
    destruct (n <=? 0) eqn:E0; [apply Z.leb_le in E0; lia|].
    inversion H; subst. destruct Hin as [A|[]]; discriminate.
  - unfold finish_dial in H. inversion H; subst.
    destruct Hin as [A|[A|[]]]; [|discriminate]. inversion A; subst.
    split; [reflexivity|]. exists idx, a. repeat split; auto. apply need_data_false, End.
Qed.

(* a dial triggered by a dial-data message belongs to the stream the message
   arrived on: its peer, its selected address, and only when the loop of
   readDialData has run to completion *)
Lemma dial_on_data_l : forall c s sid L D s' evs q aid,
  s_step c s (SData sid (MFull L D)) = (s', evs) -> In (EDial q aid) evs ->
  exists w, find_w sid (s_wait s) = Some w /\ q = w_peer w /\ aid = a_id (w_addr w) /\
            dd_step (w_remain w) L = DDDone.
Proof.
  intros c s sid L D s' evs q aid H Hin. cbn [s_step] in H.
  destruct (find_w sid (s_wait s)) as [w|]; [|inversion H; subst; destruct Hin].
  destruct (w_req w); [inversion H; subst; destruct Hin as [A|[]]; discriminate|].
  destruct (dd_step (w_remain w) L) eqn:Ed;
    try (inversion H; subst; destruct Hin as [A|[]]; discriminate).
  - inversion H; subst. destruct Hin.
  - unfold finish_dial in H. inversion H; subst. destruct Hin as [A|[A|[]]]; [|discriminate].
    inversion A; subst. exists w. auto.
Qed.

(* C16 — lemma files: Proofs_dd (readDialData), Proofs_rl (rateLimiter),
   Proofs_serve (dial clauses of a session), Proofs_rates (rate clauses of a session) *)
From Verif Require Export c16.Proofs_dd c16.Proofs_rl c16.Proofs_serve c16.Proofs_rates.

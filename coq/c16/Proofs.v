From Coq Require Import List ZArith Bool Lia.
From Verif Require Import lib.Wire gen.Consts_c16 c16.Model c16.Spec.
Import ListNotations.
Local Open Scope Z_scope.

Lemma consts_spec_l :
  rl_window_reqs = MINUTE /\ rl_window_peer = MINUTE /\ rl_window_dd = MINUTE.
Proof. repeat split; reflexivity. Qed.

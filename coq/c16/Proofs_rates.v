(* C16 — the rate clauses of the session monitor hold on every session of the model *)
From Coq Require Import List ZArith Bool Lia.
From Verif Require Import lib.Wire gen.Consts_c16 c16.Model c16.Spec c16.Proofs_dd c16.Proofs_rl c16.Proofs_serve.
Import ListNotations.
Local Open Scope Z_scope.

Definition pair_of (w : wstream) : Z * Z := (w_sid w, w_peer w).

Definition dec (r : rmon) (p : Z) : rmon :=
  mkRmon (rm_acc r) (rm_dd r) (upd (rm_fl r) p (Z.max 0 (rm_fl r p - 1))) (rm_last r).

Record srate (s : sstate) (m : smon) : Prop := mkSrate {
  sr_c : coupled (s_rl s) (rm_acc (sm_r m)) (rm_dd (sm_r m)) (rm_last (sm_r m));
  sr_open : rl_closed (s_rl s) = false;
  sr_fl : forall q, rm_fl (sm_r m) q = rl_inprog (s_rl s) q;
  sr_list : sm_fl m = map pair_of (s_wait s);
  sr_nodup : NoDup (map w_sid (s_wait s));
  sr_nn : forall q, 0 <= rl_inprog (s_rl s) q
}.

Lemma coupled_later : forall l H Hd T T', coupled l H Hd T -> T <= T' -> coupled l H Hd T'.
Proof. intros l H Hd T T' [C1 C2 C3] Hle. constructor; intros; [apply C1|apply C2|apply C3]; lia. Qed.

Lemma find_pair : forall sid ws,
  find (fun e : Z * Z => fst e =? sid) (map pair_of ws) = option_map pair_of (find_w sid ws).
Proof.
  induction ws as [|w r IH]; [reflexivity|]. cbn [map find find_w pair_of fst].
  destruct (w_sid w =? sid); [reflexivity|exact IH].
Qed.

Lemma filter_pair : forall sid ws,
  filter (fun e : Z * Z => negb (fst e =? sid)) (map pair_of ws) = map pair_of (remove_w sid ws).
Proof.
  induction ws as [|w r IH]; [reflexivity|]. unfold remove_w in *. cbn [map filter pair_of fst].
  destruct (negb (w_sid w =? sid)); cbn [map]; rewrite IH; reflexivity.
Qed.

Lemma remove_none : forall sid ws, find_w sid ws = None -> remove_w sid ws = ws.
Proof.
  induction ws as [|w r IH]; intro H; [reflexivity|]. cbn [find_w] in H. unfold remove_w in *. cbn [filter].
  destruct (w_sid w =? sid); [discriminate|]. cbn [negb]. rewrite IH by exact H. reflexivity.
Qed.

Lemma fl_remove_wait : forall sid r ws,
  fl_remove sid (mkSmon r (map pair_of ws)) =
  match find_w sid ws with
  | None => mkSmon r (map pair_of ws)
  | Some w => mkSmon (dec r (w_peer w)) (map pair_of (remove_w sid ws))
  end.
Proof.
  intros. unfold fl_remove. cbn [sm_fl sm_r]. rewrite find_pair.
  destruct (find_w sid ws) as [w|]; cbn [option_map pair_of]; [|reflexivity].
  rewrite filter_pair. reflexivity.
Qed.

Lemma fl_remove_new : forall sid p r ws, find_w sid ws = None ->
  fl_remove sid (mkSmon r (map pair_of ws ++ [(sid, p)])) = mkSmon (dec r p) (map pair_of ws).
Proof.
  intros sid p r ws Hn. unfold fl_remove. cbn [sm_fl sm_r].
  assert (F : find (fun e : Z * Z => fst e =? sid) (map pair_of ws ++ [(sid, p)]) = Some (sid, p)).
  { clear r. induction ws as [|w r IH]; cbn [map app find pair_of fst].
    - rewrite Z.eqb_refl. reflexivity.
    - cbn [find_w] in Hn. destruct (w_sid w =? sid); [discriminate|]. apply IH, Hn. }
  rewrite F. rewrite filter_app, filter_pair, (remove_none _ _ Hn). cbn [filter fst].
  rewrite Z.eqb_refl. cbn [negb]. rewrite app_nil_r. reflexivity.
Qed.

(* the clock of a session never runs backwards *)
Fixpoint smono (T : Z) (ops : list sop) : Prop :=
  match ops with
  | [] => True
  | SReq _ _ _ t _ _ _ :: r => T <= t /\ smono t r
  | SOpen _ _ _ t :: r => T <= t /\ smono t r
  | SLate _ t _ _ _ :: r => T <= t /\ smono t r
  | STimeout t :: r => T <= t /\ smono t r
  | _ :: r => smono T r
  end.

Definition next_T (T : Z) (o : sop) : Z :=
  match o with
  | SReq _ _ _ t _ _ _ => t | SOpen _ _ _ t => t | SLate _ t _ _ _ => t | STimeout t => t
  | _ => T
  end.

Definition op_time_ok (T : Z) (o : sop) : Prop :=
  match o with
  | SReq _ _ _ t _ _ _ => T <= t | SOpen _ _ _ t => T <= t | SLate _ t _ _ _ => T <= t
  | STimeout t => T <= t
  | _ => True
  end.

Lemma exists_pair : forall sid ws,
  existsb (fun e : Z * Z => fst e =? sid) (map pair_of ws) =
  match find_w sid ws with Some _ => true | None => false end.
Proof.
  induction ws as [|w r IH]; [reflexivity|]. cbn [map existsb find_w pair_of fst].
  destruct (w_sid w =? sid); [reflexivity|exact IH].
Qed.

(* all open requests are completed by a timeout *)
Lemma timeout_rates : forall ws r l, NoDup (map w_sid ws) -> rl_closed l = false ->
  (forall q, rm_fl r q = rl_inprog l q) ->
  exists r', smon_ends (mkSmon r (map pair_of ws)) (map (fun w => EReset (w_sid w)) ws) = mkSmon r' [] /\
    rm_acc r' = rm_acc r /\ rm_dd r' = rm_dd r /\ rm_last r' = rm_last r /\
    rl_closed (fold_left (fun l w => rl_complete l (w_peer w)) ws l) = false /\
    (forall H Hd T, coupled l H Hd T -> coupled (fold_left (fun l w => rl_complete l (w_peer w)) ws l) H Hd T) /\
    forall q, rm_fl r' q = rl_inprog (fold_left (fun l w => rl_complete l (w_peer w)) ws l) q.
Proof.
  unfold smon_ends.
  induction ws as [|w ws IH]; intros r l Hnd Hc Hfl.
  - exists r. cbn. split; [reflexivity|]. split; [reflexivity|]. split; [reflexivity|]. split; [reflexivity|].
    split; [exact Hc|]. split; [auto|exact Hfl].
  - cbn [map fold_left ends].
    change (pair_of w :: map pair_of ws) with (map pair_of (w :: ws)).
    rewrite fl_remove_wait. cbn [find_w]. rewrite Z.eqb_refl.
    unfold remove_w. cbn [filter]. rewrite Z.eqb_refl. cbn [negb]. fold (remove_w (w_sid w) ws).
    cbn [map] in Hnd. apply NoDup_cons_iff in Hnd. destruct Hnd as [Hn1 Hn2].
    destruct (find_w (w_sid w) ws) as [w2|] eqn:Ef.
    + exfalso. destruct (find_w_some _ _ _ Ef) as [Hi Hs]. apply Hn1. rewrite <- Hs. apply in_map, Hi.
    + rewrite (remove_none _ _ Ef).
      assert (Hc' : rl_closed (rl_complete l (w_peer w)) = false) by (rewrite complete_closed; exact Hc).
      assert (Hfl' : forall q, rm_fl (dec r (w_peer w)) q = rl_inprog (rl_complete l (w_peer w)) q).
      { intro q. rewrite complete_inprog by exact Hc. cbn [dec rm_fl]. unfold upd.
        destruct (q =? w_peer w); [rewrite Hfl; reflexivity|apply Hfl]. }
      destruct (IH _ _ Hn2 Hc' Hfl') as [r' [A [B [C [D [E [F G]]]]]]].
      exists r'. split; [exact A|]. split; [exact B|]. split; [exact C|]. split; [exact D|].
      split; [exact E|]. split; [|exact G].
      intros H Hd T Hcp. apply F, coupled_complete, Hcp.
Qed.

Lemma nn_complete : forall l p, rl_closed l = false -> (forall q, 0 <= rl_inprog l q) ->
  forall q, 0 <= rl_inprog (rl_complete l p) q.
Proof.
  intros l p Hc Hn q. rewrite complete_inprog by exact Hc. unfold upd. destruct (q =? p); [lia|apply Hn].
Qed.

Lemma nn_fold : forall ws l, rl_closed l = false -> (forall q, 0 <= rl_inprog l q) ->
  forall q, 0 <= rl_inprog (fold_left (fun l w => rl_complete l (w_peer w)) ws l) q.
Proof.
  induction ws as [|w ws IH]; intros l Hc Hn; [exact Hn|]. cbn [fold_left].
  apply IH; [rewrite complete_closed; exact Hc|apply nn_complete; assumption].
Qed.

Lemma accept_ok_zero : forall c r p t,
  count_if (acc_fresh t) (rm_acc r) + 1 <= RPM c ->
  count_if (acc_fresh_peer t p) (rm_acc r) + 1 <= PerPeerRPM c ->
  rm_fl r p + 1 <= MaxConc c -> accept_ok c r p t = 0.
Proof.
  intros. unfold accept_ok.
  replace (count_if (acc_fresh t) (rm_acc r) + 1 <=? RPM c) with true by (symmetry; apply Z.leb_le; lia).
  replace (count_if (acc_fresh_peer t p) (rm_acc r) + 1 <=? PerPeerRPM c) with true by (symmetry; apply Z.leb_le; lia).
  replace (rm_fl r p + 1 <=? MaxConc c) with true by (symmetry; apply Z.leb_le; lia).
  reflexivity.
Qed.

(* the request was let in by Accept and is over within the same step *)
Lemma post_end : forall l0 l' p ws r H' Hd' t,
  coupled l' H' Hd' t -> rl_closed l' = false ->
  (forall q, rl_inprog l' q = upd (rl_inprog l0) p (rl_inprog l0 p + 1) q) ->
  (forall q, rm_fl r q = rl_inprog l0 q) -> NoDup (map w_sid ws) -> (forall q, 0 <= rl_inprog l0 q) ->
  srate (mkS (rl_complete l' p) ws)
        (mkSmon (dec (mkRmon H' Hd' (upd (rm_fl r) p (rm_fl r p + 1)) t) p) (map pair_of ws)).
Proof.
  intros l0 l' p ws r H' Hd' t C Hc Hi Hfl Hnd Hnn. constructor; cbn [s_rl s_wait sm_r sm_fl dec rm_acc rm_dd rm_last rm_fl].
  - apply coupled_complete, C.
  - rewrite complete_closed. exact Hc.
  - intro q. rewrite complete_inprog by exact Hc. unfold upd. rewrite !Hi. unfold upd.
    rewrite Z.eqb_refl. destruct (q =? p); [rewrite Hfl; reflexivity|apply Hfl].
  - reflexivity.
  - exact Hnd.
  - apply nn_complete; [exact Hc|]. intro q. rewrite Hi. unfold upd.
    destruct (q =? p); [pose proof (Hnn p); lia|apply Hnn].
Qed.

(* the request was refused: nothing but the clock and the clean-up changed *)
Lemma post_reject : forall l0 l' ws r t,
  coupled l' (rm_acc r) (rm_dd r) t -> rl_closed l' = false ->
  (forall q, rl_inprog l' q = rl_inprog l0 q) ->
  (forall q, rm_fl r q = rl_inprog l0 q) -> NoDup (map w_sid ws) -> (forall q, 0 <= rl_inprog l0 q) ->
  srate (mkS l' ws) (mkSmon (mkRmon (rm_acc r) (rm_dd r) (rm_fl r) t) (map pair_of ws)).
Proof.
  intros. constructor; cbn [s_rl s_wait sm_r sm_fl rm_acc rm_dd rm_last rm_fl]; auto.
  - intro q. rewrite H2, H1. reflexivity.
  - intro q. rewrite H1. apply H4.
Qed.

Ltac open_step :=
  cbn [smon_step sm_r sm_fl];
  match goal with
  | |- context [?t <? rm_last ?r] => replace (t <? rm_last r) with false by (symmetry; apply Z.ltb_ge; lia)
  end.

Lemma rate_step_ok : forall c s m o s' evs, srate s m -> op_wf o ->
  op_time_ok (rm_last (sm_r m)) o -> s_step c s o = (s', evs) ->
  exists m', smon_step c m o evs = inl m' /\ srate s' m' /\
             rm_last (sm_r m') = next_T (rm_last (sm_r m)) o.
Proof.
  intros c s [r fl] o s' evs [C Hopen Hfl Hlist Hnd Hnn] Hwf Htime H.
  cbn [sm_r sm_fl] in *. subst fl.
  destruct o as [sid p obs t good addrs n|sid p obs t|sid t good addrs n|sid msg|sid|t]; cbn [s_step] in H; cbn [op_time_ok next_T] in *.
  - (* a new request *)
    cbn [op_wf] in Hwf. unfold minHandshakeSizeBytes, maxHandshakeSizeBytes in Hwf.
    destruct (find_w sid (s_wait s)) as [w|] eqn:Ef.
    { inversion H; subst s' evs. open_step. eexists. split; [reflexivity|]. split; [|reflexivity].
      constructor; cbn [s_rl s_wait sm_r sm_fl rm_acc rm_dd rm_last rm_fl]; auto.
      apply (coupled_later _ _ _ _ _ C Htime). }
    destruct (rl_accept c (s_rl s) p t) as [l1 ok] eqn:Ea.
    destruct ok; cbn [negb] in H.
    2:{ inversion H; subst s' evs. destruct (accept_false _ _ _ _ _ _ _ _ C Htime Hopen Ea) as [C1 [Hc1 Hi1]].
        open_step. cbn [existsb is_reject]. unfold ST_REJECTED. rewrite !Z.eqb_refl. cbn [andb orb].
        eexists. split; [reflexivity|]. split; [|reflexivity].
        apply (post_reject (s_rl s)); auto. intro q. rewrite Hi1. reflexivity. }
    destruct (accept_true _ _ _ _ _ _ _ _ _ C Htime Hopen Ea (Hfl p)) as [A1 [A2 [A3 [C1 [C1' [Hc1 Hi1]]]]]].
    pose proof (accept_ok_zero c r p t A1 A2 A3) as Hok.
    assert (Hi1' : forall q, rl_inprog l1 q = upd (rl_inprog (s_rl s)) p (rl_inprog (s_rl s) p + 1) q)
      by (intro q; rewrite Hi1; reflexivity).
    (* outcome: accepted and finished in this step with a non-reject event list [e1..; end] *)
    assert (Hfin : forall l' evs0, coupled l' (rm_acc r ++ [(p, t)]) (rm_dd r) t -> rl_closed l' = false ->
               (forall q, rl_inprog l' q = upd (rl_inprog (s_rl s)) p (rl_inprog (s_rl s) p + 1) q) ->
               evs0 <> [] -> existsb (is_reject sid) evs0 = false -> existsb (is_ask sid) evs0 = false ->
               smon_ends (mkSmon (mkRmon (rm_acc r ++ [(p, t)]) (rm_dd r) (upd (rm_fl r) p (rm_fl r p + 1)) t)
                                 (map pair_of (s_wait s) ++ [(sid, p)])) evs0 =
               mkSmon (dec (mkRmon (rm_acc r ++ [(p, t)]) (rm_dd r) (upd (rm_fl r) p (rm_fl r p + 1)) t) p)
                      (map pair_of (s_wait s)) ->
               exists m', smon_step c (mkSmon r (map pair_of (s_wait s))) (SReq sid p obs t good addrs n) evs0 = inl m' /\
                          srate (mkS (rl_complete l' p) (s_wait s)) m' /\ rm_last (sm_r m') = t).
    { intros l' evs0 Cl Hcl Hil Hne Hrej Hask Hends. open_step.
      destruct evs0 as [|e0 er]; [congruence|]. rewrite Hrej, Hok. cbn [Z.eqb negb]. rewrite Hask, Hends.
      eexists. split; [reflexivity|]. split; [|reflexivity].
      apply (post_end (s_rl s)); auto. }
    destruct good; cbn [negb] in H.
    2:{ inversion H; subst s' evs. apply (Hfin l1); auto; try discriminate.
        cbn [smon_ends fold_left ends]. apply fl_remove_new, Ef. }
    destruct (select_addr addrs) as [[idx a]|] eqn:Es.
    2:{ inversion H; subst s' evs. apply (Hfin l1); auto; try discriminate.
        - cbn [existsb is_reject]. unfold ST_REFUSED, ST_REJECTED. rewrite Z.eqb_refl. reflexivity.
        - cbn [smon_ends fold_left ends]. apply fl_remove_new, Ef. }
    destruct (need_data obs a) eqn:End.
    + destruct (rl_accept_dd c l1 t) as [l2 ok2] eqn:Ead.
      destruct ok2; cbn [negb] in H.
      2:{ (* the dial-data limiter refuses: observed as a rejected request *)
          inversion H; subst s' evs.
          destruct (accept_dd_false _ _ _ _ _ _ _ C1' (Z.le_refl t) Hc1 Ead) as [C2 [Hc2 Hi2]].
          open_step. cbn [existsb is_reject]. unfold ST_REJECTED. rewrite !Z.eqb_refl. cbn [andb orb].
          eexists. split; [reflexivity|]. split; [|reflexivity].
          constructor; cbn [s_rl s_wait sm_r sm_fl rm_acc rm_dd rm_last rm_fl]; auto.
          - apply coupled_complete, C2.
          - rewrite complete_closed. exact Hc2.
          - intro q. rewrite complete_inprog by exact Hc2. rewrite Hi2. unfold upd. rewrite !Hi1'. unfold upd.
            rewrite Z.eqb_refl. destruct (q =? p) eqn:Eq.
            + apply Z.eqb_eq in Eq. subst q. rewrite Hfl.
              pose proof (Hnn p). lia.
            + apply Hfl.
          - apply nn_complete; [exact Hc2|]. intro q. rewrite Hi2, Hi1'. unfold upd.
            destruct (q =? p); [pose proof (Hnn p); lia|apply Hnn]. }
      destruct (n <=? 0) eqn:En; [apply Z.leb_le in En; lia|].
      inversion H; subst s' evs; clear H.
      destruct (accept_dd_true _ _ _ _ _ _ _ C1 (Z.le_refl t) Hc1 Ead) as [D1 [C2 [Hc2 Hi2]]].
      open_step. cbn [existsb is_reject is_ask]. rewrite Z.eqb_refl, Hok. cbn [Z.eqb negb orb].
      replace (count_if (fresh t) (rm_dd r) + 1 <=? DialDataRPM c) with true by (symmetry; apply Z.leb_le; lia).
      cbn [smon_ends fold_left ends].
      eexists. split; [reflexivity|]. split; [|reflexivity].
      constructor; cbn [s_rl s_wait sm_r sm_fl rm_acc rm_dd rm_last rm_fl]; auto.
      * intro q. rewrite Hi2, Hi1'. unfold upd. destruct (q =? p); [rewrite Hfl; reflexivity|apply Hfl].
      * rewrite map_app. reflexivity.
      * rewrite map_app. cbn [map w_sid]. apply nodup_snoc; [exact Hnd|apply find_w_none, Ef].
      * intro q. rewrite Hi2, Hi1'. unfold upd. destruct (q =? p); [pose proof (Hnn p); lia|apply Hnn].
    + unfold finish_dial in H. inversion H; subst s' evs; clear H.
      apply (Hfin l1); auto; try discriminate.
      * cbn [existsb is_reject]. unfold ST_OK, ST_REJECTED. rewrite Z.eqb_refl. reflexivity.
      * cbn [smon_ends fold_left ends]. apply fl_remove_new, Ef.
  - (* a stream that does not send its request yet *)
    open_step. rewrite exists_pair.
    destruct (find_w sid (s_wait s)) as [w|] eqn:Ef.
    { inversion H; subst s' evs. cbn [orb]. eexists. split; [reflexivity|]. split; [|reflexivity].
      constructor; cbn [s_rl s_wait sm_r sm_fl rm_acc rm_dd rm_last rm_fl]; auto.
      apply (coupled_later _ _ _ _ _ C Htime). }
    destruct (rl_accept c (s_rl s) p t) as [l1 ok] eqn:Ea.
    destruct ok; cbn [negb] in H.
    2:{ inversion H; subst s' evs. destruct (accept_false _ _ _ _ _ _ _ _ C Htime Hopen Ea) as [C1 [Hc1 Hi1]].
        cbn [existsb is_reject]. unfold ST_REJECTED. rewrite !Z.eqb_refl. cbn [andb orb].
        eexists. split; [reflexivity|]. split; [|reflexivity].
        apply (post_reject (s_rl s)); auto. intro q. rewrite Hi1. reflexivity. }
    destruct (accept_true _ _ _ _ _ _ _ _ _ C Htime Hopen Ea (Hfl p)) as [A1 [A2 [A3 [C1 [C1' [Hc1 Hi1]]]]]].
    inversion H; subst s' evs; clear H. cbn [existsb orb].
    rewrite (accept_ok_zero c r p t A1 A2 A3). cbn [Z.eqb negb]. unfold smon_ends. cbn [fold_left].
    eexists. split; [reflexivity|]. split; [|reflexivity].
    constructor; cbn [s_rl s_wait sm_r sm_fl rm_acc rm_dd rm_last rm_fl]; auto.
    + intro q. rewrite Hi1. unfold upd. destruct (q =? p); [rewrite Hfl; reflexivity|apply Hfl].
    + rewrite map_app. reflexivity.
    + rewrite map_app. cbn [map w_sid]. apply nodup_snoc; [exact Hnd|apply find_w_none, Ef].
    + intro q. rewrite Hi1. unfold upd. destruct (q =? p); [pose proof (Hnn p); lia|apply Hnn].
  - (* the late request of such a stream *)
    cbn [op_wf] in Hwf. unfold minHandshakeSizeBytes, maxHandshakeSizeBytes in Hwf.
    pose proof (coupled_later _ _ _ _ _ C Htime) as Ct.
    assert (Hkeep : exists m', smon_step c (mkSmon r (map pair_of (s_wait s))) (SLate sid t good addrs n) [] = inl m' /\
                      srate s m' /\ rm_last (sm_r m') = t).
    { open_step. cbn [existsb]. unfold smon_ends. cbn [fold_left].
      eexists. split; [reflexivity|]. split; [|reflexivity].
      constructor; cbn [s_rl s_wait sm_r sm_fl rm_acc rm_dd rm_last rm_fl]; auto. }
    destruct (find_w sid (s_wait s)) as [w|] eqn:Ef.
    2:{ inversion H; subst s' evs. exact Hkeep. }
    destruct (w_req w) eqn:Ereq; cbn [negb] in H.
    2:{ inversion H; subst s' evs. exact Hkeep. }
    clear Hkeep. cbv zeta in H.
    (* the request ends within this step, with events that contain no DialDataRequest *)
    assert (Hfin : forall l' evs0, coupled l' (rm_acc r) (rm_dd r) t -> rl_closed l' = false ->
               (forall q, rl_inprog l' q = rl_inprog (s_rl s) q) ->
               existsb (is_ask sid) evs0 = false ->
               smon_ends (mkSmon (mkRmon (rm_acc r) (rm_dd r) (rm_fl r) t) (map pair_of (s_wait s))) evs0 =
               mkSmon (dec (mkRmon (rm_acc r) (rm_dd r) (rm_fl r) t) (w_peer w)) (map pair_of (remove_w sid (s_wait s))) ->
               exists m', smon_step c (mkSmon r (map pair_of (s_wait s))) (SLate sid t good addrs n) evs0 = inl m' /\
                          srate (mkS (rl_complete l' (w_peer w)) (remove_w sid (s_wait s))) m' /\ rm_last (sm_r m') = t).
    { intros l' evs0 Cl Hcl Hil Hask Hends. open_step. rewrite Hask, Hends.
      eexists. split; [reflexivity|]. split; [|reflexivity].
      constructor; cbn [s_rl s_wait sm_r sm_fl dec rm_acc rm_dd rm_last rm_fl].
      - apply coupled_complete, Cl.
      - rewrite complete_closed. exact Hcl.
      - intro q. rewrite complete_inprog by exact Hcl. unfold upd. rewrite !Hil.
        destruct (q =? w_peer w); [rewrite Hfl; reflexivity|apply Hfl].
      - reflexivity.
      - apply nodup_filter_sids, Hnd.
      - apply nn_complete; [exact Hcl|]. intro q. rewrite Hil. apply Hnn. }
    assert (Hone : forall e, ends e = Some sid ->
              smon_ends (mkSmon (mkRmon (rm_acc r) (rm_dd r) (rm_fl r) t) (map pair_of (s_wait s))) [e] =
              mkSmon (dec (mkRmon (rm_acc r) (rm_dd r) (rm_fl r) t) (w_peer w)) (map pair_of (remove_w sid (s_wait s)))).
    { intros e He. unfold smon_ends. cbn [fold_left]. rewrite He, fl_remove_wait, Ef. reflexivity. }
    destruct good; cbn [negb] in H.
    2:{ inversion H; subst s' evs. apply (Hfin (s_rl s)); auto. }
    destruct (select_addr addrs) as [[idx a]|] eqn:Es.
    2:{ inversion H; subst s' evs. apply (Hfin (s_rl s)); auto. }
    destruct (need_data (w_obs w) a) eqn:End.
    + destruct (rl_accept_dd c (s_rl s) t) as [l2 ok2] eqn:Ead.
      destruct ok2; cbn [negb] in H.
      2:{ inversion H; subst s' evs.
          destruct (accept_dd_false _ _ _ _ _ _ _ C Htime Hopen Ead) as [C2 [Hc2 Hi2]].
          apply (Hfin l2); auto. intro q. rewrite Hi2. reflexivity. }
      destruct (n <=? 0) eqn:En; [apply Z.leb_le in En; lia|].
      inversion H; subst s' evs; clear H.
      destruct (accept_dd_true _ _ _ _ _ _ _ C Htime Hopen Ead) as [D1 [C2 [Hc2 Hi2]]].
      open_step. cbn [existsb is_ask]. rewrite Z.eqb_refl. cbn [orb].
      replace (count_if (fresh t) (rm_dd r) + 1 <=? DialDataRPM c) with true by (symmetry; apply Z.leb_le; lia).
      unfold smon_ends. cbn [fold_left ends].
      eexists. split; [reflexivity|]. split; [|reflexivity].
      constructor; cbn [s_rl s_wait sm_r sm_fl rm_acc rm_dd rm_last rm_fl]; auto.
      * intro q. rewrite Hi2. apply Hfl.
      * rewrite map_map. apply map_ext. intro x. unfold pair_of. destruct (w_sid x =? sid); reflexivity.
      * rewrite map_map. replace (map _ (s_wait s)) with (map w_sid (s_wait s)); [exact Hnd|].
        apply map_ext. intro x. destruct (w_sid x =? sid); reflexivity.
      * intro q. rewrite Hi2. apply Hnn.
    + unfold finish_dial in H. inversion H; subst s' evs; clear H.
      apply (Hfin (s_rl s)); auto.
      unfold smon_ends. cbn [fold_left ends]. rewrite fl_remove_wait, Ef. reflexivity.
  - (* a dial-data message *)
    cbn [smon_step]. unfold smon_ends.
    assert (Hkeep : srate s (mkSmon r (map pair_of (s_wait s)))) by (constructor; auto).
    destruct (find_w sid (s_wait s)) as [w|] eqn:Ef.
    2:{ inversion H; subst s' evs. eexists. split; [reflexivity|]. split; [exact Hkeep|reflexivity]. }
    assert (Hend : srate (mkS (rl_complete (s_rl s) (w_peer w)) (remove_w sid (s_wait s)))
                         (mkSmon (dec r (w_peer w)) (map pair_of (remove_w sid (s_wait s))))).
    { constructor; cbn [s_rl s_wait sm_r sm_fl dec rm_acc rm_dd rm_last rm_fl]; auto.
      - apply coupled_complete, C.
      - rewrite complete_closed. exact Hopen.
      - intro q. rewrite complete_inprog by exact Hopen. unfold upd.
        destruct (q =? w_peer w); [rewrite Hfl; reflexivity|apply Hfl].
      - apply nodup_filter_sids, Hnd.
      - apply nn_complete; assumption. }
    assert (Hreset : fold_left (fun m e => match ends e with Some sid0 => fl_remove sid0 m | None => m end)
                       [EReset sid] (mkSmon r (map pair_of (s_wait s))) =
                     mkSmon (dec r (w_peer w)) (map pair_of (remove_w sid (s_wait s)))).
    { cbn [fold_left ends]. rewrite fl_remove_wait, Ef. reflexivity. }
    destruct (w_req w) eqn:Ereq.
    { inversion H; subst s' evs. rewrite Hreset. eexists. split; [reflexivity|]. split; [exact Hend|reflexivity]. }
    destruct msg as [L D|].
    2:{ inversion H; subst s' evs. rewrite Hreset. eexists. split; [reflexivity|]. split; [exact Hend|reflexivity]. }
    destruct (dd_step (w_remain w) L) as [| |r'|] eqn:Ed.
    + inversion H; subst s' evs. rewrite Hreset. eexists. split; [reflexivity|]. split; [exact Hend|reflexivity].
    + inversion H; subst s' evs. rewrite Hreset. eexists. split; [reflexivity|]. split; [exact Hend|reflexivity].
    + inversion H; subst s' evs. cbn [fold_left]. eexists. split; [reflexivity|]. split; [|reflexivity].
      constructor; cbn [s_rl s_wait sm_r sm_fl]; auto.
      * rewrite map_map. apply map_ext. intro x. unfold pair_of. destruct (w_sid x =? sid); reflexivity.
      * rewrite map_map. replace (map _ (s_wait s)) with (map w_sid (s_wait s)); [exact Hnd|].
        apply map_ext. intro x. destruct (w_sid x =? sid); reflexivity.
    + unfold finish_dial in H. inversion H; subst s' evs. cbn [fold_left ends].
      rewrite fl_remove_wait, Ef. eexists. split; [reflexivity|]. split; [exact Hend|reflexivity].
  - (* the client closes *)
    cbn [smon_step]. unfold smon_ends.
    destruct (find_w sid (s_wait s)) as [w|] eqn:Ef.
    2:{ inversion H; subst s' evs. eexists. split; [reflexivity|]. split; [constructor; auto|reflexivity]. }
    inversion H; subst s' evs. cbn [fold_left ends]. rewrite fl_remove_wait, Ef.
    eexists. split; [reflexivity|]. split; [|reflexivity].
    constructor; cbn [s_rl s_wait sm_r sm_fl dec rm_acc rm_dd rm_last rm_fl]; auto.
    + apply coupled_complete, C.
    + rewrite complete_closed. exact Hopen.
    + intro q. rewrite complete_inprog by exact Hopen. unfold upd.
      destruct (q =? w_peer w); [rewrite Hfl; reflexivity|apply Hfl].
    + apply nodup_filter_sids, Hnd.
    + apply nn_complete; assumption.
  - (* timeout *)
    inversion H; subst s' evs; clear H. cbn [smon_step sm_r sm_fl].
    replace (t <? rm_last r) with false by (symmetry; apply Z.ltb_ge; lia).
    destruct (timeout_rates (s_wait s) (mkRmon (rm_acc r) (rm_dd r) (rm_fl r) t) (s_rl s) Hnd Hopen Hfl)
      as [r' [A [B [B2 [B3 [B4 [B5 B6]]]]]]].
    rewrite A. eexists. split; [reflexivity|]. split; [|exact B3].
    constructor; cbn [s_rl s_wait sm_r sm_fl]; auto.
    + rewrite B, B2, B3. cbn [rm_acc rm_dd rm_last]. apply B5. apply (coupled_later _ _ _ _ _ C Htime).
    + constructor.
    + apply nn_fold; assumption.
Qed.

Lemma smon_run_model : forall c ops s m i, srate s m -> Forall op_wf ops ->
  smono (rm_last (sm_r m)) ops -> smon_run c m i (s_trace c s ops) = [].
Proof.
  intros c ops. induction ops as [|o r IH]; intros s m i R W M; [reflexivity|].
  cbn [s_trace]. destruct (s_step c s o) as [s' evs] eqn:E. cbn [smon_run].
  inversion W; subst.
  assert (Ht : op_time_ok (rm_last (sm_r m)) o /\ smono (next_T (rm_last (sm_r m)) o) r).
  { destruct o; cbn [smono op_time_ok next_T] in *; tauto. }
  destruct Ht as [Ht Hm].
  destruct (rate_step_ok _ _ _ _ _ _ R H1 Ht E) as [m' [A [B C]]].
  rewrite A. apply IH; [exact B|exact H2|rewrite C; exact Hm].
Qed.

Lemma srate_init : srate s_init smon_init.
Proof.
  constructor; cbn; auto; try (intros; lia); try constructor; intros; cbn; lia.
Qed.

Lemma holds_rates_model : forall c ops, Forall op_wf ops -> smono 0 ops ->
  holds_rates c (s_trace c s_init ops) = [].
Proof. intros. apply smon_run_model; [apply srate_init|assumption|assumption]. Qed.

(* headline for kind-2 cases: the whole session monitor accepts every session of the model *)
Lemma holds_session_model : forall c ops, Forall op_wf ops -> smono 0 ops ->
  holds_session c (s_trace c s_init ops) = [].
Proof.
  intros. unfold holds_session. rewrite (holds_dials_model c ops H). apply holds_rates_model; assumption.
Qed.

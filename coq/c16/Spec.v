(* C16 — the property as decidable predicates over observable traces
   (monitors), and the decoding of correspondence lines.  No proofs here.

   WIRE FORMAT (one case per line, integers):

   kind 0 — rateLimiter history
     0 RPM PerPeerRPM DialDataRPM MaxConcurrentRequestsPerPeer  op*
     op = 1 p t ok nreqs npeer ninprog    Accept(p) at virtual time t (ns); answer, then
                                          len(reqs), len(peerReqs[p]), inProgressReqs[p]
        | 2 t ok ndd                      AcceptDialDataRequest at t; answer, len(dialDataReqs)
        | 3 p ninprog                     CompleteRequest(p); inProgressReqs[p] afterwards
        | 4                               Close

   kind 1 — readDialData on a scripted reader
     1 numBytes k (mk L D)^k res consumed
     mk = 0: a complete message of L bytes carrying D bytes of dial data
             (D = len(Data) of a well-formed DialDataResponse, D = L for raw bytes)
     mk = 1: a broken message (truncated body / invalid length prefix); then EOF
     after the k messages the reader returns EOF
     res = 0 nil | 1 read error | 2 "msg too small";  consumed = complete messages read

   kind 3 — option wiring (conformance only: says nothing about the property by itself)
     3 rpm perPeerRPM dialDataRPM maxConc allowPrivate 1   RPM PerPeerRPM DialDataRPM MaxConc allowPrivate policy
     left: what the user passed to New(WithServerRateLimit(...), [AllowPrivateAddrs]);
     right: what the constructed server's limiter / server hold; policy = 1 iff the data-request
     policy in force asks for data exactly when the IPs differ (on two sample pairs)

   kind 2 — server session (serveDialRequest on scripted streams, recording dialer)
     2 RPM PerPeerRPM DialDataRPM MaxConc  step*
     step = stimulus nev event^nev npeers inprog_0 .. inprog_{npeers-1}
            (inprog_i = the limiter's inProgressReqs entry of peer i after the step; compared by
             conform_case only, never looked at by the monitor)
     stimulus = 1 sid p obs t good n k (aid cls ip)^k   a stream of peer p, observed IP id obs
                                          (0 = none), arrives at time t; good = 1: its first
                                          message is a DialRequest with the k listed entries;
                                          n = NumBytes of the DialDataRequest the server sent (0 if none)
              | 5 sid p obs t             a stream arrives, the client does not send its request yet
              | 6 sid t good n k (aid cls ip)^k   the first message of such a stream arrives at time t
              | 2 sid mk L D              the client writes one message (as in kind 1)
              | 3 sid                     the client closes its side
              | 4 t                       the clock is advanced past every open stream's deadline
     cls = parse + 2*public + 4*canDial;  ip = IP identity of the entry (0 = no IP literal)
     event = 10 sid status idx            DialResponse read by the client (100/101/200)
           | 11 sid idx n                 DialDataRequest read by the client
           | 12 p aid                     Dial(p, addr) on the dialer host's transport (aid = -1: unknown address)
           | 13 sid                       the server reset the stream
*)
From Coq Require Import List ZArith Bool.
From Verif Require Import lib.Wire gen.Consts_c16 c16.Model.
Import ListNotations.
Local Open Scope Z_scope.

(* specification values named in the property text *)
Definition MINUTE : Z := 60000000000.      (* "sliding one-minute window", ns *)
Definition SPEC_MIN_DATA : Z := 30000.     (* "30 to 100 kB" *)
Definition SPEC_MAX_DATA : Z := 100000.

Definition fresh (now t : Z) : bool := now - t <? MINUTE.

Definition count_if {A} (f : A -> bool) (l : list A) : Z := len (filter f l).

(* ---- kind 0: limiter monitor ------------------------------------------- *)
(* state: accepted (peer, time) so far, accepted dial-data times, requests in
   flight per peer, last clock reading *)
Record rmon := mkRmon { rm_acc : list (Z * Z); rm_dd : list Z; rm_fl : Z -> Z; rm_last : Z }.

Definition rmon_init : rmon := mkRmon [] [] (fun _ => 0) 0.

Definition acc_fresh (now : Z) (e : Z * Z) : bool := fresh now (snd e).
Definition acc_fresh_peer (now p : Z) (e : Z * Z) : bool := (fst e =? p) && fresh now (snd e).

(* diagnostic clause numbers *)
Definition CL_CLOCK : Z := 1.        (* clock not monotone: malformed history *)
Definition CL_GLOBAL : Z := 2.
Definition CL_PEER : Z := 3.
Definition CL_DIALDATA : Z := 4.
Definition CL_CONCURRENT : Z := 5.

(* judge one accepted request of p at time t *)
Definition accept_ok (c : rl_cfg) (m : rmon) (p t : Z) : Z :=
  if negb (count_if (acc_fresh t) (rm_acc m) + 1 <=? RPM c) then CL_GLOBAL
  else if negb (count_if (acc_fresh_peer t p) (rm_acc m) + 1 <=? PerPeerRPM c) then CL_PEER
  else if negb (rm_fl m p + 1 <=? MaxConc c) then CL_CONCURRENT
  else 0.

Definition rmon_step (c : rl_cfg) (m : rmon) (o : rop) (x : robs) : rmon + Z :=
  match o, x with
  | RAccept p t, OAccept ok _ _ _ =>
      if t <? rm_last m then inr CL_CLOCK else
      if ok then
        let d := accept_ok c m p t in
        if d =? 0 then inl (mkRmon (rm_acc m ++ [(p, t)]) (rm_dd m) (upd (rm_fl m) p (rm_fl m p + 1)) t)
        else inr d
      else inl (mkRmon (rm_acc m) (rm_dd m) (rm_fl m) t)
  | RAcceptDD t, OAcceptDD ok _ =>
      if t <? rm_last m then inr CL_CLOCK else
      if ok then
        if count_if (fresh t) (rm_dd m) + 1 <=? DialDataRPM c
        then inl (mkRmon (rm_acc m) (rm_dd m ++ [t]) (rm_fl m) t)
        else inr CL_DIALDATA
      else inl (mkRmon (rm_acc m) (rm_dd m) (rm_fl m) t)
  | RComplete p, OComplete _ =>
      inl (mkRmon (rm_acc m) (rm_dd m) (upd (rm_fl m) p (Z.max 0 (rm_fl m p - 1))) (rm_last m))
  | RClose, OClose => inl m
  | _, _ => inr 9
  end.

Fixpoint rmon_run (c : rl_cfg) (m : rmon) (i : Z) (tr : list (rop * robs)) : list Z :=
  match tr with
  | [] => []
  | (o, x) :: r =>
      match rmon_step c m o x with
      | inl m' => rmon_run c m' (i + 1) r
      | inr d => [if d =? CL_CLOCK then ERR_MALFORMED else ERR_PROPERTY; i; d]
      end
  end.

Definition holds_limiter (c : rl_cfg) (tr : list (rop * robs)) : list Z := rmon_run c rmon_init 0 tr.

(* ---- kind 1: dial-data monitor ----------------------------------------- *)
Definition msg_data (m : dmsg) : Z := match m with MFull _ D => D | MBroken => 0 end.

Fixpoint sum_data (l : list dmsg) : Z :=
  match l with [] => 0 | m :: r => msg_data m + sum_data r end.

(* readDialData returned nil only after at least numBytes bytes of dial data
   were received *)
Definition holds_dialdata (n : Z) (msgs : list dmsg) (res consumed : Z) : list Z :=
  if res =? 0 then
    if (n <=? 0) || (n <=? sum_data (firstn (Z.to_nat consumed) msgs)) then []
    else [ERR_PROPERTY; consumed; n; sum_data (firstn (Z.to_nat consumed) msgs)]
  else [].

(* ---- kind 2: session monitors ------------------------------------------ *)
(* (a) dial clauses *)
Record mstream := mkM {
  m_sid : Z; m_peer : Z; m_obs : Z; m_addrs : list addr;
  m_asked : option Z;        (* NumBytes of the DialDataRequest, if one was sent *)
  m_sent : Z                 (* dial-data bytes the client has sent since *)
}.

Definition has_usable (l : list addr) : bool := existsb usable l.

(* "that address's IP differs from the IP the request came from" *)
Definition ip_differs (obs : Z) (a : addr) : bool :=
  negb (obs =? 0) && negb (a_ip a =? 0) && negb (obs =? a_ip a).

Definition paid (s : mstream) : bool :=
  match m_asked s with Some n => n <=? m_sent s | None => false end.

(* may stream s account for Dial(p, aid)? *)
Definition dial_by (p aid : Z) (s : mstream) : bool :=
  (m_peer s =? p) && has_usable (m_addrs s) &&
  existsb (fun a => (a_id a =? aid) && a_parse a && (negb (ip_differs (m_obs s) a) || paid s))
          (m_addrs s).

Definition in_flight (sid : Z) (l : list mstream) : bool := existsb (fun s => m_sid s =? sid) l.
Definition drop_stream (sid : Z) (l : list mstream) : list mstream :=
  filter (fun s => negb (m_sid s =? sid)) l.
Definition find_stream (sid : Z) (l : list mstream) : option mstream :=
  find (fun s => m_sid s =? sid) l.

Definition CL_DIAL : Z := 11.        (* dial not covered by a request / unpaid *)
Definition CL_REFUSE : Z := 12.      (* OK response to a request naming no public dialable address *)
Definition CL_ASKRANGE : Z := 13.    (* NumBytes outside 30..100 kB *)
Definition CL_SHAPE : Z := 19.       (* event for a stream that is not open: malformed trace *)

Definition dmon_event (l : list mstream) (e : sev) : list mstream + Z :=
  match e with
  | EAsk sid idx n =>
      if negb (in_flight sid l) then inr CL_SHAPE
      else if negb ((SPEC_MIN_DATA <=? n) && (n <=? SPEC_MAX_DATA)) then inr CL_ASKRANGE
      else inl (map (fun s => if m_sid s =? sid
                              then mkM (m_sid s) (m_peer s) (m_obs s) (m_addrs s) (Some n) 0 else s) l)
  | EDial p aid =>
      if existsb (dial_by p aid) l then inl l else inr CL_DIAL
  | ERespond sid st idx =>
      match find_stream sid l with
      | None => inr CL_SHAPE
      | Some s => if (st =? ST_OK) && negb (has_usable (m_addrs s)) then inr CL_REFUSE
                  else inl (drop_stream sid l)
      end
  | EReset sid =>
      if in_flight sid l then inl (drop_stream sid l) else inr CL_SHAPE
  end.

Fixpoint dmon_events (l : list mstream) (evs : list sev) : list mstream + Z :=
  match evs with
  | [] => inl l
  | e :: r => match dmon_event l e with
              | inl l' => dmon_events l' r
              | inr d => inr d
              end
  end.

Definition dmon_stimulus (l : list mstream) (o : sop) (evs : list sev) : list mstream + Z :=
  match o with
  | SReq sid p obs t good addrs n =>
      if in_flight sid l then (match evs with [] => inl l | _ => inr CL_SHAPE end)
      else inl (l ++ [mkM sid p obs addrs None 0])
  | SOpen sid p obs t =>
      if in_flight sid l then (match evs with [] => inl l | _ => inr CL_SHAPE end)
      else inl (l ++ [mkM sid p obs [] None 0])
  | SLate sid t good addrs n =>
      (* the request of a stream that had not sent one yet *)
      inl (map (fun s => if m_sid s =? sid
                         then match m_addrs s, m_asked s with
                              | [], None => mkM (m_sid s) (m_peer s) (m_obs s) addrs None (m_sent s)
                              | _, _ => s
                              end
                         else s) l)
  | SData sid m =>
      inl (map (fun s => if m_sid s =? sid
                         then mkM (m_sid s) (m_peer s) (m_obs s) (m_addrs s) (m_asked s) (m_sent s + msg_data m)
                         else s) l)
  | SEof _ => inl l
  | STimeout _ => inl l
  end.

Fixpoint dmon_run (l : list mstream) (i : Z) (tr : list (sop * list sev)) : list Z :=
  match tr with
  | [] => []
  | (o, evs) :: r =>
      match dmon_stimulus l o evs with
      | inr d => [ERR_MALFORMED; i; d]
      | inl l1 =>
          match dmon_events l1 evs with
          | inl l2 => dmon_run l2 (i + 1) r
          | inr d => [if d =? CL_SHAPE then ERR_MALFORMED else ERR_PROPERTY; i; d]
          end
      end
  end.

Definition holds_dials (tr : list (sop * list sev)) : list Z := dmon_run [] 0 tr.

(* (b) rate clauses over a session: a request counts as accepted unless the
   server answered it E_REQUEST_REJECTED at once; it is in flight until its
   response or reset *)
Record smon := mkSmon { sm_r : rmon; sm_fl : list (Z * Z) (* (sid, peer) in flight *) }.

Definition smon_init : smon := mkSmon rmon_init [].

Definition is_reject (sid : Z) (e : sev) : bool :=
  match e with ERespond s st _ => (s =? sid) && (st =? ST_REJECTED) | _ => false end.
Definition is_ask (sid : Z) (e : sev) : bool :=
  match e with EAsk s _ _ => s =? sid | _ => false end.
Definition ends (e : sev) : option Z :=
  match e with ERespond s _ _ => Some s | EReset s => Some s | _ => None end.

Definition fl_remove (sid : Z) (m : smon) : smon :=
  match find (fun e => fst e =? sid) (sm_fl m) with
  | None => m
  | Some (_, p) =>
      let r := sm_r m in
      mkSmon (mkRmon (rm_acc r) (rm_dd r) (upd (rm_fl r) p (Z.max 0 (rm_fl r p - 1))) (rm_last r))
             (filter (fun e => negb (fst e =? sid)) (sm_fl m))
  end.

Definition smon_ends (m : smon) (evs : list sev) : smon :=
  fold_left (fun m e => match ends e with Some sid => fl_remove sid m | None => m end) evs m.

Definition smon_step (c : rl_cfg) (m : smon) (o : sop) (evs : list sev) : smon + Z :=
  match o with
  | SReq sid p obs t good addrs n =>
      let r := sm_r m in
      if t <? rm_last r then inr CL_CLOCK else
      match evs with
      | [] => inl (mkSmon (mkRmon (rm_acc r) (rm_dd r) (rm_fl r) t) (sm_fl m))
      | _ =>
        if existsb (is_reject sid) evs
        then inl (mkSmon (mkRmon (rm_acc r) (rm_dd r) (rm_fl r) t) (sm_fl m))
        else
          let d := accept_ok c r p t in
          if negb (d =? 0) then inr d else
          let r1 := mkRmon (rm_acc r ++ [(p, t)]) (rm_dd r) (upd (rm_fl r) p (rm_fl r p + 1)) t in
          if existsb (is_ask sid) evs then
            if count_if (fresh t) (rm_dd r) + 1 <=? DialDataRPM c
            then inl (smon_ends (mkSmon (mkRmon (rm_acc r1) (rm_dd r1 ++ [t]) (rm_fl r1) t)
                                        (sm_fl m ++ [(sid, p)])) evs)
            else inr CL_DIALDATA
          else inl (smon_ends (mkSmon r1 (sm_fl m ++ [(sid, p)])) evs)
      end
  | SOpen sid p obs t =>
      let r := sm_r m in
      if t <? rm_last r then inr CL_CLOCK else
      if existsb (fun e => fst e =? sid) (sm_fl m) || existsb (is_reject sid) evs
      then inl (mkSmon (mkRmon (rm_acc r) (rm_dd r) (rm_fl r) t) (sm_fl m))
      else
        let d := accept_ok c r p t in
        if negb (d =? 0) then inr d else
        inl (smon_ends (mkSmon (mkRmon (rm_acc r ++ [(p, t)]) (rm_dd r) (upd (rm_fl r) p (rm_fl r p + 1)) t)
                               (sm_fl m ++ [(sid, p)])) evs)
  | SLate sid t good addrs n =>
      let r := sm_r m in
      if t <? rm_last r then inr CL_CLOCK else
      if existsb (is_ask sid) evs then
        if count_if (fresh t) (rm_dd r) + 1 <=? DialDataRPM c
        then inl (smon_ends (mkSmon (mkRmon (rm_acc r) (rm_dd r ++ [t]) (rm_fl r) t) (sm_fl m)) evs)
        else inr CL_DIALDATA
      else inl (smon_ends (mkSmon (mkRmon (rm_acc r) (rm_dd r) (rm_fl r) t) (sm_fl m)) evs)
  | STimeout t =>
      let r := sm_r m in
      if t <? rm_last r then inr CL_CLOCK else
      inl (smon_ends (mkSmon (mkRmon (rm_acc r) (rm_dd r) (rm_fl r) t) (sm_fl m)) evs)
  | _ => inl (smon_ends m evs)
  end.

Fixpoint smon_run (c : rl_cfg) (m : smon) (i : Z) (tr : list (sop * list sev)) : list Z :=
  match tr with
  | [] => []
  | (o, evs) :: r =>
      match smon_step c m o evs with
      | inl m' => smon_run c m' (i + 1) r
      | inr d => [if d =? CL_CLOCK then ERR_MALFORMED else ERR_PROPERTY; i; d]
      end
  end.

Definition holds_rates (c : rl_cfg) (tr : list (sop * list sev)) : list Z := smon_run c smon_init 0 tr.

Definition holds_session (c : rl_cfg) (tr : list (sop * list sev)) : list Z :=
  match holds_dials tr with
  | [] => holds_rates c tr
  | d => d
  end.

(* ---- decoding ----------------------------------------------------------- *)

Fixpoint decode_rtrace (l : list Z) (fuel : nat) : option (list (rop * robs)) :=
  match fuel with
  | O => None
  | S f =>
    match l with
    | [] => Some []
    | 1 :: p :: t :: ok :: a :: b :: c :: r =>
        option_map (cons (RAccept p t, OAccept (zbool ok) a b c)) (decode_rtrace r f)
    | 2 :: t :: ok :: a :: r =>
        option_map (cons (RAcceptDD t, OAcceptDD (zbool ok) a)) (decode_rtrace r f)
    | 3 :: p :: a :: r =>
        option_map (cons (RComplete p, OComplete a)) (decode_rtrace r f)
    | 4 :: r => option_map (cons (RClose, OClose)) (decode_rtrace r f)
    | _ => None
    end
  end.

Definition decode_msg (mk L D : Z) : dmsg := if mk =? 0 then MFull L D else MBroken.

Fixpoint decode_msgs (k : nat) (l : list Z) : option (list dmsg * list Z) :=
  match k with
  | O => Some ([], l)
  | S k' =>
      match l with
      | mk :: L :: D :: r =>
          match decode_msgs k' r with
          | Some (ms, rest) => Some (decode_msg mk L D :: ms, rest)
          | None => None
          end
      | _ => None
      end
  end.

Definition addr_of (aid cls ip : Z) : addr :=
  mkAddr aid (Z.testbit cls 0) (Z.testbit cls 1) (Z.testbit cls 2) ip.

Fixpoint decode_addrs (k : nat) (l : list Z) : option (list addr * list Z) :=
  match k with
  | O => Some ([], l)
  | S k' =>
      match l with
      | aid :: cls :: ip :: r =>
          match decode_addrs k' r with
          | Some (as_, rest) => Some (addr_of aid cls ip :: as_, rest)
          | None => None
          end
      | _ => None
      end
  end.

Fixpoint decode_events (k : nat) (l : list Z) : option (list sev * list Z) :=
  match k with
  | O => Some ([], l)
  | S k' =>
      match l with
      | 10 :: sid :: st :: idx :: r =>
          match decode_events k' r with Some (es, rest) => Some (ERespond sid st idx :: es, rest) | None => None end
      | 11 :: sid :: idx :: n :: r =>
          match decode_events k' r with Some (es, rest) => Some (EAsk sid idx n :: es, rest) | None => None end
      | 12 :: p :: aid :: r =>
          match decode_events k' r with Some (es, rest) => Some (EDial p aid :: es, rest) | None => None end
      | 13 :: sid :: r =>
          match decode_events k' r with Some (es, rest) => Some (EReset sid :: es, rest) | None => None end
      | _ => None
      end
  end.

Definition decode_stimulus (l : list Z) : option (sop * list Z) :=
  match l with
  | 1 :: sid :: p :: obs :: t :: good :: n :: k :: r =>
      if k <? 0 then None else
      match decode_addrs (Z.to_nat k) r with
      | Some (as_, rest) => Some (SReq sid p obs t (zbool good) as_ n, rest)
      | None => None
      end
  | 5 :: sid :: p :: obs :: t :: r => Some (SOpen sid p obs t, r)
  | 6 :: sid :: t :: good :: n :: k :: r =>
      if k <? 0 then None else
      match decode_addrs (Z.to_nat k) r with
      | Some (as_, rest) => Some (SLate sid t (zbool good) as_ n, rest)
      | None => None
      end
  | 2 :: sid :: mk :: L :: D :: r => Some (SData sid (decode_msg mk L D), r)
  | 3 :: sid :: r => Some (SEof sid, r)
  | 4 :: t :: r => Some (STimeout t, r)
  | _ => None
  end.

Fixpoint decode_strace (l : list Z) (fuel : nat) : option (list ((sop * list sev) * list Z)) :=
  match fuel with
  | O => None
  | S f =>
    match l with
    | [] => Some []
    | _ =>
      match decode_stimulus l with
      | Some (o, nev :: r) =>
          if nev <? 0 then None else
          match decode_events (Z.to_nat nev) r with
          | Some (evs, np :: rest) =>
              if (np <? 0) || (zlen rest <? np) then None else
              option_map (cons ((o, evs), ztake np rest)) (decode_strace (zdrop np rest) f)
          | _ => None
          end
      | _ => None
      end
    end
  end.

(* ---- conformance -------------------------------------------------------- *)
Definition robs_eqb (a b : robs) : bool :=
  match a, b with
  | OAccept o1 x1 y1 z1, OAccept o2 x2 y2 z2 => Bool.eqb o1 o2 && (x1 =? x2) && (y1 =? y2) && (z1 =? z2)
  | OAcceptDD o1 x1, OAcceptDD o2 x2 => Bool.eqb o1 o2 && (x1 =? x2)
  | OComplete x1, OComplete x2 => x1 =? x2
  | OClose, OClose => true
  | _, _ => false
  end.

Definition robs_z (x : robs) : list Z :=
  match x with
  | OAccept o a b c => [boolz o; a; b; c]
  | OAcceptDD o a => [boolz o; a]
  | OComplete a => [a]
  | OClose => []
  end.

Fixpoint conform_rl (c : rl_cfg) (l : rl) (i : Z) (tr : list (rop * robs)) : list Z :=
  match tr with
  | [] => []
  | (o, x) :: r =>
      let '(l', mx) := rl_step c l o in
      if robs_eqb mx x then conform_rl c l' (i + 1) r
      else ERR_MISMATCH :: i :: robs_z mx ++ robs_z x
  end.

Definition sev_z (e : sev) : list Z :=
  match e with
  | ERespond a b c => [10; a; b; c]
  | EAsk a b c => [11; a; b; c]
  | EDial a b => [12; a; b]
  | EReset a => [13; a]
  end.

Definition sevs_eqb (a b : list sev) : bool := zlist_eqb (flat_map sev_z a) (flat_map sev_z b).

Fixpoint inprog_list (l : rl) (i : Z) (k : nat) : list Z :=
  match k with O => [] | S k' => rl_inprog l i :: inprog_list l (i + 1) k' end.

(* events of each step, and the limiter's inProgressReqs of every peer after it *)
Fixpoint conform_s (c : rl_cfg) (s : sstate) (i : Z) (tr : list ((sop * list sev) * list Z)) : list Z :=
  match tr with
  | [] => []
  | ((o, evs), ip) :: r =>
      let '(s', mevs) := s_step c s o in
      if negb (sevs_eqb mevs evs)
      then ERR_MISMATCH :: i :: flat_map sev_z mevs ++ [-1] ++ flat_map sev_z evs
      else let mip := inprog_list (s_rl s') 0 (length ip) in
           if zlist_eqb mip ip then conform_s c s' (i + 1) r
           else ERR_MISMATCH :: i :: -2 :: mip ++ [-1] ++ ip
  end.

(* length of a well-formed DialDataResponse message carrying D >= 1 bytes:
   tag, varint(inner length), tag, varint(D), data *)
Definition varint_len (x : Z) : Z := if x <? 128 then 1 else if x <? 16384 then 2 else 3.
Definition wf_len (D : Z) : Z :=
  if D <=? 0 then 2 else
  let inner := 1 + varint_len D + D in 1 + varint_len inner + inner.

(* the harness' claim about D is checked: D = L (raw bytes) or L = wf_len D *)
Definition msg_wf (m : dmsg) : bool :=
  match m with
  | MFull L D => (0 <=? L) && ((D =? L) || ((0 <=? D) && (L =? wf_len D)))
  | MBroken => true
  end.

Definition cfg_of (a b c d : Z) : rl_cfg := mkCfg a b c d.

Definition conform_case (l : list Z) : list Z :=
  match l with
  | 0 :: a :: b :: c :: d :: r =>
      match decode_rtrace r (S (length r)) with
      | Some tr => conform_rl (cfg_of a b c d) rl_init 0 tr
      | None => [ERR_MALFORMED; 0]
      end
  | 1 :: n :: k :: r =>
      if k <? 0 then [ERR_MALFORMED; 1] else
      match decode_msgs (Z.to_nat k) r with
      | Some (msgs, [res; consumed]) =>
          if negb (forallb msg_wf msgs) then [ERR_MALFORMED; 2] else
          let '(mres, mcons) := read_dial_data n msgs 0 in
          if (mres =? res) && (mcons =? consumed) then []
          else [ERR_MISMATCH; 0; mres; mcons; res; consumed]
      | _ => [ERR_MALFORMED; 1]
      end
  | 2 :: a :: b :: c :: d :: r =>
      match decode_strace r (S (length r)) with
      | Some tr =>
          if forallb (fun oe => match fst (fst oe) with SData _ m => msg_wf m | _ => true end) tr
          then conform_s (cfg_of a b c d) s_init 0 tr
          else [ERR_MALFORMED; 2]
      | None => [ERR_MALFORMED; 3]
      end
  | [3; a1; a2; a3; a4; a5; a6; b1; b2; b3; b4; b5; b6] =>
      if zlist_eqb [a1; a2; a3; a4; a5; a6] [b1; b2; b3; b4; b5; b6] then []
      else [ERR_MISMATCH; 0; a1; a2; a3; a4; a5; a6; b1; b2; b3; b4; b5; b6]
  | _ => [ERR_MALFORMED; 9]
  end.

Definition monitor_case (l : list Z) : list Z :=
  match l with
  | 0 :: a :: b :: c :: d :: r =>
      match decode_rtrace r (S (length r)) with
      | Some tr => holds_limiter (cfg_of a b c d) tr
      | None => [ERR_MALFORMED; 0]
      end
  | 1 :: n :: k :: r =>
      if k <? 0 then [ERR_MALFORMED; 1] else
      match decode_msgs (Z.to_nat k) r with
      | Some (msgs, [res; consumed]) => holds_dialdata n msgs res consumed
      | _ => [ERR_MALFORMED; 1]
      end
  | 2 :: a :: b :: c :: d :: r =>
      match decode_strace r (S (length r)) with
      | Some tr => holds_session (cfg_of a b c d) (map fst tr)
      | None => [ERR_MALFORMED; 3]
      end
  | 3 :: _ => []
  | _ => [ERR_MALFORMED; 9]
  end.

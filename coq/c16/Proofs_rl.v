(* C16 — rateLimiter: sliding-window and concurrency bounds *)
From Coq Require Import List ZArith Bool Lia.
From Verif Require Import lib.Wire gen.Consts_c16 c16.Model c16.Spec.
Import ListNotations.
Local Open Scope Z_scope.

(* regenerated constants against the specification value *)
Lemma consts_spec_l :
  rl_window_reqs = MINUTE /\ rl_window_peer = MINUTE /\ rl_window_dd = MINUTE.
Proof. repeat split; reflexivity. Qed.

Lemma options_wiring_l :
  opt_wire_rpm = 101 /\ opt_wire_per_peer = 102 /\ opt_wire_dial_data = 103 /\
  opt_wire_max_concurrent = 104 /\ opt_wire_allow_private_default = 0 /\ default_allow_private = 0.
Proof. repeat split; reflexivity. Qed.

(* ---- counting ------------------------------------------------------------ *)
Lemma len_nonneg : forall {A} (l : list A), 0 <= len l.
Proof. intros. unfold len. lia. Qed.

Lemma len_app : forall {A} (a b : list A), len (a ++ b) = len a + len b.
Proof. intros. unfold len. rewrite app_length. lia. Qed.

Lemma count_if_app : forall {A} (f : A -> bool) a b, count_if f (a ++ b) = count_if f a + count_if f b.
Proof. intros. unfold count_if. rewrite filter_app. apply len_app. Qed.

Lemma count_if_nonneg : forall {A} (f : A -> bool) l, 0 <= count_if f l.
Proof. intros. apply len_nonneg. Qed.

Lemma count_if_le_len : forall {A} (f : A -> bool) l, count_if f l <= len l.
Proof.
  intros A f l. unfold count_if, len. induction l as [|x r IH]; cbn [filter length]; [lia|].
  destruct (f x); cbn [length]; lia.
Qed.

Lemma count_if_cons : forall {A} (f : A -> bool) x l,
  count_if f (x :: l) = (if f x then 1 else 0) + count_if f l.
Proof. intros. unfold count_if, len. cbn [filter]. destruct (f x); cbn [length]; lia. Qed.

Lemma count_if_map : forall {A B} (g : A -> B) (f : B -> bool) l,
  count_if f (map g l) = count_if (fun x => f (g x)) l.
Proof.
  intros. induction l as [|x r IH]; [reflexivity|].
  cbn [map]. rewrite !count_if_cons, IH. reflexivity.
Qed.

Lemma fresh_later_stale : forall now now' t, now <= now' -> fresh now t = false -> fresh now' t = false.
Proof. unfold fresh. intros. apply Z.ltb_ge. apply Z.ltb_ge in H0. lia. Qed.

(* ---- cleanup drops only entries that can never be fresh again ------------ *)
Lemma drop_stale_count : forall now now' l, now <= now' ->
  count_if (fresh now') (drop_stale MINUTE now l) = count_if (fresh now') l.
Proof.
  intros now now' l Hle. induction l as [|t r IH]; [reflexivity|].
  cbn [drop_stale]. destruct (now - t <? MINUTE) eqn:E; [reflexivity|].
  rewrite IH, count_if_cons.
  rewrite (fresh_later_stale now now' t Hle E). lia.
Qed.

Lemma cleanup_reqs_count : forall now now' rq pm rq' pm', now <= now' ->
  cleanup_reqs now rq pm = (rq', pm') ->
  count_if (acc_fresh now') rq' = count_if (acc_fresh now') rq /\
  forall p, count_if (fresh now') (pm' p) = count_if (fresh now') (pm p).
Proof.
  intros now now' rq. induction rq as [|[p t] r IH]; intros pm rq' pm' Hle H.
  - cbn in H. inversion H; subst. split; [reflexivity|intro; reflexivity].
  - cbn [cleanup_reqs] in H. change rl_window_reqs with MINUTE in H. change rl_window_peer with MINUTE in H.
    destruct (MINUTE <=? now - t) eqn:E.
    + destruct (IH _ _ _ Hle H) as [H1 H2]. split.
      * rewrite H1, count_if_cons. unfold acc_fresh at 2. cbn [snd].
        assert (F : fresh now t = false) by (unfold fresh; apply Z.ltb_ge; apply Z.leb_le in E; lia).
        rewrite (fresh_later_stale now now' t Hle F). lia.
      * intro q. rewrite H2. unfold upd. destruct (q =? p) eqn:Eq; [|reflexivity].
        apply Z.eqb_eq in Eq. subst q. apply drop_stale_count, Hle.
    + inversion H; subst. split; [reflexivity|intro; reflexivity].
Qed.

(* ---- coupling between the limiter and the property monitor --------------- *)
(* H, Hd: requests / dial-data requests the monitor has counted as accepted;
   T: last clock reading.  Whatever can still be fresh in the monitor's
   history is still held by the limiter. *)
Record coupled (l : rl) (H : list (Z * Z)) (Hd : list Z) (T : Z) : Prop := mkCoupled {
  cp_reqs : forall now, T <= now ->
    count_if (acc_fresh now) H <= count_if (acc_fresh now) (rl_reqs l);
  cp_peer : forall p now, T <= now ->
    count_if (acc_fresh_peer now p) H <= count_if (fresh now) (rl_peer l p);
  cp_dd : forall now, T <= now ->
    count_if (fresh now) Hd <= count_if (fresh now) (rl_dd l)
}.

Lemma coupled_cleanup : forall l H Hd T now, coupled l H Hd T -> T <= now ->
  coupled (rl_cleanup l now) H Hd now.
Proof.
  intros l H Hd T now [C1 C2 C3] Hle. unfold rl_cleanup.
  destruct (cleanup_reqs now (rl_reqs l) (rl_peer l)) as [rq pm] eqn:E.
  constructor; cbn [rl_reqs rl_peer rl_dd]; intros.
  - destruct (cleanup_reqs_count _ now0 _ _ _ _ H0 E) as [H1 _]. rewrite H1. apply C1. lia.
  - destruct (cleanup_reqs_count _ now0 _ _ _ _ H0 E) as [_ H2]. rewrite H2. apply C2. lia.
  - change rl_window_dd with MINUTE. rewrite drop_stale_count by exact H0. apply C3. lia.
Qed.

Lemma cleanup_closed : forall l now, rl_closed (rl_cleanup l now) = rl_closed l.
Proof. intros. unfold rl_cleanup. destruct (cleanup_reqs _ _ _). reflexivity. Qed.

Lemma cleanup_inprog : forall l now, rl_inprog (rl_cleanup l now) = rl_inprog l.
Proof. intros. unfold rl_cleanup. destruct (cleanup_reqs _ _ _). reflexivity. Qed.

Lemma acc_fresh_peer_split : forall now p q t,
  acc_fresh_peer now p (q, t) = (q =? p) && fresh now t.
Proof. reflexivity. Qed.

(* a refused Accept / AcceptDialDataRequest only cleans up *)
Lemma accept_false : forall c l p now l' H Hd T, coupled l H Hd T -> T <= now ->
  rl_closed l = false -> rl_accept c l p now = (l', false) ->
  coupled l' H Hd now /\ rl_closed l' = false /\ rl_inprog l' = rl_inprog l.
Proof.
  intros c l p now l' H Hd T C Hle Hc Ha. unfold rl_accept in Ha. rewrite Hc in Ha.
  pose proof (coupled_cleanup _ _ _ _ _ C Hle) as C1.
  cbv zeta in Ha.
  destruct (MaxConc c <=? rl_inprog (rl_cleanup l now) p);
    [|destruct ((RPM c <=? len (rl_reqs (rl_cleanup l now))) || (PerPeerRPM c <=? len (rl_peer (rl_cleanup l now) p)))];
    inversion Ha; subst; (split; [exact C1|split; [rewrite cleanup_closed; exact Hc|apply cleanup_inprog]]).
Qed.

(* an accepted request passes the monitor's three checks, and the coupling
   is kept when the monitor records it *)
Lemma accept_true : forall c l p now l' H Hd T fl, coupled l H Hd T -> T <= now ->
  rl_closed l = false -> rl_accept c l p now = (l', true) ->
  fl = rl_inprog l p ->
  count_if (acc_fresh now) H + 1 <= RPM c /\
  count_if (acc_fresh_peer now p) H + 1 <= PerPeerRPM c /\
  fl + 1 <= MaxConc c /\
  coupled l' (H ++ [(p, now)]) Hd now /\ coupled l' H Hd now /\
  rl_closed l' = false /\ rl_inprog l' = upd (rl_inprog l) p (rl_inprog l p + 1).
Proof.
  intros c l p now l' H Hd T fl C Hle Hc Ha Hfl. unfold rl_accept in Ha. rewrite Hc in Ha.
  pose proof (coupled_cleanup _ _ _ _ _ C Hle) as [C1 C2 C3].
  cbv zeta in Ha. rewrite cleanup_inprog in Ha.
  destruct (MaxConc c <=? rl_inprog l p) eqn:E1; [inversion Ha|].
  destruct ((RPM c <=? len (rl_reqs (rl_cleanup l now))) || (PerPeerRPM c <=? len (rl_peer (rl_cleanup l now) p))) eqn:E2; [inversion Ha|].
  apply orb_false_iff in E2. destruct E2 as [E2 E3].
  inversion Ha; subst l'; clear Ha.
  set (l1 := rl_cleanup l now) in *.
  pose proof (C1 now (Z.le_refl _)) as G1. pose proof (C2 p now (Z.le_refl _)) as G2.
  pose proof (count_if_le_len (acc_fresh now) (rl_reqs l1)).
  pose proof (count_if_le_len (fresh now) (rl_peer l1 p)).
  assert (S1 : forall (f : Z -> bool) x, count_if f [x] = if f x then 1 else 0).
  { intros. rewrite count_if_cons. unfold count_if. cbn. lia. }
  assert (S2 : forall (f : Z * Z -> bool) x, count_if f [x] = if f x then 1 else 0).
  { intros. rewrite count_if_cons. unfold count_if. cbn. lia. }
  split; [lia|]. split; [lia|]. split; [lia|].
  split; [|split; [|split; reflexivity]].
  - constructor; cbn [rl_reqs rl_peer rl_dd]; intros.
    + rewrite !count_if_app. pose proof (C1 now0 H2). lia.
    + rewrite count_if_app, S2. unfold acc_fresh_peer at 2. cbn [fst snd]. unfold upd.
      destruct (p0 =? p) eqn:Ep.
      * apply Z.eqb_eq in Ep. subst p0. rewrite Z.eqb_refl, count_if_app, S1. cbn [andb].
        pose proof (C2 p now0 H2). lia.
      * rewrite Z.eqb_sym, Ep. cbn [andb]. pose proof (C2 p0 now0 H2). lia.
    + apply C3, H2.
  - constructor; cbn [rl_reqs rl_peer rl_dd]; intros.
    + rewrite count_if_app. pose proof (C1 now0 H2). pose proof (count_if_nonneg (acc_fresh now0) [(p, now)]). lia.
    + unfold upd. destruct (p0 =? p) eqn:Ep.
      * apply Z.eqb_eq in Ep. subst p0. rewrite count_if_app.
        pose proof (C2 p now0 H2). pose proof (count_if_nonneg (fresh now0) [now]). lia.
      * apply C2, H2.
    + apply C3, H2.
Qed.

Lemma accept_dd_false : forall c l now l' H Hd T, coupled l H Hd T -> T <= now ->
  rl_closed l = false -> rl_accept_dd c l now = (l', false) ->
  coupled l' H Hd now /\ rl_closed l' = false /\ rl_inprog l' = rl_inprog l.
Proof.
  intros c l now l' H Hd T C Hle Hc Ha. unfold rl_accept_dd in Ha. rewrite Hc in Ha.
  pose proof (coupled_cleanup _ _ _ _ _ C Hle) as C1. cbv zeta in Ha.
  destruct (DialDataRPM c <=? len (rl_dd (rl_cleanup l now))); inversion Ha; subst.
  split; [exact C1|split; [rewrite cleanup_closed; exact Hc|apply cleanup_inprog]].
Qed.

Lemma accept_dd_true : forall c l now l' H Hd T, coupled l H Hd T -> T <= now ->
  rl_closed l = false -> rl_accept_dd c l now = (l', true) ->
  count_if (fresh now) Hd + 1 <= DialDataRPM c /\
  coupled l' H (Hd ++ [now]) now /\ rl_closed l' = false /\ rl_inprog l' = rl_inprog l.
Proof.
  intros c l now l' H Hd T C Hle Hc Ha. unfold rl_accept_dd in Ha. rewrite Hc in Ha.
  pose proof (coupled_cleanup _ _ _ _ _ C Hle) as [C1 C2 C3]. cbv zeta in Ha.
  destruct (DialDataRPM c <=? len (rl_dd (rl_cleanup l now))) eqn:E; inversion Ha; subst l'; clear Ha.
  pose proof (C3 now (Z.le_refl _)). pose proof (count_if_le_len (fresh now) (rl_dd (rl_cleanup l now))).
  split; [lia|]. split; [|split; [reflexivity|apply cleanup_inprog]].
  constructor; cbn [rl_reqs rl_peer rl_dd]; intros.
  - apply C1, H2.
  - apply C2, H2.
  - rewrite !count_if_app. pose proof (C3 now0 H2). lia.
Qed.

Lemma coupled_complete : forall l p H Hd T, coupled l H Hd T -> coupled (rl_complete l p) H Hd T.
Proof.
  intros l p H Hd T [C1 C2 C3]. unfold rl_complete. destruct (rl_closed l); constructor; auto.
Qed.

Lemma complete_closed : forall l p, rl_closed (rl_complete l p) = rl_closed l.
Proof. intros. unfold rl_complete. destruct (rl_closed l) eqn:E; [exact E|reflexivity]. Qed.

Lemma complete_inprog : forall l p, rl_closed l = false ->
  rl_inprog (rl_complete l p) = upd (rl_inprog l) p (Z.max 0 (rl_inprog l p - 1)).
Proof.
  intros l p Hc. unfold rl_complete. rewrite Hc. cbn [rl_inprog]. f_equal.
  destruct (rl_inprog l p - 1 <=? 0) eqn:E; lia.
Qed.

(* ---- the monitor accepts every trace of the model ------------------------ *)
Definition rel (l : rl) (m : rmon) : Prop :=
  rl_closed l = true \/
  (coupled l (rm_acc m) (rm_dd m) (rm_last m) /\ (forall p, rm_fl m p = rl_inprog l p)).

(* the harness' clock never runs backwards *)
Fixpoint mono (T : Z) (ops : list rop) : Prop :=
  match ops with
  | [] => True
  | RAccept _ t :: r => T <= t /\ mono t r
  | RAcceptDD t :: r => T <= t /\ mono t r
  | _ :: r => mono T r
  end.

Lemma closed_accept : forall c l p t, rl_closed l = true -> rl_accept c l p t = (l, false).
Proof. intros. unfold rl_accept. rewrite H. reflexivity. Qed.
Lemma closed_accept_dd : forall c l t, rl_closed l = true -> rl_accept_dd c l t = (l, false).
Proof. intros. unfold rl_accept_dd. rewrite H. reflexivity. Qed.

Lemma rmon_run_model : forall c ops l m i, rel l m -> mono (rm_last m) ops ->
  rmon_run c m i (rl_trace c l ops) = [].
Proof.
  intros c ops. induction ops as [|o r IH]; intros l m i HR Hm; [reflexivity|].
  cbn [rl_trace]. destruct o as [p t|t|p|]; cbn [rl_step mono] in *.
  - (* Accept *)
    destruct Hm as [Hle Hm].
    destruct (rl_accept c l p t) as [l' ok] eqn:Ea. cbn [rmon_run rmon_step].
    replace (t <? rm_last m) with false by (symmetry; apply Z.ltb_ge; lia).
    destruct HR as [Hc|[C Hfl]].
    + rewrite closed_accept in Ea by exact Hc. inversion Ea; subst.
      apply IH; [left; exact Hc|exact Hm].
    + destruct (rl_closed l) eqn:Hc.
      { rewrite closed_accept in Ea by exact Hc. inversion Ea; subst.
        apply IH; [left; exact Hc|exact Hm]. }
      destruct ok.
      * destruct (accept_true _ _ _ _ _ _ _ _ _ C Hle Hc Ea (Hfl p)) as [A1 [A2 [A3 [C' [_ [Hc' Hi]]]]]].
        unfold accept_ok.
        replace (count_if (acc_fresh t) (rm_acc m) + 1 <=? RPM c) with true by (symmetry; apply Z.leb_le; lia).
        replace (count_if (acc_fresh_peer t p) (rm_acc m) + 1 <=? PerPeerRPM c) with true by (symmetry; apply Z.leb_le; lia).
        replace (rm_fl m p + 1 <=? MaxConc c) with true by (symmetry; apply Z.leb_le; lia).
        cbn [negb Z.eqb]. apply IH; [|exact Hm].
        right. cbn [rm_acc rm_dd rm_last rm_fl]. split; [exact C'|].
        intro q. rewrite Hi. unfold upd. destruct (q =? p); [rewrite Hfl; reflexivity|apply Hfl].
      * destruct (accept_false _ _ _ _ _ _ _ _ C Hle Hc Ea) as [C' [Hc' Hi]].
        apply IH; [|exact Hm]. right. cbn [rm_acc rm_dd rm_last rm_fl]. split; [exact C'|].
        intro q. rewrite Hi. apply Hfl.
  - (* AcceptDialDataRequest *)
    destruct Hm as [Hle Hm].
    destruct (rl_accept_dd c l t) as [l' ok] eqn:Ea. cbn [rmon_run rmon_step].
    replace (t <? rm_last m) with false by (symmetry; apply Z.ltb_ge; lia).
    destruct (rl_closed l) eqn:Hc.
    { rewrite closed_accept_dd in Ea by exact Hc. inversion Ea; subst.
      apply IH; [left; exact Hc|exact Hm]. }
    destruct HR as [Hc'|[C Hfl]]; [congruence|].
    destruct ok.
    + destruct (accept_dd_true _ _ _ _ _ _ _ C Hle Hc Ea) as [A1 [C' [Hc' Hi]]].
      replace (count_if (fresh t) (rm_dd m) + 1 <=? DialDataRPM c) with true by (symmetry; apply Z.leb_le; lia).
      apply IH; [|exact Hm]. right. cbn [rm_acc rm_dd rm_last rm_fl]. split; [exact C'|].
      intro q. rewrite Hi. apply Hfl.
    + destruct (accept_dd_false _ _ _ _ _ _ _ C Hle Hc Ea) as [C' [Hc' Hi]].
      apply IH; [|exact Hm]. right. cbn [rm_acc rm_dd rm_last rm_fl]. split; [exact C'|].
      intro q. rewrite Hi. apply Hfl.
  - (* CompleteRequest *)
    cbn [rmon_run rmon_step]. apply IH; [|exact Hm].
    destruct HR as [Hc|[C Hfl]]; [left; rewrite complete_closed; exact Hc|].
    destruct (rl_closed l) eqn:Hc; [left; rewrite complete_closed; exact Hc|].
    right. cbn [rm_acc rm_dd rm_last rm_fl]. split; [apply coupled_complete, C|].
    intro q. rewrite complete_inprog by exact Hc. unfold upd.
    destruct (q =? p); [rewrite Hfl; reflexivity|apply Hfl].
  - (* Close *)
    cbn [rmon_run rmon_step]. apply IH; [left; reflexivity|exact Hm].
Qed.

Lemma rel_init : rel rl_init rmon_init.
Proof.
  right. split; [|intro; reflexivity].
  constructor; intros; cbn; lia.
Qed.

Lemma holds_limiter_model : forall c ops, mono 0 ops ->
  holds_limiter c (rl_trace c rl_init ops) = [].
Proof. intros. apply rmon_run_model; [apply rel_init|exact H]. Qed.

(* ---- what the monitor's acceptance means: EVERY window ------------------- *)
(* the monitor only looks at windows that end at an accepted request; that is
   enough for every half-open interval [s, s + one minute) *)
Definition in_win (s : Z) (e : Z * Z) : bool := (s <=? snd e) && (snd e <? s + MINUTE).
Definition in_win_peer (s p : Z) (e : Z * Z) : bool := (fst e =? p) && in_win s e.
Definition in_win_t (s t : Z) : bool := (s <=? t) && (t <? s + MINUTE).

Record winv (c : rl_cfg) (m : rmon) : Prop := mkWinv {
  wv_all : forall s, count_if (in_win s) (rm_acc m) <= Z.max 0 (RPM c);
  wv_peer : forall s p, count_if (in_win_peer s p) (rm_acc m) <= Z.max 0 (PerPeerRPM c);
  wv_dd : forall s, count_if (in_win_t s) (rm_dd m) <= Z.max 0 (DialDataRPM c);
  wv_fl : forall p, rm_fl m p <= Z.max 0 (MaxConc c)
}.

Lemma count_if_imp : forall {A} (f g : A -> bool) l,
  (forall x, In x l -> f x = true -> g x = true) -> count_if f l <= count_if g l.
Proof.
  intros A f g l. induction l as [|x r IH]; intro H; [cbn; lia|].
  rewrite !count_if_cons.
  assert (count_if f r <= count_if g r) by (apply IH; intros; apply H; [right|]; assumption).
  destruct (f x) eqn:Ef; [rewrite (H x (or_introl eq_refl) Ef); lia|destruct (g x); lia].
Qed.

Lemma count_if_false : forall {A} (f : A -> bool) x, f x = false -> count_if f [x] = 0.
Proof. intros. rewrite count_if_cons, H. reflexivity. Qed.

Lemma count_if_single_le : forall {A} (f : A -> bool) x, count_if f [x] <= 1.
Proof. intros. rewrite count_if_cons. destruct (f x); cbn; lia. Qed.

Lemma rmon_step_winv : forall c m o x m', winv c m -> rmon_step c m o x = inl m' -> winv c m'.
Proof.
  intros c m o x m' [W1 W2 W3 W4] H. destruct o as [p t|t|p|]; destruct x; cbn [rmon_step] in H; try discriminate.
  - destruct (t <? rm_last m); [discriminate|]. destruct ok.
    + destruct (accept_ok c m p t =? 0) eqn:Ea; [|discriminate]. inversion H; subst m'; clear H.
      unfold accept_ok in Ea.
      destruct (count_if (acc_fresh t) (rm_acc m) + 1 <=? RPM c) eqn:E1; [|discriminate].
      destruct (count_if (acc_fresh_peer t p) (rm_acc m) + 1 <=? PerPeerRPM c) eqn:E2; [|discriminate].
      destruct (rm_fl m p + 1 <=? MaxConc c) eqn:E3; [|discriminate].
      apply Z.leb_le in E1, E2, E3.
      constructor; cbn [rm_acc rm_dd rm_fl]; intros.
      * rewrite count_if_app. destruct (in_win s (p, t)) eqn:Ew.
        -- assert (count_if (in_win s) (rm_acc m) <= count_if (acc_fresh t) (rm_acc m)).
           { apply count_if_imp. intros [q u] _ Hq. unfold in_win in *. cbn [snd] in *.
             apply andb_true_iff in Hq, Ew. destruct Hq as [Hq1 Hq2]. destruct Ew as [Ew1 Ew2].
             unfold acc_fresh, fresh. cbn [snd]. apply Z.ltb_lt. lia. }
           pose proof (count_if_single_le (in_win s) (p, t)). lia.
        -- rewrite (count_if_false _ _ Ew). pose proof (W1 s). lia.
      * rewrite count_if_app. destruct (in_win_peer s p0 (p, t)) eqn:Ew.
        -- unfold in_win_peer in Ew. cbn [fst] in Ew. apply andb_true_iff in Ew. destruct Ew as [Ep Ew].
           apply Z.eqb_eq in Ep. subst p0.
           assert (count_if (in_win_peer s p) (rm_acc m) <= count_if (acc_fresh_peer t p) (rm_acc m)).
           { apply count_if_imp. intros [q u] _ Hq. unfold in_win_peer, in_win in *. cbn [fst snd] in *.
             apply andb_true_iff in Hq. destruct Hq as [Hq0 Hq]. apply andb_true_iff in Hq, Ew.
             destruct Hq as [Hq1 Hq2]. destruct Ew as [Ew1 Ew2].
             unfold acc_fresh_peer, fresh. cbn [fst snd]. rewrite Hq0. cbn [andb]. apply Z.ltb_lt. lia. }
           pose proof (count_if_single_le (in_win_peer s p) (p, t)). lia.
        -- rewrite (count_if_false _ _ Ew). pose proof (W2 s p0). lia.
      * apply W3.
      * unfold upd. destruct (p0 =? p); [lia|apply W4].
    + inversion H; subst; constructor; assumption.
  - destruct (t <? rm_last m); [discriminate|]. destruct ok.
    + destruct (count_if (fresh t) (rm_dd m) + 1 <=? DialDataRPM c) eqn:E1; [|discriminate].
      inversion H; subst m'; clear H. apply Z.leb_le in E1.
      constructor; cbn [rm_acc rm_dd rm_fl]; intros; auto.
      rewrite count_if_app. destruct (in_win_t s t) eqn:Ew.
      * assert (count_if (in_win_t s) (rm_dd m) <= count_if (fresh t) (rm_dd m)).
        { apply count_if_imp. intros u _ Hq. unfold in_win_t in *.
          apply andb_true_iff in Hq, Ew. destruct Hq as [Hq1 Hq2]. destruct Ew as [Ew1 Ew2].
          unfold fresh. apply Z.ltb_lt. lia. }
        pose proof (count_if_single_le (in_win_t s) t). lia.
      * rewrite (count_if_false _ _ Ew). pose proof (W3 s). lia.
    + inversion H; subst; constructor; assumption.
  - inversion H; subst m'; clear H. constructor; cbn [rm_acc rm_dd rm_fl]; auto.
    intro q. unfold upd. destruct (q =? p); [|apply W4]. pose proof (W4 p). lia.
  - inversion H; subst; constructor; assumption.
Qed.

(* run the monitor to its final state *)
Fixpoint rmon_exec (c : rl_cfg) (m : rmon) (tr : list (rop * robs)) : option rmon :=
  match tr with
  | [] => Some m
  | (o, x) :: r => match rmon_step c m o x with inl m' => rmon_exec c m' r | inr _ => None end
  end.

Lemma rmon_run_exec : forall c tr m i, rmon_run c m i tr = [] -> exists m', rmon_exec c m tr = Some m'.
Proof.
  intros c tr. induction tr as [|[o x] r IH]; intros m i H; [eexists; reflexivity|].
  cbn [rmon_run rmon_exec] in *. destruct (rmon_step c m o x) as [m1|d]; [apply (IH _ _ H)|discriminate].
Qed.

Lemma rmon_exec_winv : forall c tr m m', winv c m -> rmon_exec c m tr = Some m' -> winv c m'.
Proof.
  intros c tr. induction tr as [|[o x] r IH]; intros m m' W H; cbn [rmon_exec] in H.
  - inversion H; subst; exact W.
  - destruct (rmon_step c m o x) as [m1|d] eqn:E; [|discriminate].
    apply (IH m1 m'); [apply (rmon_step_winv _ _ _ _ _ W E)|exact H].
Qed.

(* the accepted requests of a trace, as the monitor collects them *)
Definition accepted_of (tr : list (rop * robs)) : list (Z * Z) :=
  flat_map (fun ox => match ox with (RAccept p t, OAccept true _ _ _) => [(p, t)] | _ => [] end) tr.
Definition accepted_dd_of (tr : list (rop * robs)) : list Z :=
  flat_map (fun ox => match ox with (RAcceptDD t, OAcceptDD true _) => [t] | _ => [] end) tr.

Lemma rmon_exec_acc : forall c tr m m', rmon_exec c m tr = Some m' ->
  rm_acc m' = rm_acc m ++ accepted_of tr /\ rm_dd m' = rm_dd m ++ accepted_dd_of tr.
Proof.
  intros c tr. induction tr as [|[o x] r IH]; intros m m' H; cbn [rmon_exec] in H.
  - inversion H; subst. cbn. rewrite !app_nil_r. split; reflexivity.
  - destruct (rmon_step c m o x) as [m1|d] eqn:E; [|discriminate].
    destruct (IH _ _ H) as [H1 H2]. rewrite H1, H2. clear IH H H1 H2.
    destruct o as [p t|t|p|]; destruct x; cbn [rmon_step] in E; try discriminate.
    + destruct (t <? rm_last m); [discriminate|]. destruct ok.
      * destruct (accept_ok c m p t =? 0); [|discriminate]. inversion E; subst m1.
        cbn [rm_acc rm_dd accepted_of accepted_dd_of flat_map]. rewrite <- app_assoc. split; reflexivity.
      * inversion E; subst m1. split; reflexivity.
    + destruct (t <? rm_last m); [discriminate|]. destruct ok.
      * destruct (_ <=? _); [|discriminate]. inversion E; subst m1.
        cbn [rm_acc rm_dd accepted_of accepted_dd_of flat_map]. rewrite <- app_assoc. split; reflexivity.
      * inversion E; subst m1. split; reflexivity.
    + inversion E; subst m1. split; reflexivity.
    + inversion E; subst m1. split; reflexivity.
Qed.

Lemma winv_init : forall c, winv c rmon_init.
Proof. intro c. constructor; intros; cbn; lia. Qed.

(* sliding-window bound for every arrival pattern on a monotone clock *)
Lemma window_bound_l : forall c ops, mono 0 ops ->
  let tr := rl_trace c rl_init ops in
  (forall s, count_if (in_win s) (accepted_of tr) <= Z.max 0 (RPM c)) /\
  (forall s p, count_if (in_win_peer s p) (accepted_of tr) <= Z.max 0 (PerPeerRPM c)) /\
  (forall s, count_if (in_win_t s) (accepted_dd_of tr) <= Z.max 0 (DialDataRPM c)).
Proof.
  intros c ops Hm tr. pose proof (holds_limiter_model c ops Hm) as Hh. unfold holds_limiter in Hh.
  destruct (rmon_run_exec _ _ _ _ Hh) as [m' He].
  pose proof (rmon_exec_winv _ _ _ _ (winv_init c) He) as [W1 W2 W3 _].
  destruct (rmon_exec_acc _ _ _ _ He) as [A1 A2]. cbn [rmon_init rm_acc rm_dd app] in A1, A2.
  fold tr in A1, A2. rewrite <- A1, <- A2. auto.
Qed.

(* ---- concurrency bound, on every history (no clock hypothesis) ----------- *)
Fixpoint rl_run (c : rl_cfg) (l : rl) (ops : list rop) : rl :=
  match ops with [] => l | o :: r => rl_run c (fst (rl_step c l o)) r end.

Definition conc_ok (c : rl_cfg) (l : rl) : Prop :=
  forall p, 0 <= rl_inprog l p <= Z.max 0 (MaxConc c).

Lemma conc_step : forall c l o, conc_ok c l -> conc_ok c (fst (rl_step c l o)).
Proof.
  intros c l o H. destruct o as [p t|t|p|]; cbn [rl_step].
  - destruct (rl_accept c l p t) as [l' ok] eqn:E. cbn [fst]. unfold rl_accept in E.
    destruct (rl_closed l); [inversion E; subst; exact H|]. cbv zeta in E. rewrite cleanup_inprog in E.
    destruct (MaxConc c <=? rl_inprog l p) eqn:E1.
    { inversion E; subst. intro q. rewrite cleanup_inprog. apply H. }
    destruct (_ || _).
    { inversion E; subst. intro q. rewrite cleanup_inprog. apply H. }
    inversion E; subst. intro q. cbn [rl_inprog]. unfold upd.
    destruct (q =? p); [pose proof (H p); lia|apply H].
  - destruct (rl_accept_dd c l t) as [l' ok] eqn:E. cbn [fst]. unfold rl_accept_dd in E.
    destruct (rl_closed l); [inversion E; subst; exact H|]. cbv zeta in E.
    destruct (_ <=? _); inversion E; subst; intro q; cbn [rl_inprog]; rewrite cleanup_inprog; apply H.
  - cbn [fst]. unfold rl_complete. destruct (rl_closed l); [exact H|].
    intro q. cbn [rl_inprog]. unfold upd. destruct (q =? p); [|apply H].
    pose proof (H p). destruct (rl_inprog l p - 1 <=? 0) eqn:E; lia.
  - cbn [fst]. unfold rl_close. intro q. cbn [rl_inprog]. lia.
Qed.

Lemma concurrency_bound_l : forall c ops p,
  0 <= rl_inprog (rl_run c rl_init ops) p <= Z.max 0 (MaxConc c).
Proof.
  intros c ops. assert (G : forall l, conc_ok c l -> conc_ok c (rl_run c l ops)).
  { induction ops as [|o r IH]; intros l H; [exact H|]. cbn [rl_run]. apply IH, conc_step, H. }
  apply G. intro q. cbn. lia.
Qed.

(* Extraction of the executable model + monitors for the correspondence driver.
   Only ExtrOcamlBasic: positive/N/Z/nat stay inductive types. *)
From Coq Require Import Extraction ExtrOcamlBasic.
From Verif Require Import c16.Spec.
Extraction Language OCaml.
Extraction "extract/c16_model.ml" conform_case monitor_case.

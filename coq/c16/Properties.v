From Coq Require Import List ZArith Bool.
From Verif Require Import lib.Wire gen.Consts_c16 c16.Model c16.Spec c16.Proofs.
Import ListNotations.
Local Open Scope Z_scope.

Theorem c16_consts_spec :
  rl_window_reqs = MINUTE /\ rl_window_peer = MINUTE /\ rl_window_dd = MINUTE.
Proof. exact consts_spec_l. Qed.
Print Assumptions c16_consts_spec.

(* C16 — property theorems only.  Each is closed by [exact] of a lemma from
   Proofs_*.v and followed by Print Assumptions. *)
From Coq Require Import List ZArith Bool.
From Verif Require Import lib.Wire gen.Consts_c16 c16.Model c16.Spec c16.Proofs.
Import ListNotations.
Local Open Scope Z_scope.

(* ---- regenerated constants against the values the property names -------- *)
(* the three comparisons in rateLimiter.cleanup use one minute; the dial-data
   request asks for 30 000 .. 100 000 bytes *)
Theorem c16_consts_spec :
  (rl_window_reqs = MINUTE /\ rl_window_peer = MINUTE /\ rl_window_dd = MINUTE) /\
  (minHandshakeSizeBytes = SPEC_MIN_DATA /\ maxHandshakeSizeBytes = SPEC_MAX_DATA).
Proof. exact (conj consts_spec_l consts_data_l). Qed.
Print Assumptions c16_consts_spec.

(* regenerated: New(WithServerRateLimit(101, 102, 103, 104)) hands exactly these four values, in
   this order, to the server's limiter, and private addresses are not allowed unless asked for *)
Theorem c16_options_wiring :
  opt_wire_rpm = 101 /\ opt_wire_per_peer = 102 /\ opt_wire_dial_data = 103 /\
  opt_wire_max_concurrent = 104 /\ opt_wire_allow_private_default = 0 /\ default_allow_private = 0.
Proof. exact options_wiring_l. Qed.
Print Assumptions c16_options_wiring.

(* ---- rate limiter ------------------------------------------------------- *)
(* THE limiter property on traces: for every configuration and every history
   of Accept / AcceptDialDataRequest / CompleteRequest / Close on a clock that
   does not run backwards, the monitor that judges the implementation's traces
   accepts the model's trace *)
Theorem c16_limiter_trace_holds : forall c ops, mono 0 ops ->
  holds_limiter c (rl_trace c rl_init ops) = [].
Proof. exact holds_limiter_model. Qed.
Print Assumptions c16_limiter_trace_holds.

(* sliding window, every arrival pattern: in EVERY interval [s, s + 1 min)
   the accepted requests number at most RPM, those of one peer at most
   PerPeerRPM, the accepted dial-data requests at most DialDataRPM *)
Theorem c16_window_bound : forall c ops, mono 0 ops ->
  let tr := rl_trace c rl_init ops in
  (forall s, count_if (in_win s) (accepted_of tr) <= Z.max 0 (RPM c)) /\
  (forall s p, count_if (in_win_peer s p) (accepted_of tr) <= Z.max 0 (PerPeerRPM c)) /\
  (forall s, count_if (in_win_t s) (accepted_dd_of tr) <= Z.max 0 (DialDataRPM c)).
Proof. exact window_bound_l. Qed.
Print Assumptions c16_window_bound.

(* never more than MaxConcurrentRequestsPerPeer requests of one peer in
   flight, on every history (no hypothesis on the clock) *)
Theorem c16_concurrency_bound : forall c ops p,
  0 <= rl_inprog (rl_run c rl_init ops) p <= Z.max 0 (MaxConc c).
Proof. exact concurrency_bound_l. Qed.
Print Assumptions c16_concurrency_bound.

(* ---- readDialData ------------------------------------------------------- *)
(* the monitor of kind-1 cases accepts every answer of the model *)
Theorem c16_dialdata_trace_holds : forall n msgs, forallb msg_wf msgs = true ->
  let '(res, cns) := read_dial_data n msgs 0 in holds_dialdata n msgs res cns = [].
Proof. exact holds_dialdata_model. Qed.
Print Assumptions c16_dialdata_trace_holds.

(* nil is returned only after numBytes bytes of dial data, however the data
   is split into messages *)
Theorem c16_read_dial_data_bytes : forall n msgs cns, forallb msg_wf msgs = true ->
  read_dial_data n msgs 0 = (0, cns) ->
  n <= 0 \/ n <= sum_data (firstn (Z.to_nat cns) msgs).
Proof. exact read_dial_data_bytes_l. Qed.
Print Assumptions c16_read_dial_data_bytes.

(* the length arithmetic is exact on a well-formed DialDataResponse that fits
   the buffer, and never over-counts any message *)
Theorem c16_length_accounting :
  (forall D, 1 <= D -> wf_len D <= maxMsgSize -> bytes_len (wf_len D) = D) /\
  (forall L, bytes_len L <= L - 4).
Proof. exact (conj bytes_len_exact bytes_len_le). Qed.
Print Assumptions c16_length_accounting.

(* a message carrying fewer than the minimum while bytes remain is an error *)
Theorem c16_small_message_refused : forall remain L, L <= maxMsgSize ->
  bytes_len L < dialdata_min_msg -> 0 < remain - Z.max 0 (bytes_len L) ->
  dd_step remain L = DDSmall.
Proof. exact dd_step_small. Qed.
Print Assumptions c16_small_message_refused.

(* ---- serving a request -------------------------------------------------- *)
(* THE session property on traces: for every configuration and every session
   (requests of any shape from any peers, dial-data messages, closes, timeouts,
   overlapping requests) whose clock does not run backwards, the session
   monitor — every dial is covered by an open request of the dialled peer that
   names the address and, when the IP differs, has been paid for in full; a
   request naming no public dialable address is never answered OK; NumBytes is
   30..100 kB; window and concurrency limits — accepts the model's trace *)
Theorem c16_session_trace_holds : forall c ops, Forall op_wf ops -> smono 0 ops ->
  holds_session c (s_trace c s_init ops) = [].
Proof. exact holds_session_model. Qed.
Print Assumptions c16_session_trace_holds.

(* the dial clauses need no hypothesis on the clock *)
Theorem c16_dials_trace_holds : forall c ops, Forall op_wf ops ->
  holds_dials (s_trace c s_init ops) = [].
Proof. exact holds_dials_model. Qed.
Print Assumptions c16_dials_trace_holds.

(* the address that is selected is the first public, dialable entry among the
   first maxPeerAddresses of the request *)
Theorem c16_dial_only_requested : forall l idx a, select_addr l = Some (idx, a) ->
  In a l /\ usable a = true /\ 0 <= idx < maxPeerAddresses /\
  nth_error l (Z.to_nat (idx - 0)) = Some a /\
  forall j b, (j < Z.to_nat (idx - 0))%nat -> nth_error l j = Some b -> usable b = false.
Proof. intros l idx a. exact (select_from_sound l 0 idx a). Qed.
Print Assumptions c16_dial_only_requested.

(* a dial made while the request is taken in goes to the requester, to the
   selected address, and only if that address's IP is the observed one *)
Theorem c16_dial_without_data_same_ip : forall c s sid p obs t good addrs n s' evs q aid,
  0 < n ->
  s_step c s (SReq sid p obs t good addrs n) = (s', evs) -> In (EDial q aid) evs ->
  q = p /\ exists idx a, select_addr addrs = Some (idx, a) /\ a_id a = aid /\
                         need_data obs a = false /\ ip_differs obs a = false.
Proof. exact dial_on_request_l. Qed.
Print Assumptions c16_dial_without_data_same_ip.

(* a dial made on a dial-data message belongs to the stream the message came
   on and happens only when readDialData's loop has run to completion *)
Theorem c16_no_dial_before_data : forall c s sid L D s' evs q aid,
  s_step c s (SData sid (MFull L D)) = (s', evs) -> In (EDial q aid) evs ->
  exists w, find_w sid (s_wait s) = Some w /\ q = w_peer w /\ aid = a_id (w_addr w) /\
            dd_step (w_remain w) L = DDDone.
Proof. exact dial_on_data_l. Qed.
Print Assumptions c16_no_dial_before_data.

(* a request naming no public, dialable address: no dial, no data request *)
Theorem c16_no_public_addr_no_dial : forall c s sid p obs t addrs n s' evs,
  has_usable addrs = false ->
  s_step c s (SReq sid p obs t true addrs n) = (s', evs) ->
  evs = [] \/ evs = [ERespond sid ST_REJECTED 0] \/ evs = [ERespond sid ST_REFUSED 0].
Proof. exact no_usable_no_dial_l. Qed.
Print Assumptions c16_no_public_addr_no_dial.

(* ---- non-vacuity --------------------------------------------------------- *)
Definition cfg1 := mkCfg 2 1 1 1.

(* a reachable limiter state that refuses: third request inside the window *)
Example limiter_refuses_reachable :
  map snd (rl_trace cfg1 rl_init [RAccept 1 0; RComplete 1; RAccept 2 5; RComplete 2; RAccept 3 59999999999; RAccept 3 60000000000]) =
  [OAccept true 1 1 1; OComplete 0; OAccept true 2 1 1; OComplete 0; OAccept false 2 0 0; OAccept true 2 1 1].
Proof. vm_compute. reflexivity. Qed.

(* the monitor rejects a third acceptance within one minute under RPM = 2 *)
Example monitor_rejects_window_overrun :
  monitor_case [0; 2; 5; 5; 5;  1; 1; 0; 1; 1; 1; 1;  3; 1; 0;  1; 2; 5; 1; 2; 1; 1;  3; 2; 0;
                1; 3; 59999999999; 1; 3; 1; 1] <> [].
Proof. vm_compute. discriminate. Qed.

(* ... and a second concurrent request of one peer under MaxConcurrentRequestsPerPeer = 1 *)
Example monitor_rejects_concurrency_overrun :
  monitor_case [0; 9; 9; 9; 1;  1; 7; 0; 1; 1; 1; 1;  1; 7; 10; 1; 2; 2; 2] <> [].
Proof. vm_compute. discriminate. Qed.

(* readDialData: a session in which the model dials after data; the monitor
   rejects a nil result one byte short *)
Example monitor_rejects_short_data :
  monitor_case [1; 300; 2;  0; 206; 200;  0; 105; 99;  0; 2] <> [].
Proof. vm_compute. discriminate. Qed.

Definition a_foreign := mkAddr 1 true true true 2.
Definition a_private := mkAddr 2 true false true 11.

(* a session of the model in which a foreign-IP address is dialled after the
   data has been received *)
Example dial_after_data_reachable :
  flat_map snd (s_trace cfg1 s_init
     [SReq 1 0 1 0 true [a_private; a_foreign] 30000;
      SData 1 (MFull 8192 8186); SData 1 (MFull 8192 8186); SData 1 (MFull 8192 8186);
      SData 1 (MFull 5450 5444)]) =
  [EAsk 1 1 30000; EDial 0 1; ERespond 1 ST_OK 1].
Proof. vm_compute. reflexivity. Qed.

(* the monitor rejects: a dial of a foreign-IP address before the data *)
Example monitor_rejects_unpaid_dial :
  monitor_case [2; 9; 9; 9; 9;  1; 1; 0; 1; 0; 1; 30000; 1; 1; 7; 2;  1; 11; 1; 0; 30000;  0;
                2; 1; 0; 8192; 8186;  2; 12; 0; 1; 10; 1; 200; 0;  0] <> [].
Proof. vm_compute. discriminate. Qed.

(* ... a dial of an address the request does not name *)
Example monitor_rejects_foreign_address :
  monitor_case [2; 9; 9; 9; 9;  1; 1; 0; 1; 0; 1; 0; 1; 1; 7; 1;  2; 12; 0; 5; 10; 1; 200; 0;  0] <> [].
Proof. vm_compute. discriminate. Qed.

(* ... a dial to another peer *)
Example monitor_rejects_other_peer :
  monitor_case [2; 9; 9; 9; 9;  1; 1; 0; 1; 0; 1; 0; 1; 1; 7; 1;  2; 12; 3; 1; 10; 1; 200; 0;  0] <> [].
Proof. vm_compute. discriminate. Qed.

(* ... an OK answer to a request naming only a private address *)
Example monitor_rejects_private_only_ok :
  monitor_case [2; 9; 9; 9; 9;  1; 1; 0; 1; 0; 1; 0; 1; 1; 5; 1;  1; 10; 1; 200; 0;  0] <> [].
Proof. vm_compute. discriminate. Qed.

(* a third concurrent request of one peer under MaxConcurrentRequestsPerPeer = 2: two streams
   that have not sent their request yet and one that owes dial data (clause 5) *)
Example monitor_rejects_third_concurrent_stream :
  monitor_case [2; 9; 9; 9; 2;  1; 1; 0; 1; 0; 1; 30000; 1; 1; 7; 2;  1; 11; 1; 0; 30000;  0;
                5; 2; 0; 1; 10;  0;  0;   5; 3; 0; 1; 20;  0;  0] = [ERR_PROPERTY; 2; CL_CONCURRENT].
Proof. vm_compute. reflexivity. Qed.

(* the model refuses that third stream *)
Example model_refuses_third_concurrent_stream :
  flat_map snd (s_trace (mkCfg 9 9 9 2) s_init
     [SReq 1 0 1 0 true [a_foreign] 30000; SOpen 2 0 1 10; SOpen 3 0 1 20]) =
  [EAsk 1 0 30000; ERespond 3 ST_REJECTED 0].
Proof. vm_compute. reflexivity. Qed.

(* and it accepts the honest version of the same exchange *)
Example monitor_accepts_same_ip_dial :
  monitor_case [2; 9; 9; 9; 9;  1; 1; 0; 1; 0; 1; 0; 1; 1; 7; 1;  2; 12; 0; 1; 10; 1; 200; 0;  0] = [].
Proof. vm_compute. reflexivity. Qed.
